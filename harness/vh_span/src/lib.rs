//! Shared engine of the C03 / C04 / C18 conformance harnesses.
//!
//! A *case* is a program printed by TLC: a sequence of steps, each naming the model thread
//! that performs it and carrying the observation the specification predicts after it.
//! Every model thread is a dedicated OS thread (fresh per case: the state under test is
//! thread-local) that sits in a command loop.  Entering a frame, polling a task or running a
//! span body *nests* another command loop inside the real `Frame::call` / `EnterGuard` /
//! `FrameFuture::poll` / macro-generated span body, so the nesting of the program is the real
//! nesting of the Rust call stack, and a scripted panic is a real `panic!` unwinding through
//! the real guards.  The driver sends one step at a time, waits for its completion and then
//! asks every thread what it observes.
use std::cell::RefCell;
use std::future::Future;
use std::panic::{catch_unwind, resume_unwind, AssertUnwindSafe};
use std::pin::Pin;
use std::sync::atomic::{AtomicU8, Ordering};
use std::sync::mpsc::{channel, Receiver, RecvTimeoutError, Sender};
use std::sync::Arc;
use std::task::{Context, Poll, Waker};
use std::time::Duration;

pub use vh_common::*;

pub mod world;

pub enum Cmd {
    Step(Value),
    Observe,
    /// observation of the thread that has just performed the given step (may look closer)
    ObserveActing(Value),
    Quit,
}

/// Why a nested command loop returned.
#[derive(Debug)]
pub enum Leave {
    /// `exit` / `end`: leave the innermost synchronous frame (the step is passed along)
    Exit(Value),
    /// the hand-written future returns `Pending`
    Yield(Value),
    /// the hand-written future returns `Ready`
    Complete(Value),
    /// the case is over: unwind everything quietly
    Quit,
}

pub type Panicked = Box<dyn std::any::Any + Send + 'static>;

pub trait Machine: Sync + 'static {
    /// Perform one step on the calling model thread.  Must send exactly one reply for the
    /// step (before nesting `run_loop`, if it nests) and, when it nested a loop that was left
    /// by a step, exactly one reply for that leaving step after cleaning up.
    /// Returns `Some(Leave::Quit)` when a nested loop was left because the case is over.
    fn exec(&'static self, step: &Value) -> Option<Leave>;
    /// What the calling model thread observes right now.
    fn observe(&'static self) -> Value;
    /// The same for the thread that has just performed `step`: machines may add probes there
    /// (observations nested inside callbacks, a caught panic followed by an observation, ...).
    fn observe_acting(&'static self, step: &Value) -> Value {
        let _ = step;
        self.observe()
    }
}

/// Where a model thread is, as seen by the watchdog: waiting for a command (the engine's own
/// bookkeeping - a missing reply in this phase is an engine bug) or executing a step /
/// observation (a missing reply in this phase is a hang of the code that is being driven).
pub const PHASE_WAITING: u8 = 0;
pub const PHASE_BUSY: u8 = 1;
pub const PHASE_EXITED: u8 = 2;

thread_local! {
    static CHAN: RefCell<Option<(Receiver<Cmd>, Sender<Value>, Arc<AtomicU8>)>> = const { RefCell::new(None) };
}

pub fn reply(v: Value) {
    CHAN.with(|c| {
        let c = c.borrow();
        let _ = c.as_ref().expect("not a model thread").1.send(v);
    })
}

pub fn reply_ok() {
    reply(json!({"ok": true}))
}

fn recv() -> Cmd {
    CHAN.with(|c| {
        let c = c.borrow();
        let c = c.as_ref().expect("not a model thread");
        c.2.store(PHASE_WAITING, Ordering::SeqCst);
        let cmd = c.0.recv().unwrap_or(Cmd::Quit);
        c.2.store(PHASE_BUSY, Ordering::SeqCst);
        cmd
    })
}

pub const SCRIPTED_PANIC: &str = "scripted panic";

/// The command loop.  Nested by `Machine::exec` implementations.
pub fn run_loop<M: Machine>(m: &'static M) -> Leave {
    loop {
        match recv() {
            Cmd::Quit => return Leave::Quit,
            Cmd::Observe => {
                let o = m.observe();
                reply(o)
            }
            Cmd::ObserveActing(step) => {
                let o = m.observe_acting(&step);
                reply(o)
            }
            Cmd::Step(step) => {
                let op = step["op"].as_str().unwrap_or("").to_string();
                match op.as_str() {
                    "exit" | "end" => return Leave::Exit(step),
                    "yield" => return Leave::Yield(step),
                    "complete" => return Leave::Complete(step),
                    "panic" => panic!("{}", SCRIPTED_PANIC),
                    _ => {
                        match selftest(&step) {
                            Some(SelfTest::Busy) => loop {
                                std::hint::spin_loop();
                                std::thread::sleep(Duration::from_millis(50));
                            },
                            Some(SelfTest::Drop) => continue,     // "forget" the reply
                            None => {}
                        }
                        if let Some(Leave::Quit) = m.exec(&step) {
                            return Leave::Quit;
                        }
                    }
                }
            }
        }
    }
}

enum SelfTest {
    Busy,
    Drop,
}

/// Fault injection for testing the watchdogs (never set by the checks):
/// VERIF_SELFTEST=busy-once:N  the N-th executed step hangs forever (does not repeat => noise)
/// VERIF_SELFTEST=busy-op:OP   every step with that op on thread 2 hangs (reproducible => data)
/// VERIF_SELFTEST=drop:N       the N-th executed step is not answered once (does not repeat => noise)
/// VERIF_SELFTEST=drop-op:OP   every step with that op on thread 2 is not answered (engine bug => exit 2)
fn selftest(step: &Value) -> Option<SelfTest> {
    static SPEC: std::sync::OnceLock<Option<(String, String)>> = std::sync::OnceLock::new();
    static COUNT: std::sync::atomic::AtomicU64 = std::sync::atomic::AtomicU64::new(0);
    let spec = SPEC.get_or_init(|| {
        std::env::var("VERIF_SELFTEST").ok().and_then(|s| s.split_once(':').map(|(a, b)| (a.to_string(), b.to_string())))
    });
    let (kind, arg) = spec.as_ref()?;
    match kind.as_str() {
        "busy-op" => (step["op"].as_str() == Some(arg.as_str()) && step["t"] == 2).then_some(SelfTest::Busy),
        "drop-op" => (step["op"].as_str() == Some(arg.as_str()) && step["t"] == 2).then_some(SelfTest::Drop),
        "busy-once" | "drop" => {
            let n = COUNT.fetch_add(1, Ordering::SeqCst) + 1;
            (Some(n) == arg.parse::<u64>().ok()).then_some(if kind == "drop" { SelfTest::Drop } else { SelfTest::Busy })
        }
        _ => None,
    }
}

fn panic_text(e: &Panicked) -> String {
    if let Some(s) = e.downcast_ref::<&str>() {
        s.to_string()
    } else if let Some(s) = e.downcast_ref::<String>() {
        s.clone()
    } else {
        "panic".to_string()
    }
}

fn thread_main<M: Machine>(m: &'static M, rx: Receiver<Cmd>, tx: Sender<Value>, phase: Arc<AtomicU8>) {
    let done = tx.clone();
    CHAN.with(|c| *c.borrow_mut() = Some((rx, tx, phase.clone())));
    loop {
        match catch_unwind(AssertUnwindSafe(|| run_loop(m))) {
            Ok(Leave::Quit) => break,
            Ok(other) => {
                // a leaving step at top level: the program is not well nested (spec bug)
                reply(json!({"tool_error": format!("leave at top level: {other:?}")}));
            }
            Err(p) => reply(json!({"panicked": panic_text(&p)})),
        }
    }
    CHAN.with(|c| *c.borrow_mut() = None);
    phase.store(PHASE_EXITED, Ordering::SeqCst);
    let _ = done.send(json!({"exited": true}));
}

/// Seconds a single step / observation / shutdown of a model thread may take before the
/// watchdog declares it stuck (legitimate steps take microseconds).
pub fn step_timeout() -> Duration {
    static T: std::sync::OnceLock<u64> = std::sync::OnceLock::new();
    Duration::from_secs(*T.get_or_init(|| {
        std::env::var("VERIF_STEP_TIMEOUT").ok().and_then(|s| s.parse().ok()).unwrap_or(20)
    }))
}

/// The engine's own bookkeeping got stuck (a reply or a wake-up was lost while the model thread
/// sits in its wait for a command).  Never a verdict: repeated once; if it repeats it is a bug of
/// the engine (exit 2 with the program), if not it is noise of the platform.
pub const ENGINE_STALL: &str = "engine-stall";

pub struct Outcome {
    pub mismatch: Option<Value>,
    pub steps_run: u64,
    /// things a judge wants reported without ending the case (deviations that are classified
    /// separately by the check, e.g. an open known finding); each must carry "what"
    pub notes: Vec<Value>,
}

/// Run one case on fresh OS threads.  `judge(step index, step, reply, observations)` returns a
/// description of the first disagreement with the prediction, if any.
pub fn run_case<M: Machine>(
    m: &'static M,
    nthreads: usize,
    steps: &[Value],
    mut judge: impl FnMut(usize, &Value, &Value, &[Value]) -> Option<Value>,
) -> Outcome {
    let mut txs = Vec::new();
    let mut rxs = Vec::new();
    let mut handles = Vec::new();
    let mut phases = Vec::new();
    for i in 0..nthreads {
        let (ctx, crx) = channel::<Cmd>();
        let (rtx, rrx) = channel::<Value>();
        let phase = Arc::new(AtomicU8::new(PHASE_BUSY));
        let ph = phase.clone();
        let h = std::thread::Builder::new()
            .name(format!("model-{}", i + 1))
            .stack_size(1 << 20)
            .spawn(move || thread_main(m, crx, rtx, ph))
            .unwrap_or_else(|e| tool_error(&format!("spawn: {e}")));
        txs.push(ctx);
        rxs.push(rrx);
        handles.push(h);
        phases.push(phase);
    }
    let limit = step_timeout();
    // Watchdog: a reply that does not arrive.  If the thread sits in the engine's own wait for
    // a command, the engine lost a reply: that is a tool error (exit 2, case printed).  If it
    // is executing, the code that is being driven hangs: that is data.
    let wait = |u: usize, what: &str, at: usize| -> Value {
        match rxs[u].recv_timeout(limit) {
            Ok(v) => v,
            Err(RecvTimeoutError::Timeout) => {
                if phases[u].load(Ordering::SeqCst) == PHASE_WAITING {
                    json!({"stall": format!("model thread {} waits for a command but the answer to the {what} at step {at} never arrived", u + 1)})
                } else {
                    json!({"hang": true})
                }
            }
            Err(RecvTimeoutError::Disconnected) => json!({"tool_error": "model thread died"}),
        }
    };
    let mut out = Outcome { mismatch: None, steps_run: 0, notes: Vec::new() };
    let mut hung: Vec<bool> = vec![false; nthreads];
    'steps: for (i, step) in steps.iter().enumerate() {
        let t = step["t"].as_u64().unwrap_or(0) as usize;
        if t == 0 || t > nthreads {
            tool_error(&format!("step without thread: {step}"));
        }
        let _ = txs[t - 1].send(Cmd::Step(step.clone()));
        let rep = wait(t - 1, "step", i);
        if let Some(e) = rep.get("tool_error") {
            tool_error(&format!("{e} at step {i} of {}", json!(steps)));
        }
        out.steps_run += 1;
        if let Some(st) = rep.get("stall") {
            out.mismatch = Some(json!({"step": i, "what": ENGINE_STALL, "detail": st}));
            hung[t - 1] = true;
            break;
        }
        if rep.get("hang").is_some() {
            out.mismatch = Some(json!({"step": i, "what": "hang: a step of the program never finished in the code under test",
                "detail": {"thread": t, "limit_s": limit.as_secs()}}));
            hung[t - 1] = true;
            break;
        }
        let mut obs = Vec::with_capacity(nthreads);
        for u in 0..nthreads {
            let _ = txs[u].send(if u == t - 1 { Cmd::ObserveActing(step.clone()) } else { Cmd::Observe });
            let o = wait(u, "observation", i);
            if let Some(e) = o.get("tool_error") {
                tool_error(&format!("{e} (observation of thread {}) at step {i} of {}", u + 1, json!(steps)));
            }
            if let Some(st) = o.get("stall") {
                out.mismatch = Some(json!({"step": i, "what": ENGINE_STALL, "detail": st}));
                hung[u] = true;
                break 'steps;
            }
            if o.get("hang").is_some() {
                out.mismatch = Some(json!({"step": i, "what": "hang: observing the ambient state never finished in the code under test",
                    "detail": {"thread": u + 1, "limit_s": limit.as_secs()}}));
                hung[u] = true;
                break 'steps;
            }
            obs.push(o);
        }
        if let Some(mut mm) = judge(i, step, &rep, &obs) {
            mm["step"] = json!(i);
            out.mismatch = Some(mm);
            break;
        }
    }
    for tx in &txs {
        let _ = tx.send(Cmd::Quit);
    }
    drop(txs);
    // Shutdown, bounded as well: every thread announces its exit; one that does not (it is
    // unwinding the frames it still has entered - code under test) is abandoned, not joined.
    for (u, h) in handles.into_iter().enumerate() {
        if hung[u] {
            continue;       // abandoned: it never came back from a step
        }
        let deadline = std::time::Instant::now() + limit;
        let mut exited = false;
        loop {
            let left = deadline.saturating_duration_since(std::time::Instant::now());
            match rxs[u].recv_timeout(left) {
                Ok(v) if v.get("exited").is_some() => {
                    exited = true;
                    break;
                }
                Ok(_) => continue,          // stray reply of an abandoned observation
                Err(RecvTimeoutError::Disconnected) => {
                    exited = phases[u].load(Ordering::SeqCst) == PHASE_EXITED;
                    break;
                }
                Err(RecvTimeoutError::Timeout) => break,
            }
        }
        if exited {
            // thread-local destructors still run after the announcement: bounded wait
            let t0 = std::time::Instant::now();
            let mut spins = 0u32;
            while !h.is_finished() && t0.elapsed() < limit {
                spins += 1;
                if spins < 200 { std::thread::yield_now() } else { std::thread::sleep(Duration::from_micros(100)) }
            }
            if h.is_finished() {
                let _ = h.join();
            }
        } else if phases[u].load(Ordering::SeqCst) == PHASE_WAITING {
            if out.mismatch.is_none() {
                out.mismatch = Some(json!({"step": steps.len().saturating_sub(1), "what": ENGINE_STALL,
                    "detail": format!("model thread {} still waits for a command after Quit", u + 1)}));
            }
        } else if out.mismatch.is_none() {
            out.mismatch = Some(json!({"step": steps.len().saturating_sub(1),
                "what": "hang: leaving the frames still entered at the end of the program never finished in the code under test",
                "detail": {"thread": u + 1, "limit_s": limit.as_secs()}}));
        }
    }
    out
}

/// Poll a boxed future once with a no-op waker.
pub fn poll_once<T>(fut: &mut Pin<Box<dyn Future<Output = T> + Send>>) -> Poll<T> {
    let mut cx = Context::from_waker(Waker::noop());
    fut.as_mut().poll(&mut cx)
}

/// Run `f`; give back its panic instead of unwinding.
pub fn catching<R>(f: impl FnOnce() -> R) -> Result<R, Panicked> {
    catch_unwind(AssertUnwindSafe(f))
}

pub fn rethrow<R>(r: Result<R, Panicked>) -> R {
    match r {
        Ok(v) => v,
        Err(p) => resume_unwind(p),
    }
}

/// The hand-written future every task wraps: each poll runs a nested command loop until the
/// program says `yield` (Pending) or `complete` (Ready).
pub struct ScriptFuture<M: Machine> {
    pub m: &'static M,
}

impl<M: Machine> Future for ScriptFuture<M> {
    type Output = Leave;
    fn poll(self: Pin<&mut Self>, _: &mut Context<'_>) -> Poll<Leave> {
        // the `poll` step (which may have begun a span and entered a frame) is done
        reply_ok();
        match run_loop(self.m) {
            l @ Leave::Yield(_) => {
                // stash the step for the poller; Pending carries no value
                YIELDED.with(|y| *y.borrow_mut() = Some(l));
                Poll::Pending
            }
            l @ (Leave::Complete(_) | Leave::Quit) => Poll::Ready(l),
            Leave::Exit(s) => {
                reply(json!({"tool_error": format!("exit inside a poll segment: {s}")}));
                Poll::Ready(Leave::Quit)
            }
        }
    }
}

thread_local! {
    static YIELDED: RefCell<Option<Leave>> = const { RefCell::new(None) };
}

/// What the innermost `ScriptFuture` on this thread said when it returned `Pending`.
pub fn take_yield() -> Option<Leave> {
    YIELDED.with(|y| y.borrow_mut().take())
}

/// Shard ndjson cases over `workers` driver threads; `mk` builds one machine + judge state per
/// worker and `run(worker state, case number, case) -> Outcome` runs a case.
fn drive_shard<S: Send + 'static>(
    path: &str,
    shard: (usize, usize),
    workers: usize,
    mk: impl Fn(usize) -> S + Send + Sync + 'static,
    run: impl Fn(&mut S, usize, &Value) -> Outcome + Send + Sync + 'static,
) -> Report {
    // cases are streamed: the files reach hundreds of megabytes
    let file = std::fs::File::open(path).unwrap_or_else(|e| tool_error(&format!("open {path}: {e}")));
    let lines = {
        use std::io::BufRead;
        std::io::BufReader::with_capacity(1 << 20, file)
            .lines()
            .enumerate()
            .filter(move |(i, _)| i % shard.1 == shard.0)
    };
    let lines = std::sync::Arc::new(std::sync::Mutex::new(lines));
    // what every driver worker is running right now, for the overall watchdog
    let nworkers = workers.max(1);
    let inflight: Arc<Vec<std::sync::Mutex<Option<(usize, std::time::Instant, String)>>>> =
        Arc::new((0..nworkers).map(|_| std::sync::Mutex::new(None)).collect());
    let finished = Arc::new(std::sync::atomic::AtomicBool::new(false));
    {
        // Overall watchdog: the harness never outlives VERIF_HARNESS_LIMIT seconds.  Running out
        // of time is a failure of the machinery (exit 2) and says which programs were running.
        let (inflight, finished) = (inflight.clone(), finished.clone());
        let limit = harness_limit();
        std::thread::spawn(move || {
            let t0 = std::time::Instant::now();
            while t0.elapsed() < Duration::from_secs(limit) {
                std::thread::sleep(Duration::from_millis(200));
                if finished.load(Ordering::SeqCst) {
                    return;
                }
            }
            let mut msg = format!("harness exceeded its overall limit of {limit} s; programs in flight:");
            for (w, slot) in inflight.iter().enumerate() {
                if let Ok(g) = slot.try_lock() {
                    if let Some((no, since, line)) = g.as_ref() {
                        msg.push_str(&format!("\n  worker {w}: case {no} running for {:.1} s: {}", since.elapsed().as_secs_f64(),
                            &line[..line.len().min(1500)]));
                    }
                }
            }
            tool_error(&msg);
        });
    }
    let cpus = allowed_cpus();
    let stop = Arc::new(std::sync::atomic::AtomicBool::new(false));
    let confirmed = Arc::new(std::sync::atomic::AtomicUsize::new(0));
    let flaky = Arc::new(std::sync::atomic::AtomicUsize::new(0));
    let mk = std::sync::Arc::new(mk);
    let run = std::sync::Arc::new(run);
    let mut hs = Vec::new();
    for w in 0..workers.max(1) {
        let (lines, mk, run, inflight) = (lines.clone(), mk.clone(), run.clone(), inflight.clone());
        let (stop, confirmed, flaky) = (stop.clone(), confirmed.clone(), flaky.clone());
        let cpu = if cpus.is_empty() { None } else { Some(cpus[(shard.0 + w * shard.1) % cpus.len()]) };
        hs.push(std::thread::spawn(move || {
            // A case is strictly sequential (one thread runs at a time): keeping the worker and
            // the model threads it spawns (they inherit the mask) on one core avoids cross-core
            // wake-ups, which dominate the run time otherwise.
            if let Some(cpu) = cpu {
                pin_to(cpu);
            }
            let mut st = mk(w);
            let mut rep = Report::new();
            loop {
                let next = lines.lock().unwrap().next();
                let (no, line) = match next {
                    None => break,
                    Some((i, Ok(l))) => (i + 1, l),
                    Some((i, Err(e))) => tool_error(&format!("read case {}: {e}", i + 1)),
                };
                if line.trim().is_empty() {
                    continue;
                }
                let (no, line) = (&no, &line);
                let case: Value = serde_json::from_str(line)
                    .unwrap_or_else(|e| tool_error(&format!("case {no}: bad json: {e}")));
                // a stored replay names the case number it had (the harness derives the
                // representation choices the specification does not distinguish from it)
                let no = case.get("no").and_then(|n| n.as_u64()).map(|n| n as usize).unwrap_or(*no);
                if stop.load(Ordering::SeqCst) {
                    break;      // reproducible hangs were found: enough witnesses, do not wait for more
                }
                *inflight[w].lock().unwrap() = Some((no, std::time::Instant::now(), line.clone()));
                let mut o = run(&mut st, no, &case);
                if is_stall(&o) {
                    st = mk(w);
                    let again = run(&mut st, no, &case);
                    if is_stall(&again) {
                        tool_error(&format!("engine stalled twice on the same program ({}): case {no}: {}",
                            again.mismatch.as_ref().map(|m| m["detail"].to_string()).unwrap_or_default(), line));
                    }
                    flaky.fetch_add(1, Ordering::SeqCst);
                    eprintln!("note: case {no}: the engine stalled once and ran normally when repeated (platform noise)");
                    o = again;
                }
                if is_hang(&o) {
                    // A hang of the code under test is reproducible (the programs are sequential and
                    // deterministic).  Run the program once more on a fresh machine (the abandoned
                    // thread may hold pieces of the old one); a hang that does not repeat is noise of
                    // the platform (counted, never a verdict).
                    st = mk(w);
                    let again = run(&mut st, no, &case);
                    if is_hang(&again) {
                        if confirmed.fetch_add(1, Ordering::SeqCst) + 1 >= 2 {
                            stop.store(true, Ordering::SeqCst);
                        }
                    } else {
                        flaky.fetch_add(1, Ordering::SeqCst);
                        eprintln!("note: case {no} hung once and ran normally when repeated (platform noise)");
                    }
                    o = again;
                }
                *inflight[w].lock().unwrap() = None;
                rep.cases += 1;
                rep.checks += o.steps_run;
                if !o.notes.is_empty() {
                    let total = rep.extra.get("notes_total").and_then(|v| v.as_u64()).unwrap_or(0) + o.notes.len() as u64;
                    rep.extra.insert("notes_total".into(), json!(total));
                    let list = rep.extra.entry("notes".to_string()).or_insert_with(|| json!([]));
                    if let Some(a) = list.as_array_mut() {
                        for n in o.notes.iter() {
                            // keep a few per distinct "what"
                            let w = n["what"].as_str().unwrap_or("");
                            if a.iter().filter(|x| x["what"].as_str() == Some(w)).count() < 3 {
                                a.push(json!({"what": w, "note": n, "case": case, "no": no}));
                            }
                        }
                    }
                }
                if let Some(mut mm) = o.mismatch {
                    mm["no"] = json!(no);
                    let what = mm["what"].as_str().unwrap_or("mismatch").to_string();
                    rep.mismatch(&what, &case, mm);
                }
            }
            rep
        }));
    }
    let mut total = Report::new();
    let results: Vec<Report> = hs
        .into_iter()
        .map(|h| h.join().unwrap_or_else(|_| tool_error("driver worker panicked")))
        .collect();
    finished.store(true, Ordering::SeqCst);
    total.extra.insert("flaky_hangs".into(), json!(flaky.load(Ordering::SeqCst)));
    total.extra.insert("stopped_early".into(), json!(stop.load(Ordering::SeqCst)));
    let (mut notes, mut notes_total) = (Vec::new(), 0u64);
    for r in results {
        notes_total += r.extra.get("notes_total").and_then(|v| v.as_u64()).unwrap_or(0);
        notes.extend(r.extra.get("notes").and_then(|v| v.as_array()).cloned().unwrap_or_default());
        total.cases += r.cases;
        total.checks += r.checks;
        total.total_mismatches += r.total_mismatches;
        for m in r.mismatches {
            if total.mismatches.len() < total.max_mismatches {
                total.mismatches.push(m);
            }
        }
    }
    total.extra.insert("notes_total".into(), json!(notes_total));
    total.extra.insert("notes".into(), json!(notes));
    total
}

/// CPUs this process may run on.
/// Run all cases of an ndjson file: `procs` forked processes (VERIF_WORKERS), each taking every
/// procs-th case with one driver thread pinned to one core.
///
/// Why processes and pinning (measured, 20 000 two-thread programs): a case is strictly sequential
/// hand-offs between the driver and its model threads.  On one core that costs ~140 us per case;
/// spread over cores every hand-off is a cross-CPU wake-up (an IPI, in a VM a VM exit, much worse
/// when the other vCPUs are idle) and the same work took 8-22 s instead of 2.9 s; and creating the
/// per-case OS threads from several driver threads of ONE process serialises on the process's
/// memory-map lock (8 threads: 5.0 s, 2 threads: 2.2 s).  Separate address spaces avoid both.
pub fn drive<S: Send + 'static>(
    path: &str,
    procs: usize,
    mk: impl Fn(usize) -> S + Send + Sync + 'static,
    run: impl Fn(&mut S, usize, &Value) -> Outcome + Send + Sync + 'static,
) -> Report {
    let procs = procs.max(1);
    if procs == 1 {
        return drive_shard(path, (0, 1), 1, mk, run);
    }
    let limit = harness_limit();
    let me = std::process::id();
    let part = move |i: usize| format!("{path}.{me}.part{i}.json");
    let mut pids: Vec<libc::pid_t> = Vec::new();
    for i in 0..procs {
        // no threads exist yet in this process: fork is safe
        let pid = unsafe { libc::fork() };
        if pid < 0 {
            for p in &pids {
                unsafe { libc::kill(*p, libc::SIGKILL) };
            }
            tool_error("fork failed");
        }
        if pid == 0 {
            // a shard never outlives the harness process
            unsafe { libc::prctl(libc::PR_SET_PDEATHSIG, libc::SIGKILL as libc::c_ulong) };
            let rep = drive_shard(path, (i, procs), 1, mk, run);
            rep.write(&part(i));
            std::process::exit(0);
        }
        pids.push(pid);
    }
    // wait for the shards, bounded
    let t0 = std::time::Instant::now();
    let mut left: Vec<(usize, libc::pid_t)> = pids.iter().cloned().enumerate().collect();
    let mut failed: Option<String> = None;
    while !left.is_empty() && failed.is_none() {
        let mut still = Vec::new();
        for (i, pid) in left {
            let mut status: libc::c_int = 0;
            let r = unsafe { libc::waitpid(pid, &mut status, libc::WNOHANG) };
            if r == 0 {
                still.push((i, pid));
            } else if r < 0 {
                failed = Some(format!("waitpid for shard {i} failed"));
            } else if libc::WIFEXITED(status) {
                if libc::WEXITSTATUS(status) != 0 {
                    failed = Some(format!("shard {i} failed with exit code {} (its message is above)", libc::WEXITSTATUS(status)));
                }
            } else if libc::WIFSIGNALED(status) {
                failed = Some(format!("shard {i} was killed by signal {} (crash of the process running the code under test; cases {i} mod {procs} of {path})", libc::WTERMSIG(status)));
            }
        }
        left = still;
        if t0.elapsed() > Duration::from_secs(limit + 15) {
            failed = Some(format!("shards {:?} did not finish within {} s", left.iter().map(|x| x.0).collect::<Vec<_>>(), limit + 15));
        }
        if !left.is_empty() && failed.is_none() {
            std::thread::sleep(Duration::from_millis(20));
        }
    }
    if let Some(msg) = failed {
        for (_, pid) in &left {
            unsafe { libc::kill(*pid, libc::SIGKILL) };
        }
        for i in 0..procs {
            let _ = std::fs::remove_file(part(i));
        }
        tool_error(&msg);
    }
    let mut total = Report::new();
    let (mut flaky, mut stopped) = (0u64, false);
    let (mut pnotes, mut pnotes_total): (Vec<Value>, u64) = (Vec::new(), 0);
    for i in 0..procs {
        let text = std::fs::read_to_string(part(i)).unwrap_or_else(|e| tool_error(&format!("shard {i} left no report: {e}")));
        let v: Value = serde_json::from_str(&text).unwrap_or_else(|e| tool_error(&format!("shard {i} report: {e}")));
        let _ = std::fs::remove_file(part(i));
        total.cases += v["cases"].as_u64().unwrap_or(0);
        total.checks += v["checks"].as_u64().unwrap_or(0);
        total.total_mismatches += v["total_mismatches"].as_u64().unwrap_or(0);
        flaky += v["extra"]["flaky_hangs"].as_u64().unwrap_or(0);
        pnotes_total += v["extra"]["notes_total"].as_u64().unwrap_or(0);
        for n in v["extra"]["notes"].as_array().cloned().unwrap_or_default() {
            let w = n["what"].as_str().unwrap_or("").to_string();
            if pnotes.iter().filter(|x: &&Value| x["what"].as_str() == Some(w.as_str())).count() < 3 {
                pnotes.push(n);
            }
        }
        stopped |= v["extra"]["stopped_early"].as_bool().unwrap_or(false);
        for m in v["mismatches"].as_array().cloned().unwrap_or_default() {
            if total.mismatches.len() < total.max_mismatches {
                total.mismatches.push(m);
            }
        }
    }
    total.extra.insert("flaky_hangs".into(), json!(flaky));
    total.extra.insert("stopped_early".into(), json!(stopped));
    total.extra.insert("processes".into(), json!(procs));
    total.extra.insert("notes_total".into(), json!(pnotes_total));
    total.extra.insert("notes".into(), json!(pnotes));
    total
}

fn harness_limit() -> u64 {
    std::env::var("VERIF_HARNESS_LIMIT").ok().and_then(|s| s.parse::<u64>().ok()).unwrap_or(600)
}

fn is_hang(o: &Outcome) -> bool {
    o.mismatch.as_ref().and_then(|m| m["what"].as_str()).map_or(false, |w| w.starts_with("hang"))
}

fn is_stall(o: &Outcome) -> bool {
    o.mismatch.as_ref().and_then(|m| m["what"].as_str()) == Some(ENGINE_STALL)
}

fn allowed_cpus() -> Vec<usize> {
    if std::env::var("VERIF_NO_PIN").is_ok() {
        return Vec::new();
    }
    unsafe {
        let mut set: libc::cpu_set_t = std::mem::zeroed();
        if libc::sched_getaffinity(0, std::mem::size_of::<libc::cpu_set_t>(), &mut set) != 0 {
            return Vec::new();
        }
        (0..libc::CPU_SETSIZE as usize).filter(|c| libc::CPU_ISSET(*c, &set)).collect()
    }
}

fn pin_to(cpu: usize) {
    unsafe {
        let mut set: libc::cpu_set_t = std::mem::zeroed();
        libc::CPU_SET(cpu, &mut set);
        let _ = libc::sched_setaffinity(0, std::mem::size_of::<libc::cpu_set_t>(), &set);
    }
}

pub fn workers_from_env() -> usize {
    std::env::var("VERIF_WORKERS").ok().and_then(|s| s.parse().ok()).unwrap_or(8)
}
