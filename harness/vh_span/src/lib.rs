//! harness crate vh_span
