//! Shared engine of the C03 / C04 / C18 conformance harnesses.
//!
//! A *case* is a program printed by TLC: a sequence of steps, each naming the model thread
//! that performs it and carrying the observation the specification predicts after it.
//! Every model thread is a dedicated OS thread (fresh per case: the state under test is
//! thread-local) that sits in a command loop.  Entering a frame, polling a task or running a
//! span body *nests* another command loop inside the real `Frame::call` / `EnterGuard` /
//! `FrameFuture::poll` / macro-generated span body, so the nesting of the program is the real
//! nesting of the Rust call stack, and a scripted panic is a real `panic!` unwinding through
//! the real guards.  The driver sends one step at a time, waits for its completion and then
//! asks every thread what it observes.
use std::cell::RefCell;
use std::future::Future;
use std::panic::{catch_unwind, resume_unwind, AssertUnwindSafe};
use std::pin::Pin;
use std::sync::mpsc::{channel, Receiver, RecvTimeoutError, Sender};
use std::task::{Context, Poll, Waker};
use std::time::Duration;

pub use vh_common::*;

pub mod world;

pub enum Cmd {
    Step(Value),
    Observe,
    Quit,
}

/// Why a nested command loop returned.
#[derive(Debug)]
pub enum Leave {
    /// `exit` / `end`: leave the innermost synchronous frame (the step is passed along)
    Exit(Value),
    /// the hand-written future returns `Pending`
    Yield(Value),
    /// the hand-written future returns `Ready`
    Complete(Value),
    /// the case is over: unwind everything quietly
    Quit,
}

pub type Panicked = Box<dyn std::any::Any + Send + 'static>;

pub trait Machine: Sync + 'static {
    /// Perform one step on the calling model thread.  Must send exactly one reply for the
    /// step (before nesting `run_loop`, if it nests) and, when it nested a loop that was left
    /// by a step, exactly one reply for that leaving step after cleaning up.
    /// Returns `Some(Leave::Quit)` when a nested loop was left because the case is over.
    fn exec(&'static self, step: &Value) -> Option<Leave>;
    /// What the calling model thread observes right now.
    fn observe(&'static self) -> Value;
}

thread_local! {
    static CHAN: RefCell<Option<(Receiver<Cmd>, Sender<Value>)>> = const { RefCell::new(None) };
}

pub fn reply(v: Value) {
    CHAN.with(|c| {
        let c = c.borrow();
        let _ = c.as_ref().expect("not a model thread").1.send(v);
    })
}

pub fn reply_ok() {
    reply(json!({"ok": true}))
}

fn recv() -> Cmd {
    CHAN.with(|c| {
        let c = c.borrow();
        c.as_ref().expect("not a model thread").0.recv().unwrap_or(Cmd::Quit)
    })
}

pub const SCRIPTED_PANIC: &str = "scripted panic";

/// The command loop.  Nested by `Machine::exec` implementations.
pub fn run_loop<M: Machine>(m: &'static M) -> Leave {
    loop {
        match recv() {
            Cmd::Quit => return Leave::Quit,
            Cmd::Observe => {
                let o = m.observe();
                reply(o)
            }
            Cmd::Step(step) => {
                let op = step["op"].as_str().unwrap_or("").to_string();
                match op.as_str() {
                    "exit" | "end" => return Leave::Exit(step),
                    "yield" => return Leave::Yield(step),
                    "complete" => return Leave::Complete(step),
                    "panic" => panic!("{}", SCRIPTED_PANIC),
                    _ => {
                        if let Some(Leave::Quit) = m.exec(&step) {
                            return Leave::Quit;
                        }
                    }
                }
            }
        }
    }
}

fn panic_text(e: &Panicked) -> String {
    if let Some(s) = e.downcast_ref::<&str>() {
        s.to_string()
    } else if let Some(s) = e.downcast_ref::<String>() {
        s.clone()
    } else {
        "panic".to_string()
    }
}

fn thread_main<M: Machine>(m: &'static M, rx: Receiver<Cmd>, tx: Sender<Value>) {
    CHAN.with(|c| *c.borrow_mut() = Some((rx, tx)));
    loop {
        match catch_unwind(AssertUnwindSafe(|| run_loop(m))) {
            Ok(Leave::Quit) => break,
            Ok(other) => {
                // a leaving step at top level: the program is not well nested (spec bug)
                reply(json!({"tool_error": format!("leave at top level: {other:?}")}));
            }
            Err(p) => reply(json!({"panicked": panic_text(&p)})),
        }
    }
    CHAN.with(|c| *c.borrow_mut() = None);
}

pub struct Outcome {
    pub mismatch: Option<Value>,
    pub steps_run: u64,
}

/// Run one case on fresh OS threads.  `judge(step index, step, reply, observations)` returns a
/// description of the first disagreement with the prediction, if any.
pub fn run_case<M: Machine>(
    m: &'static M,
    nthreads: usize,
    steps: &[Value],
    mut judge: impl FnMut(usize, &Value, &Value, &[Value]) -> Option<Value>,
) -> Outcome {
    let mut txs = Vec::new();
    let mut rxs = Vec::new();
    let mut handles = Vec::new();
    for i in 0..nthreads {
        let (ctx, crx) = channel::<Cmd>();
        let (rtx, rrx) = channel::<Value>();
        let h = std::thread::Builder::new()
            .name(format!("model-{}", i + 1))
            .stack_size(1 << 20)
            .spawn(move || thread_main(m, crx, rtx))
            .unwrap_or_else(|e| tool_error(&format!("spawn: {e}")));
        txs.push(ctx);
        rxs.push(rrx);
        handles.push(h);
    }
    let wait = |rx: &Receiver<Value>| -> Value {
        match rx.recv_timeout(Duration::from_secs(30)) {
            Ok(v) => v,
            Err(RecvTimeoutError::Timeout) => json!({"hang": true}),
            Err(RecvTimeoutError::Disconnected) => json!({"tool_error": "model thread died"}),
        }
    };
    let mut out = Outcome { mismatch: None, steps_run: 0 };
    let mut hung = false;
    for (i, step) in steps.iter().enumerate() {
        let t = step["t"].as_u64().unwrap_or(0) as usize;
        if t == 0 || t > nthreads {
            tool_error(&format!("step without thread: {step}"));
        }
        let _ = txs[t - 1].send(Cmd::Step(step.clone()));
        let rep = wait(&rxs[t - 1]);
        if let Some(e) = rep.get("tool_error") {
            tool_error(&format!("{e} at step {i} of {}", json!(steps)));
        }
        out.steps_run += 1;
        if rep.get("hang").is_some() {
            out.mismatch = Some(json!({"step": i, "what": "hang", "detail": "no reply within 30 s"}));
            hung = true;
            break;
        }
        let mut obs = Vec::with_capacity(nthreads);
        for u in 0..nthreads {
            let _ = txs[u].send(Cmd::Observe);
            let o = wait(&rxs[u]);
            if o.get("hang").is_some() {
                hung = true;
            }
            obs.push(o);
        }
        if let Some(mut mm) = judge(i, step, &rep, &obs) {
            mm["step"] = json!(i);
            out.mismatch = Some(mm);
            break;
        }
        if hung {
            out.mismatch = Some(json!({"step": i, "what": "hang", "detail": "observation hung"}));
            break;
        }
    }
    for tx in &txs {
        let _ = tx.send(Cmd::Quit);
    }
    drop(txs);
    if !hung {
        for h in handles {
            let _ = h.join();
        }
    }
    out
}

/// Poll a boxed future once with a no-op waker.
pub fn poll_once<T>(fut: &mut Pin<Box<dyn Future<Output = T> + Send>>) -> Poll<T> {
    let mut cx = Context::from_waker(Waker::noop());
    fut.as_mut().poll(&mut cx)
}

/// Run `f`; give back its panic instead of unwinding.
pub fn catching<R>(f: impl FnOnce() -> R) -> Result<R, Panicked> {
    catch_unwind(AssertUnwindSafe(f))
}

pub fn rethrow<R>(r: Result<R, Panicked>) -> R {
    match r {
        Ok(v) => v,
        Err(p) => resume_unwind(p),
    }
}

/// The hand-written future every task wraps: each poll runs a nested command loop until the
/// program says `yield` (Pending) or `complete` (Ready).
pub struct ScriptFuture<M: Machine> {
    pub m: &'static M,
}

impl<M: Machine> Future for ScriptFuture<M> {
    type Output = Leave;
    fn poll(self: Pin<&mut Self>, _: &mut Context<'_>) -> Poll<Leave> {
        // the `poll` step (which may have begun a span and entered a frame) is done
        reply_ok();
        match run_loop(self.m) {
            l @ Leave::Yield(_) => {
                // stash the step for the poller; Pending carries no value
                YIELDED.with(|y| *y.borrow_mut() = Some(l));
                Poll::Pending
            }
            l @ (Leave::Complete(_) | Leave::Quit) => Poll::Ready(l),
            Leave::Exit(s) => {
                reply(json!({"tool_error": format!("exit inside a poll segment: {s}")}));
                Poll::Ready(Leave::Quit)
            }
        }
    }
}

thread_local! {
    static YIELDED: RefCell<Option<Leave>> = const { RefCell::new(None) };
}

/// What the innermost `ScriptFuture` on this thread said when it returned `Pending`.
pub fn take_yield() -> Option<Leave> {
    YIELDED.with(|y| y.borrow_mut().take())
}

/// Shard ndjson cases over `workers` driver threads; `mk` builds one machine + judge state per
/// worker and `run(worker state, case number, case) -> Outcome` runs a case.
pub fn drive<S: Send + 'static>(
    path: &str,
    workers: usize,
    mk: impl Fn(usize) -> S + Send + Sync + 'static,
    run: impl Fn(&mut S, usize, &Value) -> Outcome + Send + Sync + 'static,
) -> Report {
    // cases are streamed: the files reach hundreds of megabytes
    let file = std::fs::File::open(path).unwrap_or_else(|e| tool_error(&format!("open {path}: {e}")));
    let lines = {
        use std::io::BufRead;
        std::io::BufReader::with_capacity(1 << 20, file).lines().enumerate()
    };
    let lines = std::sync::Arc::new(std::sync::Mutex::new(lines));
    let mk = std::sync::Arc::new(mk);
    let run = std::sync::Arc::new(run);
    let mut hs = Vec::new();
    for w in 0..workers.max(1) {
        let (lines, mk, run) = (lines.clone(), mk.clone(), run.clone());
        hs.push(std::thread::spawn(move || {
            let mut st = mk(w);
            let mut rep = Report::new();
            loop {
                let next = lines.lock().unwrap().next();
                let (no, line) = match next {
                    None => break,
                    Some((i, Ok(l))) => (i + 1, l),
                    Some((i, Err(e))) => tool_error(&format!("read case {}: {e}", i + 1)),
                };
                if line.trim().is_empty() {
                    continue;
                }
                let (no, line) = (&no, &line);
                let case: Value = serde_json::from_str(line)
                    .unwrap_or_else(|e| tool_error(&format!("case {no}: bad json: {e}")));
                // a stored replay names the case number it had (the harness derives the
                // representation choices the specification does not distinguish from it)
                let no = case.get("no").and_then(|n| n.as_u64()).map(|n| n as usize).unwrap_or(*no);
                let o = run(&mut st, no, &case);
                rep.cases += 1;
                rep.checks += o.steps_run;
                if let Some(mut mm) = o.mismatch {
                    mm["no"] = json!(no);
                    let what = mm["what"].as_str().unwrap_or("mismatch").to_string();
                    rep.mismatch(&what, &case, mm);
                }
            }
            rep
        }));
    }
    let mut total = Report::new();
    for h in hs {
        let r = h.join().unwrap_or_else(|_| tool_error("driver worker panicked"));
        total.cases += r.cases;
        total.checks += r.checks;
        total.total_mismatches += r.total_mismatches;
        for m in r.mismatches {
            if total.mismatches.len() < total.max_mismatches {
                total.mismatches.push(m);
            }
        }
    }
    total
}

pub fn workers_from_env() -> usize {
    std::env::var("VERIF_WORKERS").ok().and_then(|s| s.parse().ok()).unwrap_or(6)
}
