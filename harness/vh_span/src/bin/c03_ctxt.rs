//! C03: replay every transition of spec/Ctxt.tla on the real `ThreadLocalCtxt` / `Frame`.
//!
//! Input (ndjson, from TLC): {"steps":[{"op":..,"t":thread,..,"exp":[[props per instance] per thread]}]}
//!   open  {f, c: instance, kind: push|root|disabled|current, props: [v per key, 0 = absent]}
//!   enter {f, form: guard|call}      exit            with {f, sees: props}
//!   spawn {f, k}   poll {k}   yield   complete       panic
//! After every step every thread reports what `with_current` shows for every context instance
//! (enumeration, `get`/`pull` per key, and the properties attached to an event emitted there);
//! all of them must equal `exp` = Visible of the specification.
//!
//! Variation that the specification does not distinguish is chosen deterministically from the
//! case number: the wrapper the context is used through (value, `&C`, `dyn ErasedCtxt` with an
//! inline frame, `dyn ErasedCtxt` with a boxed frame, `Option<C>`, `Box<C>`, `Arc<C>`), `enter` guard vs raw
//! `Ctxt::enter/exit` on `into_parts`, `call` vs `in_fn`.
use std::collections::HashMap;
use std::future::Future;
use std::ops::ControlFlow;
use std::pin::Pin;
use std::sync::atomic::{AtomicU64, Ordering};
use std::sync::Mutex;
use std::task::Poll;

use emit::platform::thread_local_ctxt::ThreadLocalCtxt;
use emit::{Ctxt, Frame, Props};
use emit_core::ctxt::ErasedCtxt;
use vh_span::*;

const KEYS: [&str; 4] = ["a", "b", "c", "d"];

type DynCtxt = dyn ErasedCtxt + Send + Sync;

/// A context whose frames are too large for `ErasedFrame`'s inline storage.
struct Padded<C>(C);
struct PaddedFrame<F>(F, #[allow(dead_code)] [u64; 4], #[allow(dead_code)] Live);

/// Counts the padded (boxed-when-erased) frames that exist: every one of them must be gone when a
/// program is over, whichever way it was disposed of (close, Drop of the erased frame, a dropped
/// future) - otherwise something leaked.
static LIVE: std::sync::atomic::AtomicI64 = std::sync::atomic::AtomicI64::new(0);
struct Live;
impl Live {
    fn new() -> Live {
        LIVE.fetch_add(1, Ordering::SeqCst);
        Live
    }
}
impl Drop for Live {
    fn drop(&mut self) {
        LIVE.fetch_sub(1, Ordering::SeqCst);
    }
}

impl<C: Ctxt> Ctxt for Padded<C> {
    type Current = C::Current;
    type Frame = PaddedFrame<C::Frame>;
    fn open_root<P: Props>(&self, props: P) -> Self::Frame {
        PaddedFrame(self.0.open_root(props), [7; 4], Live::new())
    }
    fn open_push<P: Props>(&self, props: P) -> Self::Frame {
        PaddedFrame(self.0.open_push(props), [7; 4], Live::new())
    }
    fn open_disabled<P: Props>(&self, props: P) -> Self::Frame {
        PaddedFrame(self.0.open_disabled(props), [7; 4], Live::new())
    }
    fn enter(&self, frame: &mut Self::Frame) {
        self.0.enter(&mut frame.0)
    }
    fn with_current<R, F: FnOnce(&Self::Current) -> R>(&self, with: F) -> R {
        self.0.with_current(with)
    }
    fn exit(&self, frame: &mut Self::Frame) {
        self.0.exit(&mut frame.0)
    }
    fn close(&self, frame: Self::Frame) {
        self.0.close(frame.0)
    }
}

/// What stands behind a context instance: a real ThreadLocalCtxt, or one of the two contexts
/// that store nothing (`emit::Empty` used as a `Ctxt`, `Option::<C>::None`).
#[derive(Clone, Copy, PartialEq)]
enum InstK {
    Real,
    Empty,
    NoneOpt,
    /// `emit_traceparent::TraceparentCtxt<ThreadLocalCtxt>`: a wrapper that forwards every frame
    /// operation to the wrapped context (no span ids are ever pushed here, so its own slot stays out of play)
    Tp,
}

type TpCtxt = emit_traceparent::TraceparentCtxt<ThreadLocalCtxt>;

static EMPTY: emit::Empty = emit::Empty;

struct Inst {
    k: InstK,
    tl: ThreadLocalCtxt,
    tl_ref: &'static ThreadLocalCtxt,
    erased: &'static DynCtxt,
    erased_boxed: &'static DynCtxt,
}

impl Inst {
    fn new(tl: ThreadLocalCtxt) -> Inst {
        Inst {
            k: InstK::Real,
            tl,
            tl_ref: Box::leak(Box::new(tl)),
            erased: Box::leak(Box::new(tl) as Box<DynCtxt>),
            erased_boxed: Box::leak(Box::new(Padded(tl)) as Box<DynCtxt>),
        }
    }

    /// `emit::Empty` as a context (also behind `dyn ErasedCtxt`, with an inline and a boxed frame)
    fn empty() -> Inst {
        let tl = ThreadLocalCtxt::new();      // never used
        Inst {
            k: InstK::Empty,
            tl,
            tl_ref: Box::leak(Box::new(tl)),
            erased: Box::leak(Box::new(emit::Empty) as Box<DynCtxt>),
            erased_boxed: Box::leak(Box::new(Padded(emit::Empty)) as Box<DynCtxt>),
        }
    }

    /// `TraceparentCtxt::new(ThreadLocalCtxt::new())`
    fn tp() -> Inst {
        let tl = ThreadLocalCtxt::new();
        Inst {
            k: InstK::Tp,
            tl,
            tl_ref: Box::leak(Box::new(tl)),
            erased: Box::leak(Box::new(TpCtxt::new(tl)) as Box<DynCtxt>),
            erased_boxed: Box::leak(Box::new(Padded(TpCtxt::new(tl))) as Box<DynCtxt>),
        }
    }

    /// `Option::<ThreadLocalCtxt>::None` as a context
    fn none() -> Inst {
        let tl = ThreadLocalCtxt::new();      // never used
        Inst {
            k: InstK::NoneOpt,
            tl,
            tl_ref: Box::leak(Box::new(tl)),
            erased: Box::leak(Box::new(None::<ThreadLocalCtxt>) as Box<DynCtxt>),
            erased_boxed: Box::leak(Box::new(Padded(None::<ThreadLocalCtxt>)) as Box<DynCtxt>),
        }
    }
}

enum AnyFrame {
    Plain(Frame<ThreadLocalCtxt>),
    Ref(Frame<&'static ThreadLocalCtxt>),
    Dyn(Frame<&'static DynCtxt>),
    Opt(Frame<Option<ThreadLocalCtxt>>),
    Bx(Frame<Box<ThreadLocalCtxt>>),
    Ar(Frame<std::sync::Arc<ThreadLocalCtxt>>),
    Emp(Frame<emit::Empty>),
    EmpRef(Frame<&'static emit::Empty>),
    Tp(Frame<TpCtxt>),
}

/// `on_frame!(frame, x => expr)`: the same expression for whatever context form the frame has.
macro_rules! on_frame {
    ($fr:expr, $x:ident => $e:expr) => {
        match $fr {
            AnyFrame::Plain($x) => $e,
            AnyFrame::Ref($x) => $e,
            AnyFrame::Dyn($x) => $e,
            AnyFrame::Opt($x) => $e,
            AnyFrame::Bx($x) => $e,
            AnyFrame::Ar($x) => $e,
            AnyFrame::Emp($x) => $e,
            AnyFrame::EmpRef($x) => $e,
            AnyFrame::Tp($x) => $e,
        }
    };
}

type Task = Pin<Box<dyn Future<Output = Leave> + Send>>;

struct M03 {
    /// instances that exist before the program starts (None: kind "made", constructed by a model
    /// thread during the program - see `dynamic`)
    insts: Vec<Option<Inst>>,
    dynamic: Mutex<HashMap<usize, &'static Inst>>,
    frames: Mutex<HashMap<u64, AnyFrame>>,
    tasks: Mutex<HashMap<u64, Task>>,
    salt: AtomicU64,
}

fn props_vec(v: &Value) -> Vec<(&'static str, i64)> {
    v.as_array()
        .unwrap_or_else(|| tool_error("props"))
        .iter()
        .enumerate()
        .filter_map(|(i, x)| {
            let n = x.as_i64().unwrap_or(0);
            if n != 0 { Some((KEYS[i], n)) } else { None }
        })
        .collect()
}

/// Enumerate properties into the tuple encoding of the specification; `dup` is set when a key
/// is yielded twice (the first value is kept, as consumers do).
fn read_props(p: &(impl Props + ?Sized), nkeys: usize) -> Value {
    let mut out = vec![0i64; nkeys];
    let mut extra = Vec::new();
    let mut dup = false;
    let _ = p.for_each(|k, v| {
        match KEYS.iter().position(|x| *x == k.get()) {
            Some(i) if i < nkeys => {
                if out[i] != 0 {
                    dup = true;
                } else {
                    out[i] = v.cast::<i64>().unwrap_or(-1);
                }
            }
            _ => extra.push(k.get().to_string()),
        }
        ControlFlow::Continue(())
    });
    if dup || !extra.is_empty() {
        json!({"props": out, "dup": dup, "extra": extra})
    } else {
        json!(out)
    }
}

fn get_props(p: &(impl Props + ?Sized), nkeys: usize, pull: bool) -> Value {
    let out: Vec<i64> = (0..nkeys)
        .map(|i| {
            if pull {
                p.pull::<i64, _>(KEYS[i]).unwrap_or(0)
            } else {
                p.get(KEYS[i]).and_then(|v| v.cast::<i64>()).unwrap_or(0)
            }
        })
        .collect();
    json!(out)
}

fn open_generic<C: Ctxt>(c: C, kind: &str, props: &[(&'static str, i64)]) -> Frame<C> {
    // an EMPTY property set: half of the time as `emit::Empty` itself (Frame::root(ctxt, Empty) is
    // the idiom for detaching work from the ambient context), otherwise as an empty slice
    if props.is_empty() && EMPTY_AS_TYPE.load(Ordering::Relaxed) {
        return match kind {
            "push" => Frame::push(c, emit::Empty),
            "root" => Frame::root(c, emit::Empty),
            "disabled" => Frame::disabled(c, emit::Empty),
            "current" => Frame::current(c),
            _ => tool_error("frame kind"),
        };
    }
    match kind {
        "push" => Frame::push(c, props),
        "root" => Frame::root(c, props),
        "disabled" => Frame::disabled(c, props),
        "current" => Frame::current(c),
        _ => tool_error("frame kind"),
    }
}

/// Enter through the guard (or raw `Ctxt::enter/exit`), run the nested loop, leave.
/// The frame survives; a panic in the body has unwound through the guard.
fn guard_generic<C: Ctxt>(mut fr: Frame<C>, raw: bool, body: impl FnOnce() -> Leave) -> (Frame<C>, Result<Leave, Panicked>) {
    if raw {
        let (c, mut inner) = fr.into_parts();
        c.enter(&mut inner);
        let r = catching(body);
        c.exit(&mut inner);
        (Frame::from_parts(c, inner), r)
    } else {
        let r = catching(|| {
            let _guard = fr.enter();
            body()
        });
        (fr, r)
    }
}

fn call_generic<C: Ctxt>(fr: Frame<C>, in_fn: bool, body: impl FnOnce() -> Leave) -> Leave {
    if in_fn {
        let f = fr.in_fn(body);
        f()
    } else {
        fr.call(body)
    }
}

impl M03 {
    /// `insts`: per context instance its storage id in the specification and how it is obtained
    /// ("new" | "shared" | "default" | "setup").  Instances with the same non-zero storage id are
    /// copies of one instance; everything else is constructed separately - whether two of them
    /// alias is exactly what is being checked.
    fn new(insts: &[(u64, String)]) -> M03 {
        let mut made: HashMap<u64, Inst> = HashMap::new();
        let mut out = Vec::new();
        for (store, kind) in insts {
            if *store != 0 {
                if let Some(i) = made.get(store) {
                    out.push(Some(Inst::new(i.tl)));
                    continue;
                }
            }
            if kind == "made" {
                out.push(None);
                continue;
            }
            let inst = match kind.as_str() {
                "shared" => Inst::new(ThreadLocalCtxt::shared()),
                "new" => Inst::new(ThreadLocalCtxt::new()),
                "default" => Inst::new(<ThreadLocalCtxt as Default>::default()),
                "empty" => Inst::empty(),
                "none" => Inst::none(),
                "tp" => Inst::tp(),
                "setup" => {
                    // the context of a runtime built the way applications do, in a fresh slot
                    let slot: &'static emit::runtime::AmbientSlot = Box::leak(Box::new(emit::runtime::AmbientSlot::new()));
                    let init = emit::setup().init_slot(slot);
                    let tl_ref: &'static ThreadLocalCtxt = init.ctxt();
                    let mut i = Inst::new(*tl_ref);
                    i.tl_ref = tl_ref;
                    i.erased = *slot.get().ctxt();
                    i
                }
                other => tool_error(&format!("instance kind {other}")),
            };
            if *store != 0 {
                made.insert(*store, Inst::new(inst.tl));
            }
            out.push(Some(inst));
        }
        M03 { insts: out, dynamic: Mutex::new(HashMap::new()), frames: Mutex::new(HashMap::new()), tasks: Mutex::new(HashMap::new()), salt: AtomicU64::new(0) }
    }

    /// Instance number i (0-based), if it exists yet.
    fn inst(&self, i: usize) -> Option<&Inst> {
        match &self.insts[i] {
            Some(inst) => Some(inst),
            None => self.dynamic.lock().unwrap().get(&i).copied(),
        }
    }

    fn salt(&self) -> u64 {
        self.salt.load(Ordering::Relaxed)
    }

    fn take_frame(&self, f: u64) -> AnyFrame {
        self.frames.lock().unwrap().remove(&f).unwrap_or_else(|| tool_error(&format!("frame {f} is not idle")))
    }

    fn put_frame(&self, f: u64, fr: AnyFrame) {
        self.frames.lock().unwrap().insert(f, fr);
    }

    fn nkeys(&self, step: &Value) -> usize {
        step["exp"][0][0].as_array().map(|a| a.len()).unwrap_or(2)
    }
}

static NKEYS: AtomicU64 = AtomicU64::new(2);
static EMPTY_AS_TYPE: std::sync::atomic::AtomicBool = std::sync::atomic::AtomicBool::new(false);

impl Machine for M03 {
    fn exec(&'static self, step: &Value) -> Option<Leave> {
        let op = step["op"].as_str().unwrap_or("");
        let salt = self.salt();
        match op {
            "make" => {
                // the instance is constructed here, on this model thread (a fresh OS thread per case:
                // whatever the constructor keeps per thread starts from scratch on every one of them)
                let i = step["c"].as_u64().unwrap() as usize - 1;
                let tl = if (salt + i as u64) % 2 == 0 { ThreadLocalCtxt::new() } else { <ThreadLocalCtxt as Default>::default() };
                let inst: &'static Inst = Box::leak(Box::new(Inst::new(tl)));
                if self.dynamic.lock().unwrap().insert(i, inst).is_some() || self.insts[i].is_some() {
                    tool_error("instance made twice");
                }
                reply_ok();
                None
            }
            "open" => {
                let f = step["f"].as_u64().unwrap();
                let inst = self.inst(step["c"].as_u64().unwrap() as usize - 1).unwrap_or_else(|| tool_error("frame opened on an instance that does not exist yet"));
                let kind = step["kind"].as_str().unwrap();
                let props = props_vec(&step["props"]);
                let fr = match inst.k {
                    InstK::Empty => match (salt + f) % 4 {
                        0 => AnyFrame::Emp(open_generic(emit::Empty, kind, &props)),
                        1 => AnyFrame::EmpRef(open_generic(&EMPTY, kind, &props)),
                        2 => AnyFrame::Dyn(open_generic(inst.erased, kind, &props)),
                        _ => AnyFrame::Dyn(open_generic(inst.erased_boxed, kind, &props)),
                    },
                    InstK::Tp => match (salt + f) % 3 {
                        0 => AnyFrame::Tp(open_generic(TpCtxt::new(inst.tl), kind, &props)),
                        1 => AnyFrame::Dyn(open_generic(inst.erased, kind, &props)),
                        _ => AnyFrame::Dyn(open_generic(inst.erased_boxed, kind, &props)),
                    },
                    InstK::NoneOpt => match (salt + f) % 3 {
                        0 => AnyFrame::Opt(open_generic(None::<ThreadLocalCtxt>, kind, &props)),
                        1 => AnyFrame::Dyn(open_generic(inst.erased, kind, &props)),
                        _ => AnyFrame::Dyn(open_generic(inst.erased_boxed, kind, &props)),
                    },
                    InstK::Real => match (salt + f) % 7 {
                    0 => AnyFrame::Plain(open_generic(inst.tl, kind, &props)),
                    1 => AnyFrame::Ref(open_generic(inst.tl_ref, kind, &props)),
                    2 => AnyFrame::Dyn(open_generic(inst.erased, kind, &props)),
                    3 => AnyFrame::Dyn(open_generic(inst.erased_boxed, kind, &props)),
                    4 => AnyFrame::Opt(open_generic(Some(inst.tl), kind, &props)),
                    5 => AnyFrame::Bx(open_generic(Box::new(inst.tl), kind, &props)),
                    _ => AnyFrame::Ar(open_generic(std::sync::Arc::new(inst.tl), kind, &props)),
                    },
                };
                self.put_frame(f, fr);
                reply_ok();
                None
            }
            "with" => {
                let f = step["f"].as_u64().unwrap();
                let nk = NKEYS.load(Ordering::Relaxed) as usize;
                let mut fr = self.take_frame(f);
                let sees = on_frame!(&mut fr, x => x.with(|p| read_props(p, nk)));
                // a panic inside the callback, caught on the spot, must not cost the frame anything
                let with_panic = |fr: &mut AnyFrame| {
                    let _ = catching(|| on_frame!(&mut *fr, x => x.with(|_| panic!("probe"))));
                };
                with_panic(&mut fr);
                let again = on_frame!(&mut fr, x => x.with(|p| read_props(p, nk)));
                // Frame::inner: what the idle frame object itself stores (level B's `held`; NoTrace says
                // it is the frame's own properties) - where the raw frame type can be read
                let inner = match &fr {
                    AnyFrame::Plain(x) => read_props(x.inner(), nk),
                    AnyFrame::Ref(x) => read_props(x.inner(), nk),
                    AnyFrame::Opt(x) => read_props(x.inner(), nk),
                    AnyFrame::Bx(x) => read_props(x.inner(), nk),
                    AnyFrame::Ar(x) => read_props(x.inner(), nk),
                    AnyFrame::Emp(x) => read_props(x.inner(), nk),
                    AnyFrame::EmpRef(x) => read_props(x.inner(), nk),
                    AnyFrame::Dyn(_) | AnyFrame::Tp(_) => sees.clone(),
                };
                self.put_frame(f, fr);
                reply(json!({"sees": sees, "sees_after_panic": again, "inner": inner}));
                None
            }
            "enter" => {
                let f = step["f"].as_u64().unwrap();
                let form = step["form"].as_str().unwrap();
                let fr = self.take_frame(f);
                let variant = (salt / 5 + f) % 2 == 1;
                let body = || {
                    reply_ok();
                    run_loop(self)
                };
                let leave = if form == "guard" {
                    let (fr, r) = match fr {
                        AnyFrame::Plain(x) => { let (x, r) = guard_generic(x, variant, body); (AnyFrame::Plain(x), r) }
                        AnyFrame::Ref(x) => { let (x, r) = guard_generic(x, variant, body); (AnyFrame::Ref(x), r) }
                        AnyFrame::Dyn(x) => { let (x, r) = guard_generic(x, variant, body); (AnyFrame::Dyn(x), r) }
                        AnyFrame::Opt(x) => { let (x, r) = guard_generic(x, variant, body); (AnyFrame::Opt(x), r) }
                        AnyFrame::Bx(x) => { let (x, r) = guard_generic(x, variant, body); (AnyFrame::Bx(x), r) }
                        AnyFrame::Ar(x) => { let (x, r) = guard_generic(x, variant, body); (AnyFrame::Ar(x), r) }
                        AnyFrame::Emp(x) => { let (x, r) = guard_generic(x, variant, body); (AnyFrame::Emp(x), r) }
                        AnyFrame::EmpRef(x) => { let (x, r) = guard_generic(x, variant, body); (AnyFrame::EmpRef(x), r) }
                        AnyFrame::Tp(x) => { let (x, r) = guard_generic(x, variant, body); (AnyFrame::Tp(x), r) }
                    };
                    self.put_frame(f, fr);
                    rethrow(r)
                } else {
                    on_frame!(fr, x => call_generic(x, variant, body))
                };
                match leave {
                    Leave::Exit(_) => {
                        reply_ok();
                        None
                    }
                    Leave::Quit => Some(Leave::Quit),
                    other => {
                        reply(json!({"tool_error": format!("frame left by {other:?}")}));
                        None
                    }
                }
            }
            "discard" => {
                let f = step["f"].as_u64().unwrap();
                fn dispose<C: Ctxt>(fr: Frame<C>, how: u64) {
                    match how % 3 {
                        0 => drop(fr),                       // Frame::drop -> Ctxt::close
                        1 => {
                            let (c, inner) = fr.into_parts();
                            drop(inner);                     // the raw frame's own Drop (ErasedFrame: vdrop)
                            drop(c);
                        }
                        _ => {
                            let (c, inner) = fr.into_parts();
                            c.close(inner);                  // closed by hand
                        }
                    }
                }
                let how = salt / 7 + f;
                on_frame!(self.take_frame(f), x => dispose(x, how));
                reply_ok();
                None
            }
            "droptask" => {
                let k = step["k"].as_u64().unwrap();
                let task = self.tasks.lock().unwrap().remove(&k).unwrap_or_else(|| tool_error("task is not idle"));
                drop(task);
                reply_ok();
                None
            }
            "spawn" => {
                let f = step["f"].as_u64().unwrap();
                let k = step["k"].as_u64().unwrap();
                let inner = ScriptFuture { m: self };
                let task: Task = on_frame!(self.take_frame(f), x => Box::pin(x.in_future(inner)));
                self.tasks.lock().unwrap().insert(k, task);
                reply_ok();
                None
            }
            "poll" => {
                let k = step["k"].as_u64().unwrap();
                let mut task = self.tasks.lock().unwrap().remove(&k).unwrap_or_else(|| tool_error("task is not idle"));
                // a panic inside the poll drops the task while unwinding
                match poll_once(&mut task) {
                    Poll::Pending => {
                        self.tasks.lock().unwrap().insert(k, task);
                        match take_yield() {
                            Some(Leave::Yield(_)) => reply_ok(),
                            _ => reply(json!({"tool_error": "Pending without a yield step"})),
                        }
                        None
                    }
                    Poll::Ready(Leave::Complete(_)) => {
                        drop(task);
                        reply_ok();
                        None
                    }
                    Poll::Ready(_) => Some(Leave::Quit),
                }
            }
            _ => {
                reply(json!({"tool_error": format!("unknown op {op}")}));
                None
            }
        }
    }

    fn observe(&'static self) -> Value {
        let nk = NKEYS.load(Ordering::Relaxed) as usize;
        let salt = self.salt();
        let mut out = Vec::new();
        for i in 0..self.insts.len() {
            let Some(inst) = self.inst(i) else {
                out.push(Value::Null);      // not constructed yet: nothing to look through
                continue;
            };
            if inst.k != InstK::Real {
                out.push(observe_inert(inst, salt + i as u64, nk));
                continue;
            }
            // enumeration through one wrapper, keyed lookup through another
            let en = match (salt + i as u64) % 4 {
                0 => inst.tl.with_current(|p| read_props(p, nk)),
                1 => inst.tl_ref.with_current(|p| read_props(p, nk)),
                2 => inst.erased.with_current(|p| read_props(p, nk)),
                _ => Some(inst.tl).with_current(|p| read_props(p, nk)),
            };
            let get = match (salt + i as u64) % 4 {
                0 => inst.erased_boxed.with_current(|p| get_props(p, nk, false)),
                1 => inst.tl.with_current(|p| get_props(p, nk, true)),
                2 => Some(inst.tl).with_current(|p| get_props(p, nk, false)),
                _ => inst.tl_ref.with_current(|p| get_props(p, nk, true)),
            };
            // the properties an event emitted here carries
            let seen: Mutex<Value> = Mutex::new(Value::Null);
            emit_core::emit(
                emit::emitter::from_fn(|evt| {
                    *seen.lock().unwrap() = read_props(evt.props(), nk);
                }),
                emit::Empty,
                &inst.tl,
                emit::Empty,
                emit::Event::new(emit::Path::new_raw("vh"), emit::Template::literal("obs"), emit::Empty, emit::Empty),
            );
            let evt = seen.into_inner().unwrap();
            out.push(json!({"enum": en, "get": get, "evt": evt}));
        }
        json!(out)
    }

    /// The thread that has just acted also observes from *inside* callbacks: for the instance
    /// the step was about and one more (rotating), the ambient properties are read
    ///   - nested: inside `with_current(|outer| ..)` another `with_current(|inner| ..)`, a frame
    ///     opened there (`Frame::current`, then `with`), and an event emitted there;
    ///   - after a panic raised inside a `with_current` callback and caught on the spot.
    /// All of them are program points like any other: they must show Visible.
    fn observe_acting(&'static self, step: &Value) -> Value {
        let nk = NKEYS.load(Ordering::Relaxed) as usize;
        let salt = self.salt();
        let n = self.insts.len();
        let mut which: Vec<usize> = Vec::new();
        if let Some(c) = step["c"].as_u64() {
            which.push(c as usize - 1);
        }
        which.push((salt as usize + step["f"].as_u64().unwrap_or(0) as usize) % n);
        which.dedup();
        let mut probes = Vec::new();
        for i in which {
            let Some(inst) = self.inst(i) else { continue };
            if inst.k != InstK::Real {
                probes.push(probe_inert(inst, i, salt, nk));
                continue;
            }
            let nested = inst.tl.with_current(|outer| {
                let outer_seen = read_props(outer, nk);
                let inner = match salt % 3 {
                    0 => inst.tl_ref.with_current(|p| read_props(p, nk)),
                    1 => inst.erased.with_current(|p| read_props(p, nk)),
                    _ => Some(inst.tl).with_current(|p| get_props(p, nk, true)),
                };
                let opened = Frame::current(inst.tl).with(|p| read_props(p, nk));
                let seen: Mutex<Value> = Mutex::new(Value::Null);
                emit_core::emit(
                    emit::emitter::from_fn(|evt| {
                        *seen.lock().unwrap() = read_props(evt.props(), nk);
                    }),
                    emit::Empty,
                    inst.tl_ref,
                    emit::Empty,
                    emit::Event::new(emit::Path::new_raw("vh"), emit::Template::literal("nested"), emit::Empty, emit::Empty),
                );
                json!({"outer": outer_seen, "inner": inner, "opened inside": opened, "event inside": seen.into_inner().unwrap()})
            });
            let _ = catching(|| {
                if salt % 2 == 0 {
                    inst.tl.with_current(|_| panic!("probe"))
                } else {
                    inst.erased.with_current(|_| panic!("probe"))
                }
            });
            let after = inst.tl.with_current(|p| read_props(p, nk));
            probes.push(json!({"inst": i, "nested": nested, "after a caught panic in with_current": after}));
        }
        json!({"obs": self.observe(), "probes": probes})
    }
}

/// The event emitted through context `c` and the properties it carries.
fn event_through<C: Ctxt>(c: C, nk: usize) -> Value {
    let seen: Mutex<Value> = Mutex::new(Value::Null);
    emit_core::emit(
        emit::emitter::from_fn(|evt| {
            *seen.lock().unwrap() = read_props(evt.props(), nk);
        }),
        emit::Empty,
        c,
        emit::Empty,
        emit::Event::new(emit::Path::new_raw("vh"), emit::Template::literal("obs"), emit::Empty, emit::Empty),
    );
    seen.into_inner().unwrap()
}

/// What a context that stores nothing shows (through every form it can be used in).
fn observe_inert(inst: &Inst, rot: u64, nk: usize) -> Value {
    let (en, get, evt) = match inst.k {
        InstK::Tp => (
            match rot % 2 {
                0 => TpCtxt::new(inst.tl).with_current(|p| read_props(p, nk)),
                _ => inst.erased.with_current(|p| read_props(p, nk)),
            },
            match rot % 2 {
                0 => inst.erased_boxed.with_current(|p| get_props(p, nk, false)),
                _ => TpCtxt::new(inst.tl).with_current(|p| get_props(p, nk, true)),
            },
            if rot % 2 == 0 { event_through(TpCtxt::new(inst.tl), nk) } else { event_through(inst.erased_boxed, nk) },
        ),
        InstK::Empty => (
            match rot % 3 {
                0 => emit::Empty.with_current(|p| read_props(p, nk)),
                1 => (&EMPTY).with_current(|p| read_props(p, nk)),
                _ => inst.erased.with_current(|p| read_props(p, nk)),
            },
            match rot % 2 {
                0 => inst.erased_boxed.with_current(|p| get_props(p, nk, false)),
                _ => emit::Empty.with_current(|p| get_props(p, nk, true)),
            },
            if rot % 2 == 0 { event_through(emit::Empty, nk) } else { event_through(inst.erased, nk) },
        ),
        _ => (
            match rot % 2 {
                0 => None::<ThreadLocalCtxt>.with_current(|p| read_props(p, nk)),
                _ => inst.erased.with_current(|p| read_props(p, nk)),
            },
            match rot % 2 {
                0 => inst.erased_boxed.with_current(|p| get_props(p, nk, false)),
                _ => None::<ThreadLocalCtxt>.with_current(|p| get_props(p, nk, true)),
            },
            if rot % 2 == 0 { event_through(None::<ThreadLocalCtxt>, nk) } else { event_through(inst.erased_boxed, nk) },
        ),
    };
    json!({"enum": en, "get": get, "evt": evt})
}

/// The nested / after-a-caught-panic probes of `observe_acting` for a context that stores nothing.
fn probe_inert(inst: &Inst, i: usize, salt: u64, nk: usize) -> Value {
    fn nested<C: Ctxt + Copy>(c: C, other: &'static DynCtxt, nk: usize) -> Value {
        c.with_current(|outer| {
            let outer_seen = read_props(outer, nk);
            let inner = other.with_current(|p| read_props(p, nk));
            let opened = Frame::current(c).with(|p| read_props(p, nk));
            // a detached (root, empty) frame opened and looked into here shows nothing and changes nothing
            let root = Frame::root(c, emit::Empty).with(|p| read_props(p, nk));
            let after_root = c.with_current(|p| read_props(p, nk));
            let ev = event_through(c, nk);
            if root != json!(vec![0i64; nk]) {
                return json!({"a root frame without properties, looked into inside a callback (must show nothing)": {"shows": root}});
            }
            json!({"outer": outer_seen, "inner": inner, "opened inside": opened, "after a detached root frame inside": after_root, "event inside": ev})
        })
    }
    let n = match (inst.k, salt % 2) {
        (InstK::Empty, 0) => nested(emit::Empty, inst.erased_boxed, nk),
        (InstK::NoneOpt, 0) => nested(None::<ThreadLocalCtxt>, inst.erased_boxed, nk),
        (InstK::Tp, 0) => nested(TpCtxt::new(inst.tl), inst.erased_boxed, nk),
        _ => nested(inst.erased, inst.erased_boxed, nk),
    };
    let _ = catching(|| inst.erased.with_current(|_| panic!("probe")));
    let after = inst.erased_boxed.with_current(|p| read_props(p, nk));
    json!({"inst": i, "nested": n, "after a caught panic in with_current": after})
}

fn main() {
    let args: Vec<String> = std::env::args().collect();
    if args.len() < 4 {
        tool_error("usage: c03_ctxt <cases.ndjson> <stores json> <report.json>");
    }
    let (cases, stores, out) = (args[1].clone(), args[2].clone(), args[3].clone());
    quiet_panics();
    let stores: Value = serde_json::from_str(&stores).unwrap_or_else(|e| tool_error(&format!("stores: {e}")));
    // [{"store": n, "kind": k}] (or plain storage ids: 0 = shared(), other = new())
    let stores: Vec<(u64, String)> = stores
        .as_array()
        .unwrap_or_else(|| tool_error("stores: not an array"))
        .iter()
        .map(|v| match v.as_u64() {
            Some(n) => (n, if n == 0 { "shared".to_string() } else { "new".to_string() }),
            None => (v["store"].as_u64().unwrap_or_else(|| tool_error("stores: store")), v["kind"].as_str().unwrap_or_else(|| tool_error("stores: kind")).to_string()),
        })
        .collect();
    let rep = drive(
        &cases,
        workers_from_env(),
        move |_| -> &'static M03 { Box::leak(Box::new(M03::new(&stores))) },
        |m, no, case| {
            let m: &'static M03 = *m;
            m.salt.store(no as u64, Ordering::Relaxed);
            EMPTY_AS_TYPE.store(no % 2 == 0, Ordering::Relaxed);
            m.dynamic.lock().unwrap().clear();
            m.frames.lock().unwrap().clear();
            m.tasks.lock().unwrap().clear();
            LIVE.store(0, Ordering::SeqCst);
            let steps = case["steps"].as_array().unwrap_or_else(|| tool_error("case without steps"));
            let nthreads = steps[0]["exp"].as_array().map(|a| a.len()).unwrap_or(1);
            NKEYS.store(m.nkeys(&steps[0]) as u64, Ordering::Relaxed);
            let o = run_case(m, nthreads, steps, |_, step, rep, obs| {
                let op = step["op"].as_str().unwrap_or("");
                if op == "panic" {
                    if rep["panicked"].as_str() != Some(SCRIPTED_PANIC) {
                        return Some(json!({"what": "scripted panic was not the panic that arrived", "detail": rep}));
                    }
                } else if rep.get("panicked").is_some() {
                    return Some(json!({"what": "panic in code under test", "detail": rep}));
                }
                if op == "with" && rep["sees"] != step["sees"] {
                    return Some(json!({"what": "Frame::with shows other properties than the frame's",
                        "detail": {"want": step["sees"], "got": rep["sees"]}}));
                }
                if op == "with" && rep["inner"] != step["sees"] {
                    return Some(json!({"what": "an idle frame does not store its own properties (Frame::inner)",
                        "detail": {"want": step["sees"], "got": rep["inner"]}}));
                }
                if op == "with" && rep["sees_after_panic"] != step["sees"] {
                    return Some(json!({"what": "a panic caught inside a Frame::with callback changed the frame's properties",
                        "detail": {"want": step["sees"], "got": rep["sees_after_panic"]}}));
                }
                for (t, o) in obs.iter().enumerate() {
                    if o.get("panicked").is_some() {
                        return Some(json!({"what": "panic while observing", "detail": o}));
                    }
                    let want = &step["exp"][t];
                    // the acting thread also reports probes taken from inside callbacks
                    for pr in o.get("probes").and_then(|p| p.as_array()).map(|a| a.as_slice()).unwrap_or(&[]) {
                        let i = pr["inst"].as_u64().unwrap_or(0) as usize;
                        for (k, v) in pr["nested"].as_object().into_iter().flatten() {
                            if *v != want[i] {
                                return Some(json!({"what": "ambient properties observed inside a with_current callback differ from the innermost active frame's",
                                    "detail": {"thread": t + 1, "instance": i + 1, "via": k, "want": want[i], "got": v}}));
                            }
                        }
                        let after = &pr["after a caught panic in with_current"];
                        if *after != want[i] {
                            return Some(json!({"what": "a panic caught inside a with_current callback changed the ambient properties",
                                "detail": {"thread": t + 1, "instance": i + 1, "want": want[i], "got": after}}));
                        }
                    }
                    let o = o.get("obs").unwrap_or(o);
                    for (i, io) in o.as_array().map(|a| a.as_slice()).unwrap_or(&[]).iter().enumerate() {
                        if io.is_null() {
                            // the instance does not exist yet (the specification agrees: step.made[i] = 0)
                            if step["made"][i].as_u64().unwrap_or(1) != 0 {
                                tool_error("an instance the specification says exists was not observed");
                            }
                            continue;
                        }
                        for via in ["enum", "get", "evt"] {
                            if io[via] != want[i] {
                                return Some(json!({"what": "ambient properties differ from the innermost active frame's",
                                    "detail": {"thread": t + 1, "instance": i + 1, "via": via, "want": want[i], "got": io[via]}}));
                            }
                        }
                    }
                }
                None
            });
            // frames still in the table are closed here, tasks dropped
            m.frames.lock().unwrap().clear();
            m.tasks.lock().unwrap().clear();
            let mut o = o;
            // every model thread has exited (unless one hung): no padded frame may be left
            let live = LIVE.load(Ordering::SeqCst);
            if o.mismatch.is_none() && live != 0 {
                o.mismatch = Some(json!({"step": steps.len().saturating_sub(1), "what": "a frame was leaked (it still exists after the program disposed of every frame and task)",
                    "detail": {"live_padded_frames": live}}));
            }
            if live != 0 {
                LIVE.store(0, Ordering::SeqCst);
            }
            o
        },
    );
    rep.write(&out);
}
