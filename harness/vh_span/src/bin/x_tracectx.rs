//! X04: the trace context API of emit_traceparent outside the span machinery.
//!
//!   x_tracectx ctx  <cases.ndjson> <table.json> <report.json>
//!       case = {"steps":[{"op":"push_tp"|"push_ts"|"push_both"|"current"|"enter"|"exit", "t":thread, "f":frame,
//!                         "p":{tr,sp,fl}, "s":n, "exp":[per thread {tp:{tr,sp,fl}, ts:n, valid, sampled, ids:[tr,sp]}]}]}
//!       (spec/TraceCtx.tla).  table = {"tps":[{tp, tid, sid, text}], "tss":[texts]} printed by the specification:
//!       the concrete ids of the model ids and the header text of every traceparent.
//!       Every model thread is a real OS thread (vh_span engine); entering a frame nests the
//!       command loop inside the real `EnterGuard`; frames move between threads.
//!   x_tracectx text <cases.ndjson> <report.json>
//!       the pure cases of spec/TraceText.tla (flags, flagpair, flagtext, tp, ts).
use std::collections::HashMap;
use std::sync::atomic::{AtomicU64, Ordering};
use std::sync::Mutex;

use emit::span::{SpanCtxt, SpanId, TraceId};
use emit::{Empty, Frame, Str};
use emit_traceparent::{TraceFlags, Traceparent, TraceparentCtxt, Tracestate};
use vh_span::*;

fn chars(v: &Value) -> String {
    v.as_array().unwrap_or_else(|| tool_error("text is not an array")).iter().map(|c| c.as_str().unwrap()).collect()
}

fn tid(hex: &str) -> Option<TraceId> {
    if hex.is_empty() {
        None
    } else {
        Some(TraceId::from_u128(u128::from_str_radix(hex, 16).unwrap()).unwrap_or_else(|| panic!("TraceId::from_u128 rejects a non-zero id")))
    }
}

fn sid(hex: &str) -> Option<SpanId> {
    if hex.is_empty() {
        None
    } else {
        Some(SpanId::from_u64(u64::from_str_radix(hex, 16).unwrap()).unwrap_or_else(|| panic!("SpanId::from_u64 rejects a non-zero id")))
    }
}

fn key(p: &Value) -> (u64, u64, u64) {
    (p["tr"].as_u64().unwrap(), p["sp"].as_u64().unwrap(), p["fl"].as_u64().unwrap())
}

/// the concrete side of the specification's tables
struct Table {
    tps: HashMap<(u64, u64, u64), (Traceparent, String)>,
    tss: Vec<&'static str>,
}

impl Table {
    fn load(path: &str) -> Table {
        let v: Value = serde_json::from_str(&std::fs::read_to_string(path).unwrap_or_else(|e| tool_error(&format!("{path}: {e}"))))
            .unwrap_or_else(|e| tool_error(&format!("{path}: {e}")));
        let mut tps = HashMap::new();
        for e in v["tps"].as_array().unwrap() {
            let tp = Traceparent::new(tid(&chars(&e["tid"])), sid(&chars(&e["sid"])), TraceFlags::from_u8(e["tp"]["fl"].as_u64().unwrap() as u8));
            tps.insert(key(&e["tp"]), (tp, chars(&e["text"])));
        }
        let mut tss: Vec<&'static str> = vec![""];
        for t in v["tss"].as_array().unwrap() {
            tss.push(Box::leak(t.as_str().unwrap().to_string().into_boxed_str()));
        }
        Table { tps, tss }
    }
    fn tp(&self, p: &Value) -> Traceparent {
        self.tps.get(&key(p)).unwrap_or_else(|| tool_error(&format!("traceparent {p} is not in the table"))).0
    }
}

struct M {
    table: Table,
    frames: Mutex<HashMap<u64, Frame<TraceparentCtxt>>>,
    salt: AtomicU64,
}

impl M {
    fn tracestate(&self, s: &Value, salt: u64) -> Tracestate {
        let text = self.table.tss[s.as_u64().unwrap() as usize];
        match salt % 3 {
            0 => Tracestate::new_raw(text),
            1 => Tracestate::new_owned_raw(text),
            _ => Tracestate::new_str_raw(Str::new_shared(text)),
        }
    }
}

impl Machine for M {
    fn exec(&'static self, step: &Value) -> Option<Leave> {
        let salt = self.salt.load(Ordering::Relaxed);
        let f = step["f"].as_u64().unwrap_or(0);
        let frame = match step["op"].as_str().unwrap_or("") {
            "push_tp" => {
                let tp = self.table.tp(&step["p"]);
                // as a header arrives, every other time
                let tp = if salt % 2 == 0 { tp } else { tp.to_string().parse().unwrap_or_else(|e| panic!("the text of a traceparent does not parse back: {e}")) };
                tp.push()
            }
            "push_ts" => self.tracestate(&step["s"], salt).push(),
            "push_both" => emit_traceparent::push(self.table.tp(&step["p"]), self.tracestate(&step["s"], salt)),
            "current" => Frame::current(TraceparentCtxt::new(Empty)),
            "enter" => {
                let mut frame = self.frames.lock().unwrap().remove(&f).unwrap_or_else(|| tool_error(&format!("frame {f} is not idle")));
                let r = catching(|| {
                    let _g = frame.enter();
                    reply_ok();
                    run_loop(self)
                });
                self.frames.lock().unwrap().insert(f, frame);
                return match rethrow(r) {
                    Leave::Exit(_) => {
                        reply_ok();
                        None
                    }
                    Leave::Quit => Some(Leave::Quit),
                    other => {
                        reply(json!({"tool_error": format!("frame left by {other:?}")}));
                        None
                    }
                };
            }
            op => {
                reply(json!({"tool_error": format!("unknown op {op}")}));
                return None;
            }
        };
        self.frames.lock().unwrap().insert(f, frame);
        reply_ok();
        None
    }

    fn observe(&'static self) -> Value {
        let (tp, ts) = emit_traceparent::current();
        let (tp1, ts1) = (Traceparent::current(), Tracestate::current());
        let text = tp.to_string();
        let back = Traceparent::try_from_str(&text).ok();
        // what the next service sees when it is handed the header pair
        let downstream = back.map(|b| {
            emit_traceparent::push(b, Tracestate::new_owned_raw(ts.get())).call(|| {
                let (a, b2) = emit_traceparent::current();
                a == tp && b2 == ts
            })
        });
        let c = SpanCtxt::current(TraceparentCtxt::new(Empty));
        json!({
            "tr": tp.trace_id().map(|t| t.to_string()),
            "sp": tp.span_id().map(|s| s.to_string()),
            "fl": tp.trace_flags().to_u8(),
            "valid": tp.is_valid(),
            "sampled": tp.trace_flags().is_sampled(),
            "ts": ts.get(),
            "text": text,
            "agree": tp == tp1 && ts == ts1,
            "roundtrip": back == Some(tp),
            "downstream": downstream,
            "ids": [c.trace_id().map(|t| t.to_string()), c.span_id().map(|s| s.to_string())],
            "span_parent_free": c.span_parent().is_none() || tp.trace_flags().is_sampled(),
        })
    }
}

fn judge_ctx(m: &M, step: &Value, rep: &Value, obs: &[Value]) -> Option<Value> {
    if rep.get("panicked").is_some() {
        return Some(json!({"what": "panic in code under test", "detail": rep}));
    }
    for (t, o) in obs.iter().enumerate() {
        if o.get("panicked").is_some() {
            return Some(json!({"what": "panic while observing", "detail": o}));
        }
        let e = &step["exp"][t];
        let (want_tp, want_text) = m.table.tps.get(&key(&e["tp"])).unwrap_or_else(|| tool_error("expected traceparent not in the table"));
        let want_ts = m.table.tss[e["ts"].as_u64().unwrap() as usize];
        let fail = |what: &str| Some(json!({"what": what, "detail": {"thread": t + 1, "want": e, "want_text": want_text, "want_ts": want_ts, "got": o}}));
        if o["agree"] != true {
            return fail("current() and Traceparent::current() / Tracestate::current() disagree");
        }
        let got_tp = (o["tr"].as_str().map(String::from), o["sp"].as_str().map(String::from), o["fl"].as_u64().unwrap());
        let want = (want_tp.trace_id().map(|t| t.to_string()), want_tp.span_id().map(|s| s.to_string()), want_tp.trace_flags().to_u8() as u64);
        if got_tp != want {
            return fail("the current traceparent is not that of the innermost entered frame");
        }
        if o["ts"].as_str() != Some(want_ts) {
            return fail("the current tracestate is not that of the innermost entered frame");
        }
        if o["text"].as_str() != Some(want_text.as_str()) {
            return fail("the traceparent header differs from the specified text");
        }
        if o["roundtrip"] != true || o["downstream"] != true {
            return fail("the header pair does not give the next service the same context");
        }
        if o["valid"] != e["valid"] || o["sampled"] != e["sampled"] {
            return fail("is_valid / is_sampled differ");
        }
        let ids = |i: usize, n: u64| -> Option<String> {
            if n == 0 {
                None
            } else if i == 0 {
                m.table.tps.iter().find(|(k, _)| k.0 == n).and_then(|(_, v)| v.0.trace_id().map(|t| t.to_string()))
            } else {
                m.table.tps.iter().find(|(k, _)| k.1 == n).and_then(|(_, v)| v.0.span_id().map(|s| s.to_string()))
            }
        };
        let want_ids = json!([ids(0, e["ids"][0].as_u64().unwrap()), ids(1, e["ids"][1].as_u64().unwrap())]);
        if o["ids"] != want_ids {
            return fail("the context as properties: trace id and span id exactly when sampled");
        }
    }
    None
}

// ---- pure cases ------------------------------------------------------------------------------
fn ts_form(text: &str, form: &str) -> Tracestate {
    match form {
        "new_raw" => Tracestate::new_raw(Box::leak(text.to_string().into_boxed_str())),
        "new_owned_raw" => Tracestate::new_owned_raw(text),
        "new_str_raw" => Tracestate::new_str_raw(Str::new_shared(text)),
        f => tool_error(&format!("unknown tracestate form {f}")),
    }
}

fn run_text(case: &Value, fails: &mut Vec<Value>) -> u64 {
    let mut bad = |what: &str, got: Value, want: Value| fails.push(json!({"what": what, "got": got, "want": want}));
    match case["kind"].as_str().unwrap_or("") {
        "flags" => {
            let b = case["b"].as_u64().unwrap() as u8;
            let f = TraceFlags::from_u8(b);
            let hex = chars(&case["hex"]);
            if f.to_u8() != b {
                bad("from_u8 / to_u8", json!(f.to_u8()), json!(b));
            }
            if std::str::from_utf8(&f.to_hex()).ok() != Some(hex.as_str()) || f.to_string() != hex {
                bad("to_hex / Display", json!(f.to_string()), json!(hex));
            }
            if f.is_sampled() != case["sampled"].as_bool().unwrap() {
                bad("is_sampled", json!(f.is_sampled()), case["sampled"].clone());
            }
            if (!f).to_u8() as u64 != case["not"].as_u64().unwrap() {
                bad("!", json!((!f).to_u8()), case["not"].clone());
            }
            let back: Result<TraceFlags, _> = hex.parse();
            if back.as_ref().ok() != Some(&f) || TraceFlags::try_from_hex_slice(hex.as_bytes()).ok() != Some(f) {
                bad("format then parse", json!(back.ok().map(|x| x.to_u8())), json!(b));
            }
            if (b == 0) != (f == TraceFlags::EMPTY) || (b == 1) != (f == TraceFlags::SAMPLED) {
                bad("EMPTY / SAMPLED", json!(b), json!(null));
            }
            6
        }
        "flagpair" => {
            let (a, b) = (TraceFlags::from_u8(case["a"].as_u64().unwrap() as u8), TraceFlags::from_u8(case["b"].as_u64().unwrap() as u8));
            if (a & b).to_u8() as u64 != case["and"].as_u64().unwrap() {
                bad("&", json!((a & b).to_u8()), case["and"].clone());
            }
            if (a | b).to_u8() as u64 != case["or"].as_u64().unwrap() {
                bad("|", json!((a | b).to_u8()), case["or"].clone());
            }
            2
        }
        "flagtext" => {
            let t = chars(&case["text"]);
            let got = TraceFlags::try_from_hex_slice(t.as_bytes()).ok().map(|f| f.to_u8() as u64);
            let got2 = t.parse::<TraceFlags>().ok().map(|f| f.to_u8() as u64);
            let want = if case["ok"] == true { case["val"].as_u64() } else { None };
            if got != want || got2 != want {
                bad("try_from_hex_slice / from_str", json!([got, got2]), json!(want));
            }
            2
        }
        "tp" => {
            let p = &case["p"];
            let tp = Traceparent::new(tid(&chars(&case["tid"])), sid(&chars(&case["sid"])), TraceFlags::from_u8(p["fl"].as_u64().unwrap() as u8));
            let text = chars(&case["text"]);
            if tp.to_string() != text {
                bad("Display", json!(tp.to_string()), json!(text));
            }
            let back = Traceparent::try_from_str(&text);
            let back2: Result<Traceparent, _> = text.parse();
            if back.as_ref().ok() != Some(&tp) || back2.as_ref().ok() != Some(&tp) {
                bad("format then parse", json!(back.ok().map(|t| t.to_string())), json!(text));
            }
            if tp.is_valid() != case["valid"].as_bool().unwrap() || tp.trace_flags().is_sampled() != case["sampled"].as_bool().unwrap() {
                bad("is_valid / is_sampled", json!([tp.is_valid(), tp.trace_flags().is_sampled()]), json!([case["valid"], case["sampled"]]));
            }
            if tp.trace_id().is_some() != (p["tr"] != 0) || tp.span_id().is_some() != (p["sp"] != 0) || tp.trace_flags().to_u8() as u64 != p["fl"].as_u64().unwrap() {
                bad("accessors", json!(null), json!(p));
            }
            4
        }
        "ts" => {
            let (x, y) = (case["x"].as_str().unwrap(), case["y"].as_str().unwrap());
            let (a, b) = (ts_form(x, case["f"].as_str().unwrap()), ts_form(y, case["g"].as_str().unwrap()));
            if a.get() != x || a.to_string() != x || b.get() != y {
                bad("get / Display", json!([a.get(), a.to_string()]), json!(x));
            }
            if (a == b) != case["eq"].as_bool().unwrap() || a.clone() != a {
                bad("==", json!(a == b), case["eq"].clone());
            }
            // pushed and read back on this thread, whatever the storage
            let cur = a.push().call(Tracestate::current);
            if cur != a || cur.get() != x {
                bad("push then current", json!(cur.get()), json!(x));
            }
            3
        }
        k => tool_error(&format!("unknown case kind {k}")),
    }
}

fn main() {
    let args: Vec<String> = std::env::args().collect();
    quiet_panics();
    match args.get(1).map(|s| s.as_str()) {
        Some("ctx") if args.len() == 5 => {
            let (cases, table, out) = (args[2].clone(), args[3].clone(), args[4].clone());
            let rep = drive(
                &cases,
                workers_from_env(),
                move |_| -> &'static M {
                    Box::leak(Box::new(M { table: Table::load(&table), frames: Mutex::new(HashMap::new()), salt: AtomicU64::new(0) }))
                },
                |m, no, case| {
                    let m: &'static M = m;
                    m.salt.store(no as u64, Ordering::Relaxed);
                    m.frames.lock().unwrap().clear();
                    let steps = case["steps"].as_array().unwrap_or_else(|| tool_error("case without steps"));
                    let nthreads = steps[0]["exp"].as_array().map(|a| a.len()).unwrap_or(1);
                    let o = run_case(m, nthreads, steps, |_, step, rep, obs| judge_ctx(m, step, rep, obs));
                    m.frames.lock().unwrap().clear();
                    o
                },
            );
            rep.write(&out);
        }
        Some("text") if args.len() == 4 => {
            let mut rep = Report::new();
            for_each_case(&args[2], |_, case| {
                rep.cases += 1;
                match catch(|| {
                    let mut fails = Vec::new();
                    let n = run_text(case, &mut fails);
                    (n, fails)
                }) {
                    Ok((n, fails)) => {
                        rep.checks += n;
                        if !fails.is_empty() {
                            rep.mismatch(&format!("trace context value ({}) differs from the statement", case["kind"].as_str().unwrap_or("?")), case, json!(fails));
                        }
                    }
                    Err(p) => rep.mismatch("panic", case, json!(p)),
                }
            });
            rep.write(&args[3]);
        }
        _ => tool_error("usage: x_tracectx ctx <cases> <table.json> <report> | x_tracectx text <cases> <report>"),
    }
}
