//! C18: replay every transition of spec/Traceparent.tla on the real emit_traceparent runtime:
//! Runtime::build(recording emitter,
//!                TraceparentFilter::new_with_sampler(scripted).and_when(Some(in_sampled_trace_filter(true)) | None),
//!                TraceparentCtxt::new(ThreadLocalCtxt::new()), counter clock, counter rng).
//!
//! Steps: begin {i, f, d, root} / new / enter / end / exit / spawn / lazy / poll / yield /
//! complete / event / header {f, h: {tr, sp, fl}} / current {f}.
//! Every step carries
//!   samples: how often the sampler must have run so far (it runs exactly at root spans),
//!   emits:   [{kind, must: yes|no|any, ids: [trace, span, parent]}] for what the step emits,
//!   exp:     per thread {k: none|s|u, tr, sp}: sampled => Traceparent::current() is exactly
//!            (trace, innermost span, sampled); unsampled => it reports unsampled.
//! Ids are compared up to a bijection; header ids are chosen by the harness.
use std::collections::HashMap;
use std::future::Future;
use std::pin::Pin;
use std::sync::atomic::{AtomicBool, AtomicU64, Ordering};
use std::sync::{Arc, Mutex};
use std::task::Poll;

use emit::and::And;
use emit::platform::thread_local_ctxt::ThreadLocalCtxt;
use emit::runtime::Runtime;
use emit::span::{SpanCtxt, SpanGuard};
use emit::{Filter, Frame};
use emit_traceparent::{in_sampled_trace_filter, InSampledTraceFilter, TraceFlags, Traceparent, TraceparentCtxt, TraceparentFilter};
use vh_span::world::*;
use vh_span::*;

#[derive(Default)]
struct SamplerState {
    decision: AtomicBool,
    calls: Mutex<Vec<(Option<String>, Option<String>, Option<String>)>>,
}

type Sampler = Box<dyn Fn(&SpanCtxt) -> bool + Send + Sync>;
type Flt = And<TraceparentFilter<Sampler>, Option<InSampledTraceFilter>>;
type Cx = TraceparentCtxt<ThreadLocalCtxt>;
type F0<R> = Frame<&'static <R as RtT>::C>;

trait GuardObj<R: RtT>: Send {
    fn start_it(&mut self);
    /// Complete the span inside its frame: by drop, `complete()`, or `complete_with(..)`.
    fn finish(self: Box<Self>, how: u64, m: &'static M18<R>);
}

impl<'a, R: RtT, T: emit::Clock + Send, P: emit::Props + Send, C: emit::span::completion::Completion + Send> GuardObj<R>
    for SpanGuard<'a, T, P, C>
{
    fn start_it(&mut self) {
        self.start()
    }
    fn finish(self: Box<Self>, how: u64, m: &'static M18<R>) {
        match how % 3 {
            0 => drop(self),
            1 => {
                (*self).complete();
            }
            _ => {
                (*self).complete_with(emit::span::completion::default(m.rt.get().emitter(), m.rt.get().ctxt()));
            }
        }
    }
}

/// The error of the Result-returning fixtures; it carries the interpreter's state out.
#[derive(Debug)]
struct LeaveErr(Leave);
impl std::fmt::Display for LeaveErr {
    fn fmt(&self, f: &mut std::fmt::Formatter) -> std::fmt::Result {
        f.write_str("scripted error result")
    }
}
impl std::error::Error for LeaveErr {}

fn either(r: Result<Leave, LeaveErr>) -> Leave {
    match r {
        Ok(l) | Err(LeaveErr(l)) => l,
    }
}

type Guard<R> = Box<dyn GuardObj<R>>;

enum TFrame<R: RtT> {
    Plain(F0<R>),
    Span(F0<R>, Guard<R>),
    Hdr(Frame<TraceparentCtxt>),
}

type Task = Pin<Box<dyn Future<Output = Leave> + Send>>;

struct M18<R: RtT> {
    rt: &'static R,
    form: &'static str,
    rows: RecEmitter,
    sampler: Arc<SamplerState>,
    frames: Mutex<HashMap<u64, TFrame<R>>>,
    tasks: Mutex<HashMap<u64, Task>>,
    salt: AtomicU64,
}

// ---------------------------------------------------------------- macro fixtures

#[emit::span(rt: m.rt.get(), "sync fn span")]
fn form_sync_fn<R: RtT>(m: &'static M18<R>) -> Leave {
    reply_ok();
    run_loop(m)
}

#[emit::warn_span(rt: m.rt.get(), guard: span, "sync fn span with guard")]
fn form_sync_guard<R: RtT>(m: &'static M18<R>) -> Leave {
    reply_ok();
    let l = run_loop(m);
    span.complete();
    l
}

// completion through `complete_with` (the expansion of ok_lvl / err_lvl, or by hand)
#[emit::span(rt: m.rt.get(), ok_lvl: emit::Level::Debug, "sync fn span with Ok result")]
fn form_sync_result_ok<R: RtT>(m: &'static M18<R>) -> Result<Leave, LeaveErr> {
    reply_ok();
    Ok(run_loop(m))
}

#[emit::span(rt: m.rt.get(), err_lvl: emit::Level::Warn, "sync fn span with Err result")]
fn form_sync_result_err<R: RtT>(m: &'static M18<R>) -> Result<Leave, LeaveErr> {
    reply_ok();
    Err(LeaveErr(run_loop(m)))
}

#[emit::span(rt: m.rt.get(), guard: span, "sync fn span with guard and complete_with")]
fn form_sync_guard_with<R: RtT>(m: &'static M18<R>) -> Leave {
    reply_ok();
    let l = run_loop(m);
    span.complete_with(emit::span::completion::default(m.rt.get().emitter(), m.rt.get().ctxt()));
    l
}

#[emit::span(rt: m.rt.get(), ok_lvl: emit::Level::Info, "async fn span with Ok result")]
async fn form_async_result_ok<R: RtT>(m: &'static M18<R>) -> Result<Leave, LeaveErr> {
    Ok(ScriptFuture { m }.await)
}

#[emit::span(rt: m.rt.get(), err_lvl: emit::Level::Error, "async fn span with Err result")]
async fn form_async_result_err<R: RtT>(m: &'static M18<R>) -> Result<Leave, LeaveErr> {
    Err(LeaveErr(ScriptFuture { m }.await))
}

#[emit::span(rt: m.rt.get(), guard: span, "async fn span with guard and complete_with")]
async fn form_async_guard_with<R: RtT>(m: &'static M18<R>) -> Leave {
    let l = ScriptFuture { m }.await;
    span.complete_with(emit::span::completion::default(m.rt.get().emitter(), m.rt.get().ctxt()));
    l
}

fn form_new_span_call<R: RtT>(m: &'static M18<R>) -> Leave {
    let (mut guard, frame) = emit::new_span!(rt: m.rt.get(), "new_span then call");
    frame.call(move || {
        guard.start();
        reply_ok();
        run_loop(m)
    })
}

fn manual<R: RtT>(m: &'static M18<R>, name: &'static str) -> (SpanGuard<'static, &'static R::T, emit::Empty, emit::span::completion::Default<'static, &'static R::E, &'static R::C>>, F0<R>) {
    SpanGuard::new(
        m.rt.get().filter(),
        m.rt.get().ctxt(),
        m.rt.get().clock(),
        m.rt.get().rng(),
        emit::span::completion::default(m.rt.get().emitter(), m.rt.get().ctxt()),
        emit::Empty,
        emit::Path::new_raw("vh_span"),
        name,
        emit::Empty,
    )
}

fn form_manual_enter<R: RtT>(m: &'static M18<R>) -> Leave {
    let (guard, mut frame) = manual(m, "SpanGuard::new then enter");
    let _entered = frame.enter();
    // declared after the EnterGuard: dropped before it, also when a panic unwinds through here
    let mut guard = guard;
    guard.start();
    reply_ok();
    let l = run_loop(m);
    drop(guard);
    l
}

#[emit::span(rt: m.rt.get(), "async fn span")]
async fn form_async_fn<R: RtT>(m: &'static M18<R>) -> Leave {
    ScriptFuture { m }.await
}

// ---------------------------------------------------------------- machine

impl<R: RtT> M18<R> {
    fn new(form: &'static str, rt: &'static R, rows: RecEmitter, sampler: Arc<SamplerState>) -> M18<R> {
        M18 { rt, form, rows, sampler, frames: Mutex::new(HashMap::new()), tasks: Mutex::new(HashMap::new()), salt: AtomicU64::new(0) }
    }

    fn take_frame(&self, f: u64) -> TFrame<R> {
        self.frames.lock().unwrap().remove(&f).unwrap_or_else(|| tool_error(&format!("frame {f} is not idle")))
    }

    fn set_decision(&self, step: &Value) {
        self.sampler.decision.store(step["d"].as_bool().unwrap_or(true), Ordering::Relaxed);
    }

    fn after_nested(&self, leave: Leave) -> Option<Leave> {
        match leave {
            Leave::Exit(_) => {
                reply_ok();
                None
            }
            Leave::Quit => Some(Leave::Quit),
            other => {
                reply(json!({"tool_error": format!("frame left by {other:?}")}));
                None
            }
        }
    }
}

/// Header ids are the environment's: model id -> concrete id.
fn header_of(h: &Value, salt: u64) -> Traceparent {
    let tr = h["tr"].as_u64().unwrap_or(0);
    let sp = h["sp"].as_u64().unwrap_or(0);
    // other flag bits must not matter: only bit 0 is "sampled"
    let fl = if h["fl"].as_u64() == Some(1) { [0x01u8, 0x03, 0x81][(salt % 3) as usize] } else { [0x00u8, 0x02, 0x80][(salt % 3) as usize] };
    let tp = Traceparent::new(
        if tr == 0 { None } else { Some(incoming_trace(tr)) },
        if sp == 0 { None } else { Some(incoming_span(sp)) },
        TraceFlags::from_u8(fl),
    );
    // through the text form, as a header arrives
    let text = tp.to_string();
    Traceparent::try_from_str(&text).unwrap_or_else(|e| tool_error(&format!("header {text} does not parse: {e}")))
}

impl<R: RtT> Machine for M18<R> {
    fn exec(&'static self, step: &Value) -> Option<Leave> {
        let op = step["op"].as_str().unwrap_or("");
        let salt = self.salt.load(Ordering::Relaxed);
        match op {
            "begin" => {
                self.set_decision(step);
                let i = step["i"].as_u64().unwrap();
                let leave = match (salt + i) % 7 {
                    0 => form_sync_fn(self),
                    1 => form_new_span_call(self),
                    2 => form_sync_guard(self),
                    3 => form_manual_enter(self),
                    4 => either(form_sync_result_ok(self)),
                    5 => either(form_sync_result_err(self)),
                    _ => form_sync_guard_with(self),
                };
                self.after_nested(leave)
            }
            "new" => {
                self.set_decision(step);
                let f = step["f"].as_u64().unwrap();
                let i = step["i"].as_u64().unwrap();
                let fr = if (salt + i) % 2 == 0 {
                    let (guard, frame) = emit::new_span!(rt: self.rt.get(), "new_span, entered later");
                    TFrame::Span(frame, Box::new(guard))
                } else {
                    let (guard, frame) = manual(self, "SpanGuard::new, entered later");
                    TFrame::Span(frame, Box::new(guard))
                };
                self.frames.lock().unwrap().insert(f, fr);
                reply_ok();
                None
            }
            "header" => {
                let f = step["f"].as_u64().unwrap();
                let tp = header_of(&step["h"], salt);
                let frame = if (salt / 3) % 2 == 0 { tp.push() } else { emit_traceparent::push(tp, emit_traceparent::Tracestate::new_raw("vh=1")) };
                self.frames.lock().unwrap().insert(f, TFrame::Hdr(frame));
                reply_ok();
                None
            }
            "current" => {
                let f = step["f"].as_u64().unwrap();
                let frame = Frame::current(self.rt.get().ctxt());
                self.frames.lock().unwrap().insert(f, TFrame::Plain(frame));
                reply_ok();
                None
            }
            "carry" => {
                // the other frames a program can make (spec constant FrameKinds)
                let f = step["f"].as_u64().unwrap();
                let fr = match step["kind"].as_str().unwrap_or("") {
                    // the span context read and pushed again: the pushed span id is the active one
                    "spanctxt" => TFrame::Plain(if (salt + f) % 2 == 0 {
                        SpanCtxt::current(self.rt.get().ctxt()).push(self.rt.get().ctxt())
                    } else {
                        Frame::push(self.rt.get().ctxt(), SpanCtxt::current(self.rt.get().ctxt()))
                    }),
                    // a tracestate riding along with whatever traceparent is current
                    "state" => TFrame::Hdr(match (salt + f) % 3 {
                        0 => emit_traceparent::Tracestate::new_raw("vh=2").push(),
                        1 => emit_traceparent::Tracestate::new_owned_raw(format!("vh={}", salt)).push(),
                        _ => emit_traceparent::Tracestate::new_str_raw(emit::Str::new("vh=3,other=1")).push(),
                    }),
                    // shows only its own properties: TraceparentCtxt::open_root
                    "root" => TFrame::Plain(Frame::root(self.rt.get().ctxt(), [("user", (salt + f) as i64)])),
                    other => tool_error(&format!("unknown frame kind {other}")),
                };
                self.frames.lock().unwrap().insert(f, fr);
                reply_ok();
                None
            }
            "enter" => {
                let f = step["f"].as_u64().unwrap();
                match self.take_frame(f) {
                    TFrame::Plain(mut frame) => {
                        let r = catching(|| {
                            let _g = frame.enter();
                            reply_ok();
                            run_loop(self)
                        });
                        self.frames.lock().unwrap().insert(f, TFrame::Plain(frame));
                        let l = rethrow(r);
                        self.after_nested(l)
                    }
                    TFrame::Hdr(mut frame) => {
                        let r = catching(|| {
                            let _g = frame.enter();
                            reply_ok();
                            run_loop(self)
                        });
                        self.frames.lock().unwrap().insert(f, TFrame::Hdr(frame));
                        let l = rethrow(r);
                        self.after_nested(l)
                    }
                    TFrame::Span(mut frame, guard) => {
                        let how = salt / 2 + f;
                        let leave = if (salt + f) % 2 == 0 {
                            frame.call(move || {
                                let mut guard = guard;
                                guard.start_it();
                                reply_ok();
                                let l = run_loop(self);
                                guard.finish(how, self);        // inside the frame
                                l
                            })
                        } else {
                            let _g = frame.enter();
                            let mut guard = guard;      // dropped before _g, also on unwinding
                            guard.start_it();
                            reply_ok();
                            let l = run_loop(self);
                            guard.finish(how, self);
                            l
                        };
                        self.after_nested(leave)
                    }
                }
            }
            "spawn" => {
                let f = step["f"].as_u64().unwrap();
                let k = step["k"].as_u64().unwrap();
                let m: &'static M18<R> = self;
                let task: Task = match self.take_frame(f) {
                    TFrame::Plain(frame) => Box::pin(frame.in_future(ScriptFuture { m })),
                    TFrame::Hdr(frame) => Box::pin(frame.in_future(ScriptFuture { m })),
                    TFrame::Span(frame, mut guard) => Box::pin(frame.in_future(async move {
                        guard.start_it();
                        let l = ScriptFuture { m }.await;
                        guard.finish(salt / 2 + f, m);
                        l
                    })),
                };
                self.tasks.lock().unwrap().insert(k, task);
                reply_ok();
                None
            }
            "lazy" => {
                let k = step["k"].as_u64().unwrap();
                let task: Task = match (salt + k) % 4 {
                    0 => Box::pin(form_async_fn(self)),
                    1 => Box::pin(async move { either(form_async_result_ok(self).await) }),
                    2 => Box::pin(async move { either(form_async_result_err(self).await) }),
                    _ => Box::pin(form_async_guard_with(self)),
                };
                self.tasks.lock().unwrap().insert(k, task);
                reply_ok();
                None
            }
            "poll" => {
                let k = step["k"].as_u64().unwrap();
                if step["first"].as_bool() == Some(true) {
                    self.set_decision(step);
                }
                let mut task = self.tasks.lock().unwrap().remove(&k).unwrap_or_else(|| tool_error("task is not idle"));
                match poll_once(&mut task) {
                    Poll::Pending => {
                        self.tasks.lock().unwrap().insert(k, task);
                        match take_yield() {
                            Some(Leave::Yield(_)) => reply_ok(),
                            _ => reply(json!({"tool_error": "Pending without a yield step"})),
                        }
                        None
                    }
                    Poll::Ready(Leave::Complete(_)) => {
                        drop(task);
                        reply_ok();
                        None
                    }
                    Poll::Ready(_) => Some(Leave::Quit),
                }
            }
            "event" => {
                emit::emit!(rt: self.rt.get(), "event");
                reply_ok();
                None
            }
            _ => {
                reply(json!({"tool_error": format!("unknown op {op}")}));
                None
            }
        }
    }

    fn observe(&'static self) -> Value {
        let tp = Traceparent::current();
        let (tp2, state) = emit_traceparent::current();
        // the tracestate rides along; the statement says nothing about its value (not compared)
        let state_alone = emit_traceparent::Tracestate::current();
        let text = tp.to_string();
        let back = Traceparent::try_from_str(&text).ok();
        let c = SpanCtxt::current(self.rt.get().ctxt());
        json!({
            "tr": tp.trace_id().map(|t| format!("t:{t}")),
            "sp": tp.span_id().map(|s| format!("s:{s}")),
            "sampled": tp.trace_flags().is_sampled(),
            "text": text,
            "roundtrip": back == Some(tp) && tp2 == tp,
            "state": [state.get(), state_alone.to_string()],
            "ctxt": [c.trace_id().map(|t| format!("t:{t}")), c.span_id().map(|s| format!("s:{s}"))],
        })
    }
}

fn opt(v: &Value) -> Option<String> {
    v.as_str().map(|s| s.to_string())
}

struct Runner<R: RtT> {
    m: &'static M18<R>,
    bij: Bij,
}

impl<R: RtT> CaseRunner for Runner<R> {
    fn form(&self) -> &'static str {
        self.m.form
    }

    fn run(&mut self, no: usize, case: &Value) -> Outcome {
        let m: &'static M18<R> = self.m;
        let form = m.form;
        let bij = &mut self.bij;
        bij.clear();
        m.salt.store(no as u64, Ordering::Relaxed);
        m.frames.lock().unwrap().clear();
        m.tasks.lock().unwrap().clear();
        m.rows.0.lock().unwrap().clear();
        m.sampler.calls.lock().unwrap().clear();
        let steps = case["steps"].as_array().unwrap_or_else(|| tool_error("case without steps"));
        let nthreads = steps[0]["exp"].as_array().map(|a| a.len()).unwrap_or(1);
        let mut consumed = 0usize;
        let mut sampled_before = 0usize;
        let mut o = run_case(m, nthreads, steps, |_, step, rep, obs| {
                if step["op"] == "panic" {
                    if rep["panicked"].as_str() != Some(SCRIPTED_PANIC) {
                        return Some(json!({"what": "scripted panic was not the panic that arrived", "detail": rep}));
                    }
                } else if rep.get("panicked").is_some() {
                    return Some(json!({"what": "panic in code under test", "detail": rep}));
                }
                if step["op"] == "header" {
                    let h = &step["h"];
                    let tr = h["tr"].as_u64().unwrap_or(0);
                    let sp = h["sp"].as_u64().unwrap_or(0);
                    let trc = if tr == 0 { None } else { Some(format!("t:{}", incoming_trace(tr))) };
                    let spc = if sp == 0 { None } else { Some(format!("s:{}", incoming_span(sp))) };
                    if !unify_ids(bij, &json!([tr, sp, 0]), &trc, &spc, &None) {
                        tool_error("header ids collide with drawn ids");
                    }
                }
                // sampler invocations
                let calls = m.sampler.calls.lock().unwrap().clone();
                let want_calls = step["samples"].as_u64().unwrap_or(0) as usize;
                if calls.len() != want_calls {
                    return Some(json!({"what": if calls.len() > want_calls { "sampler ran for a span that is not the root of a new trace" } else { "sampler did not run for the root span of a new trace" },
                        "detail": {"want_invocations": want_calls, "got_invocations": calls.len(), "calls": format!("{calls:?}")}}));
                }
                if calls.len() > sampled_before {
                    // it ran in this step: for span i, the root (no parent)
                    let i = step["i"].as_u64().unwrap_or(0);
                    let c = &calls[calls.len() - 1];
                    if calls.len() != sampled_before + 1 || !unify_ids(bij, &json!([step["atr"].as_u64().unwrap_or((2 * i).saturating_sub(1)), 2 * i, 0]), &c.0, &c.1, &c.2) {
                        return Some(json!({"what": "sampler was not given the root span of the new trace (once)",
                            "detail": {"span": i, "calls": format!("{calls:?}"), "known": bij.dump()}}));
                    }
                    sampled_before = calls.len();
                }
                // records that reached the emitter in this step
                let rows: Vec<Row> = m.rows.0.lock().unwrap()[consumed..].to_vec();
                consumed += rows.len();
                let want = step.get("emits").and_then(|e| e.as_array()).cloned().unwrap_or_default();
                // Rows are matched to the demands in order (a panic completes several spans, innermost
                // first).  A "no" demand claims no row; whatever is left over at the end was emitted
                // although it must not be.
                let mut ri = 0usize;
                let mut forbidden: Option<&Value> = None;
                for w in want.iter() {
                    let must = w["must"].as_str().unwrap_or("any");
                    let is_span = w["kind"] == "span";
                    match must {
                        "no" => forbidden = Some(w),
                        "yes" => {
                            let Some(r) = rows.get(ri) else {
                                return Some(json!({"what": "a span / event inside a sampled trace was not emitted", "detail": {"want": w, "got": format!("{rows:?}")}}));
                            };
                            ri += 1;
                            // events: trace + innermost span; spans: also the parent
                            let ok = r.span == is_span
                                && if r.span {
                                    unify_ids(bij, &w["ids"], &r.trace, &r.id, &r.parent)
                                } else {
                                    unify_ids(bij, &json!([w["ids"][0], w["ids"][1], 0]), &r.trace, &r.id, &None)
                                };
                            if !ok {
                                return Some(json!({"what": if forbidden.is_some() { "a span of an unsampled trace was emitted, or a record carries other ids than the sampled trace / innermost span / caller span" } else { "emitted record carries other ids than the sampled trace / innermost span / caller span" },
                                    "detail": {"want": w["ids"], "got": format!("{r:?}"), "known": bij.dump()}}));
                            }
                        }
                        _ => {
                            if rows.get(ri).map_or(false, |r| r.span == is_span) {
                                ri += 1;
                            }
                        }
                    }
                }
                if ri != rows.len() {
                    let r = &rows[ri];
                    return Some(match forbidden {
                        Some(_) => json!({"what": if r.span { "a span of an unsampled trace was emitted" } else { "an event inside an unsampled trace passed the sampled-trace filter" },
                            "detail": {"got": format!("{r:?}")}}),
                        None => json!({"what": "a step emitted records the program does not account for", "detail": {"want": want, "got": format!("{rows:?}")}}),
                    });
                }
                for (t, o) in obs.iter().enumerate() {
                    if o.get("panicked").is_some() {
                        return Some(json!({"what": "panic while observing", "detail": o}));
                    }
                    if o["roundtrip"] != true {
                        return Some(json!({"what": "the current traceparent does not survive format + parse", "detail": o}));
                    }
                    let e = &step["exp"][t];
                    match e["k"].as_str().unwrap_or("none") {
                        "s" => {
                            if o["sampled"] != true || !unify_ids(bij, &json!([e["tr"], e["sp"], 0]), &opt(&o["tr"]), &opt(&o["sp"]), &None) {
                                return Some(json!({"what": "inside a sampled trace Traceparent::current() is not (trace, innermost span, sampled)",
                                    "detail": {"thread": t + 1, "want": e, "got": o, "known": bij.dump()}}));
                            }
                        }
                        "u" => {
                            if o["sampled"] != false {
                                return Some(json!({"what": "inside an unsampled trace Traceparent::current() does not report unsampled",
                                    "detail": {"thread": t + 1, "want": e, "got": o}}));
                            }
                        }
                        _ => {}
                    }
                }
                None
        });
        if let Some(mm) = o.mismatch.as_mut() {
            mm["form"] = json!(form);
        }
        m.frames.lock().unwrap().clear();
        m.tasks.lock().unwrap().clear();
        o
    }
}

fn runner<R: RtT>(form: &'static str, rt: &'static R, rows: RecEmitter, sampler: Arc<SamplerState>) -> Box<dyn CaseRunner> {
    Box::new(Runner { m: Box::leak(Box::new(M18::new(form, rt, rows, sampler))), bij: Bij::default() })
}

/// The context forms (spec constant CtxForms).
fn build(form: &str, in_sampled: bool) -> Box<dyn CaseRunner> {
    let rows = RecEmitter::default();
    let sampler = Arc::new(SamplerState::default());
    let s2 = sampler.clone();
    let f: Sampler = Box::new(move |c: &SpanCtxt| {
        s2.calls.lock().unwrap().push((
            c.trace_id().map(|t| format!("t:{t}")),
            c.span_id().map(|s| format!("s:{s}")),
            c.span_parent().map(|s| format!("s:{s}")),
        ));
        s2.decision.load(Ordering::Relaxed)
    });
    let ins = if in_sampled { Some(in_sampled_trace_filter(true)) } else { None };
    let clock = || CounterClock(AtomicU64::new(0));
    let rng = || CounterRng(AtomicU64::new(1));
    let cx: Cx = TraceparentCtxt::new(ThreadLocalCtxt::new());
    fn leak<T>(v: T) -> &'static T {
        Box::leak(Box::new(v))
    }
    if form == "ambient" {
        // the type-erased runtime applications get from emit_traceparent::setup_with_sampler, in a fresh slot
        let slot: &'static emit::runtime::AmbientSlot = leak(emit::runtime::AmbientSlot::new());
        let _ = emit_traceparent::setup_with_sampler(f)
            .and_emit_when(ins)
            .emit_to(rows.clone())
            .with_clock(clock())
            .with_rng(rng())
            .init_slot(slot);
        let rt: &'static emit::runtime::AmbientRuntime<'static> = slot.get();
        return runner("ambient", rt, rows, sampler);
    }
    if form == "setup" {
        // the entry point without a sampler: emit_traceparent::setup(), in a fresh slot
        let slot: &'static emit::runtime::AmbientSlot = leak(emit::runtime::AmbientSlot::new());
        let _ = emit_traceparent::setup()
            .and_emit_when(ins)
            .emit_to(rows.clone())
            .with_clock(clock())
            .with_rng(rng())
            .init_slot(slot);
        let rt: &'static emit::runtime::AmbientRuntime<'static> = slot.get();
        return runner("setup", rt, rows, sampler);
    }
    if form == "nosampler" {
        let filter = TraceparentFilter::new().and_when(ins);
        return runner("nosampler", leak(Runtime::build(rows.clone(), filter, cx, clock(), rng())), rows, sampler);
    }
    let filter: Flt = TraceparentFilter::new_with_sampler(f).and_when(ins);
    match form {
        "value" => runner("value", leak(Runtime::build(rows.clone(), filter, cx, clock(), rng())), rows, sampler),
        "ref" => runner("ref", leak(Runtime::build(rows.clone(), filter, leak(cx), clock(), rng())), rows, sampler),
        "option" => runner("option", leak(Runtime::build(rows.clone(), filter, Some(cx), clock(), rng())), rows, sampler),
        "box" => runner("box", leak(Runtime::build(rows.clone(), filter, Box::new(cx), clock(), rng())), rows, sampler),
        "arc" => runner("arc", leak(Runtime::build(rows.clone(), filter, Arc::new(cx), clock(), rng())), rows, sampler),
        // TraceparentCtxt over a third-party stacking context (trait-default open_push, duplicates visible)
        "stack" => runner("stack", leak(Runtime::build(rows.clone(), filter, TraceparentCtxt::new(StackCtxt), clock(), rng())), rows, sampler),
        "dyn" => runner(
            "dyn",
            leak(Runtime::build(rows.clone(), filter, Box::new(cx) as Box<dyn emit_core::ctxt::ErasedCtxt + Send + Sync>, clock(), rng())),
            rows,
            sampler,
        ),
        other => tool_error(&format!("unknown context form {other}")),
    }
}

fn main() {
    let args: Vec<String> = std::env::args().collect();
    if args.len() < 5 {
        tool_error("usage: c18_tp <cases.ndjson> <in_sampled: true|false> <forms json> <report.json>");
    }
    let (cases, in_sampled, forms, out) = (args[1].clone(), args[2].to_lowercase() == "true", args[3].clone(), args[4].clone());
    quiet_panics();
    let forms: Vec<String> = serde_json::from_str(&forms).unwrap_or_else(|e| tool_error(&format!("forms: {e}")));
    if forms.is_empty() {
        tool_error("no context forms");
    }
    let rep = drive(
        &cases,
        workers_from_env(),
        move |_| -> Vec<Box<dyn CaseRunner>> { forms.iter().map(|f| build(f, in_sampled)).collect() },
        |runners, no, case| {
            let n = runners.len();
            runners[no % n].run(no, case)
        },
    );
    rep.write(&out);
}
