//! C05: replay every transition of spec/SpanGuard.tla on real `SpanGuard`s and on the
//! real `#[emit::span]` expansions.
//!
//! Input (ndjson, from TLC), one line per transition of the state graph:
//!   {"verdict":bool, "script":[r1,r2], "form":"none|plain|result|guard", "frame":"in|out",
//!    "done":bool,
//!    "ops":[{"op":..,"a":..,"x":..,"en":bool,"ret":"na|true|false","n":k}, ..],
//!    "expect":[{"cid","mdl","name","props":{"a","m"},"extent":[s,e]|[],"extentAny":bool,
//!               "lvl","err"}]}
//! `en` / `ret` / `n` are the is_enabled() value, the bool returned by complete*() and the
//! number of completion calls the statement predicts after that operation.
//!
//! form "none": the operations are applied to a `SpanGuard` whose changing type
//! parameters are erased (`Box<dyn ErasedProps>`, boxed `dyn ErasedCompletion`).
//! Other forms: the sequence is what a macro expansion performs; it is executed by calling
//! a function carrying the attribute (sync and async variant): plain, setup (`setup:`),
//! result (ok_lvl / err_lvl), resultM (+ `err:` mapper), guard (`guard:`), newspan
//! (`emit::new_span!` and manual handling of the guard, in `Frame::call` and `in_future`).
//! The attribute on blocks / async blocks needs the unstable features stmt_expr_attributes
//! and proc_macro_hygiene (E0658 on this toolchain) and is not exercised; the expansion
//! code (inject_sync / inject_async) is the one used for functions.
//!
//! Mode "typed" (third argument): the cases are *all* sequences of <= 3 non-terminal
//! operations followed by a terminal one; each is executed on the erased guard, on
//! statically typed guards (level0..level3, stamped by `level!`: every operation yields the
//! concrete type the API gives, nothing boxed) and, for default completions, on the guard
//! `new_span!` returns - all compared with the same prediction.
//!
//! Clock readings are compared relationally: the extent must run from a reading the
//! scripted clock handed out during the (first) Start operation to one handed out during
//! the terminal operation.
#![cfg_attr(feature = "blocks", feature(stmt_expr_attributes, proc_macro_hygiene))]
use std::future::Future;
use std::pin::Pin;
use std::sync::atomic::{AtomicBool, AtomicU64, AtomicUsize, Ordering::SeqCst};
use std::sync::Mutex;
use std::task::{Context, Poll, Wake, Waker};
use std::time::Duration;

use emit::event::ToEvent;
use emit::platform::thread_local_ctxt::ThreadLocalCtxt;
use emit::props::ErasedProps;
use emit::runtime::Runtime;
use emit::span::completion::{self, Completion, ErasedCompletion};
use emit::span::{SpanCtxt, SpanGuard};
use emit::{Clock, Emitter, Empty, Filter, Level, Path, Props, Rng, Span, Str, Timestamp};
use vh_common::*;

// ------------------------------------------------------------------ environment
static VERDICT: AtomicBool = AtomicBool::new(false);
static CUR_OP: AtomicUsize = AtomicUsize::new(0);
static RNG: AtomicU64 = AtomicU64::new(1);
static CALLS: Mutex<Vec<Value>> = Mutex::new(Vec::new());
static IDS: Mutex<Option<String>> = Mutex::new(None);
/// order of the marks "setup", "new" (filter consulted), "complete" (event at the emitter),
/// "setup_drop"; consecutive repetitions are merged
static TRAIL: Mutex<Vec<&'static str>> = Mutex::new(Vec::new());
fn mark(m: &'static str) {
    let mut t = lock(&TRAIL);
    if t.last() != Some(&m) {
        t.push(m);
    }
}

struct ClockState {
    script: Vec<u64>,
    pos: usize,
    log: Vec<(usize, u64)>,
}
static CLOCK: Mutex<ClockState> = Mutex::new(ClockState { script: Vec::new(), pos: 0, log: Vec::new() });

fn lock<T>(m: &'static Mutex<T>) -> std::sync::MutexGuard<'static, T> {
    m.lock().unwrap_or_else(|e| e.into_inner())
}

struct RecEmitter;
struct VFilter;
struct SClock;
struct CRng;

impl Emitter for RecEmitter {
    fn emit<E: ToEvent>(&self, evt: E) {
        let evt = evt.to_event();
        mark("complete");
        let p = evt.props();
        let v = json!({
            "cid": "emitter", "op": CUR_OP.load(SeqCst),
            "mdl": evt.mdl().to_string(),
            "name": p.get("span_name").map(|v| v.to_string()),
            "a": p.get("a").and_then(|v| v.to_string().parse::<i64>().ok()),
            "m": p.get("m").is_some(),
            "extent": extent_json(evt.extent()),
            "lvl": p.get("lvl").map(|v| v.to_string()),
            "err": p.get("err").map(|v| v.to_string()),
            "span_id": p.get("span_id").map(|v| v.to_string()),
            "trace_id": p.get("trace_id").map(|v| v.to_string()),
            "kind": p.get("evt_kind").map(|v| v.to_string()),
        });
        lock(&CALLS).push(v);
    }
    fn blocking_flush(&self, _: Duration) -> bool {
        true
    }
}

impl Filter for VFilter {
    fn matches<E: ToEvent>(&self, _: E) -> bool {
        mark("new");
        VERDICT.load(SeqCst)
    }
}

impl Clock for SClock {
    fn now(&self) -> Option<Timestamp> {
        let mut c = lock(&CLOCK);
        // past the end of the script the clock keeps answering (reading 9)
        let r = c.script.get(c.pos).copied().unwrap_or(9);
        c.pos += 1;
        let op = CUR_OP.load(SeqCst);
        c.log.push((op, r));
        if r == 0 {
            None
        } else {
            Timestamp::from_unix(Duration::from_secs(r))
        }
    }
}

impl Rng for CRng {
    fn fill<A: AsMut<[u8]>>(&self, mut arr: A) -> Option<A> {
        for b in arr.as_mut().iter_mut() {
            *b = (RNG.fetch_add(1, SeqCst) % 251 + 1) as u8;
        }
        Some(arr)
    }
}

static RT: Runtime<RecEmitter, VFilter, ThreadLocalCtxt, SClock, CRng> =
    Runtime::build(RecEmitter, VFilter, ThreadLocalCtxt::shared(), SClock, CRng);

fn extent_json(e: Option<&emit::Extent>) -> Value {
    match e {
        None => Value::Null,
        Some(e) => match e.as_range() {
            Some(r) => json!({"range": [r.start.to_unix().as_secs(), r.end.to_unix().as_secs()]}),
            None => json!({"point": e.as_point().to_unix().as_secs()}),
        },
    }
}

fn reset_env(verdict: bool, script: &[u64]) {
    VERDICT.store(verdict, SeqCst);
    CUR_OP.store(0, SeqCst);
    lock(&CALLS).clear();
    *lock(&IDS) = None;
    lock(&TRAIL).clear();
    let mut c = lock(&CLOCK);
    c.script = script.to_vec();
    c.pos = 0;
    c.log.clear();
}

fn note_ids() {
    let cur = SpanCtxt::current(RT.ctxt());
    *lock(&IDS) = cur.span_id().map(|s| s.to_string());
}

// ------------------------------------------------------------------ completions
struct DynC(Box<dyn ErasedCompletion>);
impl Completion for DynC {
    fn complete<P: Props>(&self, span: Span<P>) {
        (*self.0).complete(span)
    }
}

/// A completion behind `dyn ErasedCompletion + Send + Sync`.
struct DynSS(Box<dyn ErasedCompletion + Send + Sync>);
impl Completion for DynSS {
    fn complete<P: Props>(&self, span: Span<P>) {
        (*self.0).complete(span)
    }
}

fn rec(id: String) -> DynC {
    // (the other constructor: FromFn::new; the typed chains use completion::from_fn)
    DynC(Box::new(completion::FromFn::new(move |span: Span<&dyn ErasedProps>| {
        let p = span.props();
        let v = json!({
            "cid": id, "op": CUR_OP.load(SeqCst),
            "mdl": span.mdl().to_string(),
            "name": span.name().to_string(),
            "a": p.get("a").and_then(|v| v.to_string().parse::<i64>().ok()),
            "m": p.get("m").is_some(),
            "extent": extent_json(span.extent()),
        });
        lock(&CALLS).push(v);
    })))
}

/// The recording completion as its concrete type (typed chains).
fn rec_typed(id: &'static str) -> completion::FromFn<impl Fn(Span<&dyn ErasedProps>)> {
    completion::from_fn(move |span: Span<&dyn ErasedProps>| {
        let p = span.props();
        let v = json!({
            "cid": id, "op": CUR_OP.load(SeqCst),
            "mdl": span.mdl().to_string(),
            "name": span.name().to_string(),
            "a": p.get("a").and_then(|v| v.to_string().parse::<i64>().ok()),
            "m": p.get("m").is_some(),
            "extent": extent_json(span.extent()),
        });
        lock(&CALLS).push(v);
    })
}

fn leaked_err() -> &'static std::io::Error {
    Box::leak(Box::new(std::io::Error::other("failed")))
}

fn mk(kind: &str) -> DynC {
    match kind {
        "rec1" | "rec2" | "rec3" => rec(kind.to_string()),
        // the completion forms: behind a reference, behind the Send + Sync erased type,
        // straight to an emitter, and the empty one
        "recRef" => {
            let c: &'static _ = Box::leak(Box::new(rec_typed("recRef")));
            DynC(Box::new(c))
        }
        "recSS" => DynC(Box::new(DynSS(Box::new(rec_typed("recSS"))))),
        "fromE" => DynC(Box::new(completion::from_emitter(RT.emitter()))),
        "empty" => DynC(Box::new(Empty)),
        "dflt" => DynC(Box::new(completion::default(RT.emitter(), RT.ctxt()))),
        "dfltl" => DynC(Box::new(completion::default(RT.emitter(), RT.ctxt()).with_lvl(Level::Info))),
        "dfltp" => DynC(Box::new(completion::default(RT.emitter(), RT.ctxt()).with_panic_lvl(Level::Warn))),
        "dfltL" => DynC(Box::new(
            completion::default(RT.emitter(), RT.ctxt()).with_lvl(Level::Info).with_panic_lvl(Level::Warn),
        )),
        // the result-aware completions the macro generates (src/macro_hooks.rs)
        "ok" => DynC(Box::new(emit::__private::__private_complete_span_ok(
            &RT,
            emit::Template::literal("t"),
            Some(&Level::Debug),
        ))),
        "err" => {
            let e: &'static std::io::Error = Box::leak(Box::new(std::io::Error::other("failed")));
            DynC(Box::new(emit::__private::__private_complete_span_err(
                &RT,
                emit::Template::literal("t"),
                &Level::Warn,
                e,
            )))
        }
        _ => tool_error(&format!("unknown completion kind {kind}")),
    }
}

// ------------------------------------------------------------------ op interpreter
#[derive(Default)]
struct Obs {
    en: Vec<Option<bool>>,
    ret: Vec<Option<bool>>,
    n: Vec<usize>,
}

type BP = Box<dyn ErasedProps>;

/// The operations that change the guard's type parameters; only the erased guard has them.
struct Retype<'a, T: Clock, P: Props, F: Completion> {
    with_props: fn(SpanGuard<'a, T, P, F>, i64) -> SpanGuard<'a, T, P, F>,
    map_props: fn(SpanGuard<'a, T, P, F>) -> SpanGuard<'a, T, P, F>,
    with_completion: fn(SpanGuard<'a, T, P, F>, &str) -> SpanGuard<'a, T, P, F>,
}

fn run_ops<T: Clock, P: Props, F: Completion>(
    g: SpanGuard<'static, T, P, F>,
    ops: &[Value],
    from: usize,
    retype: Option<&Retype<'static, T, P, F>>,
    obs: &mut Obs,
) {
    let mut guard = Some(g);
    for (i, op) in ops.iter().enumerate().skip(from) {
        CUR_OP.store(i, SeqCst);
        let name = op["op"].as_str().unwrap();
        let a = op["a"].as_str().unwrap();
        let g = guard.take().unwrap_or_else(|| tool_error("operation after a terminal one"));
        let mut ret = None;
        match name {
            "Start" => {
                let mut g = g;
                g.start();
                guard = Some(g);
            }
            "WithMdl" => guard = Some(g.with_mdl(Path::new_owned_raw(a.to_string()))),
            "WithName" => guard = Some(g.with_name(Str::new_owned(a.to_string()))),
            "WithProps" => guard = Some((retype.unwrap().with_props)(g, a.parse().unwrap())),
            "MapProps" => guard = Some((retype.unwrap().map_props)(g)),
            "WithCompletion" => guard = Some((retype.unwrap().with_completion)(g, a)),
            "Complete" | "CompleteWith" | "Drop" | "DropWhilePanicking" => ret = terminal(g, op, false),
            _ => tool_error(&format!("unknown op {name}")),
        }
        obs.en.push(guard.as_ref().map(|g| g.is_enabled()));
        obs.ret.push(ret);
        obs.n.push(lock(&CALLS).len());
    }
    if let Some(g) = guard {
        leftover(g);
    }
}

/// The harness's own panic payload (DropWhilePanicking and the panicking fixtures).
struct Boom;

struct OnDrop<F: FnOnce()>(Option<F>);
impl<F: FnOnce()> Drop for OnDrop<F> {
    fn drop(&mut self) {
        if let Some(f) = self.0.take() {
            f()
        }
    }
}

/// Run `f` from the Drop of another value while the thread is unwinding.
fn while_panicking<R>(f: impl FnOnce() -> R) -> R {
    let mut out: Option<Result<R, String>> = None;
    {
        let out = &mut out;
        let r = std::panic::catch_unwind(std::panic::AssertUnwindSafe(move || {
            let _d = OnDrop(Some(move || {
                if !std::thread::panicking() {
                    tool_error("while_panicking: the thread is not panicking");
                }
                // a panic of the code under test must not escape a destructor (abort)
                *out = Some(catch(f));
            }));
            std::panic::panic_any(Boom);
        }));
        match r {
            Err(e) if e.is::<Boom>() => {}
            Err(e) => std::panic::resume_unwind(e),
            Ok(()) => tool_error("while_panicking: no panic"),
        }
    }
    match out {
        Some(Ok(r)) => r,
        Some(Err(p)) => panic!("panic while completing during unwinding: {p}"),
        None => tool_error("while_panicking: closure not run"),
    }
}

/// A terminal operation on a guard of any type.  `typed`: complete_with is given the
/// completion as its concrete type instead of the boxed one.
fn terminal<T: Clock, P: Props, F: Completion>(g: SpanGuard<'static, T, P, F>, op: &Value, typed: bool) -> Option<bool> {
    let name = op["op"].as_str().unwrap();
    let a = op["a"].as_str().unwrap();
    let pan = op["x"] == "pan";
    fn cw<T: Clock, P: Props, F: Completion>(g: SpanGuard<'static, T, P, F>, c: impl Completion, pan: bool) -> bool {
        if pan {
            while_panicking(move || g.complete_with(c))
        } else {
            g.complete_with(c)
        }
    }
    match name {
        "Complete" => Some(if pan { while_panicking(move || g.complete()) } else { g.complete() }),
        "CompleteWith" if !typed => Some(cw(g, mk(a), pan)),
        "CompleteWith" => Some(match a {
            "rec3" => cw(g, rec_typed("rec3"), pan),
            "recRef" => cw(g, &rec_typed("recRef"), pan),
            "recSS" => {
                let c: Box<dyn ErasedCompletion + Send + Sync> = Box::new(rec_typed("recSS"));
                cw(g, &*c, pan)
            }
            "fromE" => cw(g, completion::FromEmitter::new(RT.emitter()), pan),
            "empty" => cw(g, Empty, pan),
            "dflt" => cw(g, completion::default(RT.emitter(), RT.ctxt()), pan),
            "dfltl" => cw(g, completion::default(RT.emitter(), RT.ctxt()).with_lvl(Level::Info), pan),
            "dfltp" => cw(g, completion::default(RT.emitter(), RT.ctxt()).with_panic_lvl(Level::Warn), pan),
            "dfltL" => cw(g, completion::default(RT.emitter(), RT.ctxt()).with_lvl(Level::Info).with_panic_lvl(Level::Warn), pan),
            "ok" => cw(g, emit::__private::__private_complete_span_ok(&RT, emit::Template::literal("t"), Some(&Level::Debug)), pan),
            "err" => cw(g, emit::__private::__private_complete_span_err(&RT, emit::Template::literal("t"), &Level::Warn, leaked_err()), pan),
            _ => tool_error(&format!("unknown completion kind {a}")),
        }),
        "Drop" => {
            drop(g);
            None
        }
        "DropWhilePanicking" => {
            let r = std::panic::catch_unwind(std::panic::AssertUnwindSafe(move || {
                let _g = g;
                std::panic::panic_any(Boom);
            }));
            if let Err(e) = r {
                if !e.is::<Boom>() {
                    std::panic::resume_unwind(e);
                }
            }
            None
        }
        _ => tool_error(&format!("unknown terminal op {name}")),
    }
}

fn note<T: Clock, P: Props, F: Completion>(obs: &mut Obs, g: &SpanGuard<'static, T, P, F>) {
    obs.en.push(Some(g.is_enabled()));
    obs.ret.push(None);
    obs.n.push(lock(&CALLS).len());
}

fn leftover<T: Clock, P: Props, F: Completion>(g: SpanGuard<'static, T, P, F>) {
    // a sequence that does not end in a terminal operation: what happens to the guard
    // afterwards is not part of this case
    CUR_OP.store(usize::MAX, SeqCst);
    let snapshot = lock(&CALLS).len();
    drop(g);
    lock(&CALLS).truncate(snapshot);
}

// ------------------------------------------------------------------ statically typed chains
/// One level of a typed chain: applies operation `i` with the concrete types the API gives
/// and hands the resulting guard to the next level.
macro_rules! level {
    ($name:ident, $next:ident) => {
        fn $name<T: Clock, P: Props, F: Completion>(g: SpanGuard<'static, T, P, F>, ops: &[Value], i: usize, obs: &mut Obs) {
            if i >= ops.len() {
                return leftover(g);
            }
            CUR_OP.store(i, SeqCst);
            let op = &ops[i];
            let a = op["a"].as_str().unwrap();
            match op["op"].as_str().unwrap() {
                "Start" => {
                    let mut g = g;
                    g.start();
                    note(obs, &g);
                    $next(g, ops, i + 1, obs)
                }
                "WithMdl" => {
                    let g = g.with_mdl(Path::new_owned_raw(a.to_string()));
                    note(obs, &g);
                    $next(g, ops, i + 1, obs)
                }
                "WithName" => {
                    let g = g.with_name(Str::new_owned(a.to_string()));
                    note(obs, &g);
                    $next(g, ops, i + 1, obs)
                }
                "WithProps" => {
                    let g = g.with_props(("a", a.parse::<i64>().unwrap()));
                    note(obs, &g);
                    $next(g, ops, i + 1, obs)
                }
                "MapProps" => {
                    let g = g.map_props(|p| p.and_props(("m", 1i64)));
                    note(obs, &g);
                    $next(g, ops, i + 1, obs)
                }
                "WithCompletion" => match a {
                    "rec2" => {
                        let g = g.with_completion(rec_typed("rec2"));
                        note(obs, &g);
                        $next(g, ops, i + 1, obs)
                    }
                    "recRef" => {
                        let c: &'static _ = Box::leak(Box::new(rec_typed("recRef")));
                        let g = g.with_completion(c);
                        note(obs, &g);
                        $next(g, ops, i + 1, obs)
                    }
                    "fromE" => {
                        let g = g.with_completion(completion::FromEmitter::new(RT.emitter()));
                        note(obs, &g);
                        $next(g, ops, i + 1, obs)
                    }
                    "empty" => {
                        let g = g.with_completion(Empty);
                        note(obs, &g);
                        $next(g, ops, i + 1, obs)
                    }
                    "dflt" => {
                        let g = g.with_completion(completion::default(RT.emitter(), RT.ctxt()));
                        note(obs, &g);
                        $next(g, ops, i + 1, obs)
                    }
                    "dfltl" => {
                        let g = g.with_completion(completion::default(RT.emitter(), RT.ctxt()).with_lvl(Level::Info));
                        note(obs, &g);
                        $next(g, ops, i + 1, obs)
                    }
                    "dfltL" => {
                        let g = g.with_completion(
                            completion::default(RT.emitter(), RT.ctxt()).with_lvl(Level::Info).with_panic_lvl(Level::Warn),
                        );
                        note(obs, &g);
                        $next(g, ops, i + 1, obs)
                    }
                    _ => tool_error(&format!("unknown completion kind {a}")),
                },
                _ => {
                    let r = terminal(g, op, true);
                    obs.en.push(None);
                    obs.ret.push(r);
                    obs.n.push(lock(&CALLS).len());
                    if i + 1 != ops.len() {
                        tool_error("operation after a terminal one");
                    }
                }
            }
        }
    };
}
level!(level0, level1);
level!(level1, level2);
level!(level2, level3);
level!(level3, level_end);
fn level_end<T: Clock, P: Props, F: Completion>(g: SpanGuard<'static, T, P, F>, ops: &[Value], i: usize, _: &mut Obs) {
    if i < ops.len() {
        tool_error("typed chains are stamped for <= 3 operations before the terminal one");
    }
    leftover(g)
}

/// `via_macro`: the guard comes from `emit::new_span!` instead of `SpanGuard::new`.
fn run_typed(case: &Value, via_macro: bool, obs: &mut Obs) {
    let ops = case["ops"].as_array().unwrap();
    let comp = ops[0]["a"].as_str().unwrap();
    macro_rules! go {
        ($pair:expr) => {{
            let (guard, frame) = $pair;
            note(obs, &guard);
            frame.call(move || {
                note_ids();
                level0(guard, ops, 1, obs);
            })
        }};
    }
    macro_rules! new {
        ($c:expr) => {
            SpanGuard::new(RT.filter(), RT.ctxt(), RT.clock(), RT.rng(), $c, Empty, Path::new_raw("m0"), "n0", ("a", 0i64))
        };
    }
    match (comp, via_macro) {
        ("rec1", false) => go!(new!(rec_typed("rec1"))),
        ("dflt", false) => go!(new!(completion::default(RT.emitter(), RT.ctxt()))),
        ("dfltl", false) => go!(new!(completion::default(RT.emitter(), RT.ctxt()).with_lvl(Level::Info))),
        ("dfltp", false) => go!(new!(completion::default(RT.emitter(), RT.ctxt()).with_panic_lvl(Level::Warn))),
        ("dfltL", false) => go!(new!(completion::default(RT.emitter(), RT.ctxt()).with_lvl(Level::Info).with_panic_lvl(Level::Warn))),
        ("dflt", true) => go!(emit::new_span!(rt: RT, mdl: emit::Path::new_raw("m0"), "n0", a: 0)),
        ("dfltl", true) => go!(emit::new_info_span!(rt: RT, mdl: emit::Path::new_raw("m0"), "n0", a: 0)),
        ("dfltp", true) => go!(emit::new_span!(rt: RT, mdl: emit::Path::new_raw("m0"), panic_lvl: emit::Level::Warn, "n0", a: 0)),
        ("dfltL", true) => go!(emit::new_info_span!(rt: RT, mdl: emit::Path::new_raw("m0"), panic_lvl: emit::Level::Warn, "n0", a: 0)),
        _ => tool_error(&format!("typed chain: completion kind {comp}")),
    }
}

fn run_erased(case: &Value, obs: &mut Obs) {
    let ops = case["ops"].as_array().unwrap();
    let new = &ops[0];
    let (guard, frame) = SpanGuard::new(
        RT.filter(),
        RT.ctxt(),
        RT.clock(),
        RT.rng(),
        mk(new["a"].as_str().unwrap()),
        Empty,
        Path::new_raw("m0"),
        "n0",
        Box::new(("a", 0i64)) as BP,
    );
    obs.en.push(Some(guard.is_enabled()));
    obs.ret.push(None);
    obs.n.push(lock(&CALLS).len());
    let retype: Retype<'static, &SClock, BP, DynC> = Retype {
        with_props: |g, v| g.with_props(Box::new(("a", v)) as BP),
        map_props: |g| g.map_props(|p| Box::new(p.and_props(("m", 1i64))) as BP),
        with_completion: |g, c| g.with_completion(mk(c)),
    };
    if case["frame"] == "in" {
        frame.call(move || {
            note_ids();
            run_ops(guard, ops, 1, Some(&retype), obs);
        });
    } else {
        drop(frame);
        run_ops(guard, ops, 1, Some(&retype), obs);
    }
}

// ------------------------------------------------------------------ macro fixtures
fn fail() -> Result<u32, std::io::Error> {
    Err(std::io::Error::other("failed"))
}

/// A future that is pending once, so that the span's future is re-entered.
struct YieldOnce(bool);
impl Future for YieldOnce {
    type Output = ();
    fn poll(mut self: Pin<&mut Self>, cx: &mut Context<'_>) -> Poll<()> {
        if self.0 {
            Poll::Ready(())
        } else {
            self.0 = true;
            cx.waker().wake_by_ref();
            Poll::Pending
        }
    }
}

struct NoopWake;
impl Wake for NoopWake {
    fn wake(self: std::sync::Arc<Self>) {}
}

fn block_on<R>(f: impl Future<Output = R>) -> R {
    let mut f = Box::pin(f);
    let waker = Waker::from(std::sync::Arc::new(NoopWake));
    let mut cx = Context::from_waker(&waker);
    for _ in 0..100 {
        if let Poll::Ready(r) = f.as_mut().poll(&mut cx) {
            return r;
        }
    }
    tool_error("fixture future did not finish");
}

fn plain_body(exit: &str) -> Option<u32> {
    note_ids();
    CUR_OP.store(2, SeqCst);
    match exit {
        "early" => Some(1),
        "panic" => std::panic::panic_any(Boom),
        _ => None,
    }
}

macro_rules! plain_fixtures {
    ($sync:ident, $asyn:ident, $blk:ident, #[$($attr:tt)*]) => {
        // the attribute on a sync block expression (the value of a `let`); `return` leaves the block
        #[cfg(feature = "blocks")]
        pub(crate) fn $blk(exit: &str) -> u32 {
            let v: u32 = #[$($attr)*]
            {
                if let Some(v) = plain_body(exit) {
                    return v;
                }
                2
            };
            v
        }
        #[$($attr)*]
        pub(crate) fn $sync(exit: &str) -> u32 {
            if let Some(v) = plain_body(exit) {
                return v;
            }
            2
        }
        #[$($attr)*]
        pub(crate) async fn $asyn(exit: &str) -> u32 {
            YieldOnce(false).await;
            if let Some(v) = plain_body(exit) {
                return v;
            }
            YieldOnce(false).await;
            2
        }
    };
}


macro_rules! result_fixtures {
    ($sync:ident, $asyn:ident, $blk:ident, #[$($attr:tt)*]) => {
        #[cfg(feature = "blocks")]
        pub(crate) fn $blk(exit: &str) -> Result<u32, std::io::Error> {
            let r: Result<u32, std::io::Error> = #[$($attr)*]
            {
                note_ids();
                CUR_OP.store(2, SeqCst);
                match exit {
                    "early_ok" => return Ok(1),
                    "early_err" => return Err(std::io::Error::other("failed")),
                    "q_err" => {
                        fail()?;
                    }
                    "panic" => std::panic::panic_any(Boom),
                    _ => {}
                }
                Ok(2)
            };
            r
        }
        #[$($attr)*]
        pub(crate) fn $sync(exit: &str) -> Result<u32, std::io::Error> {
            note_ids();
            CUR_OP.store(2, SeqCst);
            match exit {
                "early_ok" => return Ok(1),
                "early_err" => return Err(std::io::Error::other("failed")),
                "q_err" => {
                    fail()?;
                }
                "panic" => std::panic::panic_any(Boom),
                _ => {}
            }
            Ok(2)
        }
        #[$($attr)*]
        pub(crate) async fn $asyn(exit: &str) -> Result<u32, std::io::Error> {
            YieldOnce(false).await;
            note_ids();
            CUR_OP.store(2, SeqCst);
            match exit {
                "early_ok" => return Ok(1),
                "early_err" => return Err(std::io::Error::other("failed")),
                "q_err" => {
                    fail()?;
                }
                "panic" => std::panic::panic_any(Boom),
                _ => {}
            }
            YieldOnce(false).await;
            Ok(2)
        }
    };
}


macro_rules! guard_fixtures {
    ($sync:ident, $asyn:ident, $blk:ident, $g:ident, #[$($attr:tt)*]) => {
        // the attribute on a sync block in statement position
        #[cfg(feature = "blocks")]
        pub(crate) fn $blk(ops: &[Value], obs: &mut Obs) {
            #[$($attr)*]
            {
                note_ids();
                for _ in 0..2 {
                    obs.en.push(Some($g.is_enabled()));
                    obs.ret.push(None);
                    obs.n.push(lock(&CALLS).len());
                }
                run_ops($g, ops, 2, None, obs);
            }
        }
        #[$($attr)*]
        pub(crate) fn $sync(ops: &[Value], obs: &mut Obs) {
            note_ids();
            // New and Start were performed by the expansion
            for _ in 0..2 {
                obs.en.push(Some($g.is_enabled()));
                obs.ret.push(None);
                obs.n.push(lock(&CALLS).len());
            }
            run_ops($g, ops, 2, None, obs);
        }
        #[$($attr)*]
        pub(crate) async fn $asyn(ops: &[Value], obs: &mut Obs) {
            YieldOnce(false).await;
            note_ids();
            for _ in 0..2 {
                obs.en.push(Some($g.is_enabled()));
                obs.ret.push(None);
                obs.n.push(lock(&CALLS).len());
            }
            run_ops($g, ops, 2, None, obs);
            YieldOnce(false).await;
        }
    };
}


// `setup:` - the function runs before the span is created, the value it returns is dropped
// after the body's frame returned (after the completion)
struct SetupGuard;
impl Drop for SetupGuard {
    fn drop(&mut self) {
        mark("setup_drop");
    }
}
fn do_setup() -> SetupGuard {
    mark("setup");
    SetupGuard
}

// `err:` - the function's error type is not an error; the mapper hands out the one inside
struct Opaque(std::io::Error);
fn map_err(e: &Opaque) -> &(dyn std::error::Error + 'static) {
    &e.0
}
fn fail_m() -> Result<u32, Opaque> {
    Err(Opaque(std::io::Error::other("mapped")))
}

macro_rules! resultm_fixtures {
    ($sync:ident, $asyn:ident, $blk:ident, #[$($attr:tt)*]) => {
        #[cfg(feature = "blocks")]
        pub(crate) fn $blk(exit: &str) -> Result<u32, Opaque> {
            let r: Result<u32, Opaque> = #[$($attr)*]
            {
                note_ids();
                CUR_OP.store(2, SeqCst);
                match exit {
                    "early_ok" => return Ok(1),
                    "early_err" => return Err(Opaque(std::io::Error::other("mapped"))),
                    "q_err" => {
                        fail_m()?;
                    }
                    "panic" => std::panic::panic_any(Boom),
                    _ => {}
                }
                Ok(2)
            };
            r
        }
        #[$($attr)*]
        pub(crate) fn $sync(exit: &str) -> Result<u32, Opaque> {
            note_ids();
            CUR_OP.store(2, SeqCst);
            match exit {
                "early_ok" => return Ok(1),
                "early_err" => return Err(Opaque(std::io::Error::other("mapped"))),
                "q_err" => {
                    fail_m()?;
                }
                "panic" => std::panic::panic_any(Boom),
                _ => {}
            }
            Ok(2)
        }
        #[$($attr)*]
        pub(crate) async fn $asyn(exit: &str) -> Result<u32, Opaque> {
            YieldOnce(false).await;
            note_ids();
            CUR_OP.store(2, SeqCst);
            match exit {
                "early_ok" => return Ok(1),
                "early_err" => return Err(Opaque(std::io::Error::other("mapped"))),
                "q_err" => {
                    fail_m()?;
                }
                "panic" => std::panic::panic_any(Boom),
                _ => {}
            }
            YieldOnce(false).await;
            Ok(2)
        }
    };
}

/// All attribute forms for one combination of the span's level (absent: #[span], present:
/// #[info_span]) and `panic_lvl` (absent / present), i.e. the default completions dflt,
/// dfltl, dfltp, dfltL of the specification.  Result forms: ok_lvl and err_lvl each absent
/// or present; the `err:` mapper with and without levels.
macro_rules! base_mod {
    ($m:ident, $span:ident, [$($extra:tt)*]) => {
        #[allow(non_snake_case)]
        mod $m {
            use super::*;
            plain_fixtures!(plain, plain_async, plain_block, #[emit::$span(rt: RT, mdl: emit::Path::new_raw("m0"), $($extra)* "n0", a: 0)]);
            plain_fixtures!(setup, setup_async, setup_block, #[emit::$span(rt: RT, mdl: emit::Path::new_raw("m0"), setup: do_setup, $($extra)* "n0", a: 0)]);
            result_fixtures!(result, result_async, result_block, #[emit::$span(rt: RT, mdl: emit::Path::new_raw("m0"), ok_lvl: emit::Level::Debug, err_lvl: emit::Level::Warn, $($extra)* "n0", a: 0)]);
            result_fixtures!(result_o, result_o_async, result_o_block, #[emit::$span(rt: RT, mdl: emit::Path::new_raw("m0"), ok_lvl: emit::Level::Debug, $($extra)* "n0", a: 0)]);
            result_fixtures!(result_e, result_e_async, result_e_block, #[emit::$span(rt: RT, mdl: emit::Path::new_raw("m0"), err_lvl: emit::Level::Warn, $($extra)* "n0", a: 0)]);
            resultm_fixtures!(resultm, resultm_async, resultm_block, #[emit::$span(rt: RT, mdl: emit::Path::new_raw("m0"), ok_lvl: emit::Level::Debug, err_lvl: emit::Level::Warn, err: map_err, $($extra)* "n0", a: 0)]);
            resultm_fixtures!(resultm_m, resultm_m_async, resultm_m_block, #[emit::$span(rt: RT, mdl: emit::Path::new_raw("m0"), err: map_err, $($extra)* "n0", a: 0)]);
            guard_fixtures!(guard, guard_async, guard_block, g, #[emit::$span(rt: RT, mdl: emit::Path::new_raw("m0"), guard: g, $($extra)* "n0", a: 0)]);
        }
    };
}
base_mod!(dflt, span, []);
base_mod!(dfltl, info_span, []);
base_mod!(dfltp, span, [panic_lvl: emit::Level::Warn,]);
base_mod!(dfltL, info_span, [panic_lvl: emit::Level::Warn,]);

/// `emit::new_span!` and manual handling of the guard: nothing is automatic, the
/// operations (type-keeping ones, any order) run inside the frame - `Frame::call` or
/// `Frame::in_future`.
fn run_newspan(case: &Value, asyn: bool, obs: &mut Obs) {
    let ops = case["ops"].as_array().unwrap();
    macro_rules! go {
        ($pair:expr) => {{
            let (guard, frame) = $pair;
            note(obs, &guard);
            if asyn {
                block_on(frame.in_future(async move {
                    YieldOnce(false).await;
                    note_ids();
                    run_ops(guard, ops, 1, None, obs);
                    YieldOnce(false).await;
                }))
            } else {
                frame.call(move || {
                    note_ids();
                    run_ops(guard, ops, 1, None, obs);
                })
            }
        }};
    }
    match ops[0]["a"].as_str().unwrap() {
        "dflt" => go!(emit::new_span!(rt: RT, mdl: emit::Path::new_raw("m0"), "n0", a: 0)),
        "dfltl" => go!(emit::new_info_span!(rt: RT, mdl: emit::Path::new_raw("m0"), "n0", a: 0)),
        "dfltp" => go!(emit::new_span!(rt: RT, mdl: emit::Path::new_raw("m0"), panic_lvl: emit::Level::Warn, "n0", a: 0)),
        "dfltL" => go!(emit::new_info_span!(rt: RT, mdl: emit::Path::new_raw("m0"), panic_lvl: emit::Level::Warn, "n0", a: 0)),
        c => tool_error(&format!("new_span! with completion kind {c}")),
    }
}

/// `m::f(args)` of the block-carrier fixture; without the `blocks` feature (stable toolchain)
/// the block fixtures do not exist and the carrier is never selected.
#[cfg(feature = "blocks")]
macro_rules! blk {
    ($e:expr) => {
        $e
    };
}
#[cfg(not(feature = "blocks"))]
macro_rules! blk {
    ($e:expr) => {
        tool_error("this binary was built without the block carrier (feature `blocks`)")
    };
}

/// Run the macro fixture for the case; `asyn` selects the async fn carrier, `block` the
/// sync-block carrier (the attribute on a block expression).
fn run_macro(case: &Value, asyn: bool, block: bool, obs: &mut Obs) {
    let ops = case["ops"].as_array().unwrap();
    let comp = ops[0]["a"].as_str().unwrap();
    let form = case["form"].as_str().unwrap();
    if !["dflt", "dfltl", "dfltp", "dfltL"].contains(&comp) {
        tool_error("macro form with a non-default completion");
    }
    if form == "newspan" {
        return run_newspan(case, asyn, obs);
    }
    // readings taken by the expansion before the body runs belong to Start
    CUR_OP.store(1, SeqCst);
    if ops.len() < 2 {
        // the expansion cannot be stopped between New and Start
        return;
    }
    /// the fixtures of one base module
    macro_rules! in_base {
        ($m:ident, $exit:expr) => {{
            let want_ok = $exit == "ok" || $exit == "early_ok";
            // the function's own result must pass through unchanged
            macro_rules! res {
                ($f:ident, $fa:ident, $fb:ident) => {{
                    let r = if block { blk!($m::$fb($exit).is_ok()) } else if asyn { block_on($m::$fa($exit)).is_ok() } else { $m::$f($exit).is_ok() };
                    if r != want_ok {
                        panic!("fixture result altered by the expansion");
                    }
                }};
            }
            match form {
                "guard" => {
                    if block {
                        blk!($m::guard_block(ops, obs))
                    } else if asyn {
                        block_on($m::guard_async(ops, obs))
                    } else {
                        $m::guard(ops, obs)
                    }
                }
                "plain" => {
                    let _ = if block { blk!($m::plain_block($exit)) } else if asyn { block_on($m::plain_async($exit)) } else { $m::plain($exit) };
                }
                "setup" => {
                    let _ = if block { blk!($m::setup_block($exit)) } else if asyn { block_on($m::setup_async($exit)) } else { $m::setup($exit) };
                }
                "result" => res!(result, result_async, result_block),
                "result_o" => res!(result_o, result_o_async, result_o_block),
                "result_e" => res!(result_e, result_e_async, result_e_block),
                "resultM" => res!(resultm, resultm_async, resultm_block),
                "resultM_m" => res!(resultm_m, resultm_m_async, resultm_m_block),
                f => tool_error(&format!("unknown form {f}")),
            }
        }};
    }
    macro_rules! dispatch {
        ($exit:expr) => {
            match comp {
                "dflt" => in_base!(dflt, $exit),
                "dfltl" => in_base!(dfltl, $exit),
                "dfltp" => in_base!(dfltp, $exit),
                _ => in_base!(dfltL, $exit),
            }
        };
    }
    if form == "guard" {
        dispatch!("");
        return;
    }
    // plain / setup / result forms: New; Start; [terminal named by the exit path]
    let exit = if ops.len() > 2 { ops[2]["x"].as_str().unwrap() } else { "" };
    if ops.len() == 2 {
        // the line ends after Start: the fixture cannot stop there; nothing to decide
        // beyond what the line with the terminal operation decides
        return;
    }
    let r = std::panic::catch_unwind(std::panic::AssertUnwindSafe(|| dispatch!(exit)));
    if let Err(e) = r {
        if !(e.is::<Boom>() && exit == "panic") {
            std::panic::resume_unwind(e);
        }
    }
    // observations of the three operations: only the number of calls at the end is
    // visible from outside the function
    let n = lock(&CALLS).len();
    obs.en = vec![None, None, None];
    obs.ret = vec![None, None, None];
    obs.n = vec![0, 0, n];
}

// ------------------------------------------------------------------ comparison
/// Mismatches with the statement's prediction; `drift` receives differences in what only
/// level B predicts (lvl / err of an explicit completion made while unwinding).
fn compare(case: &Value, obs: &Obs, is_macro: bool, drift: &mut Vec<Value>) -> Vec<(String, Value)> {
    let mut out = Vec::new();
    let ops = case["ops"].as_array().unwrap();
    let calls = lock(&CALLS).clone();
    let clock_log = lock(&CLOCK).log.clone();
    let opaque = is_macro && case["form"] != "guard" && case["form"] != "newspan" && case["form"] != "none";
    // the empty completion: the span completes (return value, state) with nothing to observe
    let invisible = case["expect"].as_array().map(|e| e.len() == 1 && e[0]["cid"] == "empty").unwrap_or(false);
    for (i, op) in ops.iter().enumerate() {
        if i >= obs.n.len() {
            break;
        }
        let name = op["op"].as_str().unwrap();
        if let Some(en) = obs.en[i] {
            if en != op["en"].as_bool().unwrap() {
                out.push((format!("is_enabled differs from the filter verdict after {name}"),
                    json!({"op_index": i, "want": op["en"], "got": en})));
            }
        }
        if let Some(r) = obs.ret[i] {
            let want = op["ret"].as_str().unwrap();
            if want != "na" && (want == "true") != r {
                out.push((format!("{name} returned {r}, the statement says {want}"),
                    json!({"op_index": i, "want": want, "got": r})));
            }
        }
        let want_n = op["n"].as_u64().unwrap() - if invisible && i + 1 == ops.len() { 1 } else { 0 };
        if !(opaque && i < 2) && obs.n[i] as u64 != want_n {
            out.push((format!("{} completion call(s) after {name}, the statement says {}", obs.n[i], op["n"]),
                json!({"op_index": i, "calls": calls})));
        }
    }
    if case["form"] == "setup" && case["done"] == true {
        let trail: Vec<Value> = lock(&TRAIL).iter().map(|m| json!(m)).collect();
        if case["trail"] != json!(trail) {
            out.push((format!("setup / completion order {:?}, the statement says {}", lock(&TRAIL), case["trail"]), json!({"trail": trail})));
        }
    }
    let expect = case["expect"].as_array().unwrap();
    if invisible {
        if !calls.is_empty() {
            out.push((format!("{} completion call(s) observed with the empty completion", calls.len()), json!({"calls": calls})));
        }
        return out;
    }
    if calls.len() != expect.len() {
        out.push((format!("{} completion call(s) at the end, the statement says {}", calls.len(), expect.len()),
            json!({"calls": calls})));
        return out;
    }
    for (e, c) in expect.iter().zip(calls.iter()) {
        let cid = e["cid"].as_str().unwrap();
        let via_emitter = !cid.starts_with("rec");
        let want_cid = if via_emitter { "emitter" } else { cid };
        let mut diff = Vec::new();
        if c["cid"] != want_cid {
            diff.push(format!("completion {} called, want {}", c["cid"], want_cid));
        }
        if c["mdl"] != e["mdl"] {
            diff.push(format!("mdl {} want {}", c["mdl"], e["mdl"]));
        }
        if c["name"] != e["name"] {
            diff.push(format!("name {} want {}", c["name"], e["name"]));
        }
        // macro forms carry `a` as a context property: only visible through an emitter that is
        // given the ambient context (a recording completion sees the span's own properties only,
        // and so does the emitter behind completion::from_emitter, which gets the span as it is)
        let own_props_only = !via_emitter || cid == "fromE";
        if !(is_macro && own_props_only && c["a"].is_null() && e["props"]["a"] == 0) && c["a"] != e["props"]["a"] {
            diff.push(format!("props.a {} want {}", c["a"], e["props"]["a"]));
        }
        if c["m"] != e["props"]["m"] {
            diff.push(format!("props.m {} want {}", c["m"], e["props"]["m"]));
        }
        if via_emitter {
            let mut ldiff = Vec::new();
            let want_lvl = e["lvl"].as_str().unwrap();
            let got_lvl = c["lvl"].as_str().unwrap_or("none");
            if want_lvl != got_lvl {
                ldiff.push(format!("lvl {got_lvl} want {want_lvl}"));
            }
            let got_err = c["err"].as_str();
            let ok = match e["err"].as_str().unwrap() {
                "none" => got_err.is_none(),
                "panicked" => got_err == Some("panicked"),
                "mapped" => got_err == Some("mapped"),
                "some" => got_err.is_some(),
                _ => true,
            };
            if !ok {
                ldiff.push(format!("err {:?} want {}", got_err, e["err"]));
            }
            if e["lvlAny"] == true {
                // the statement is silent here; the prediction is level B's
                if !ldiff.is_empty() {
                    drift.push(json!({"what": ldiff.join("; "), "case": case}));
                }
            } else {
                diff.extend(ldiff);
            }
            if c["kind"] != "span" {
                diff.push(format!("evt_kind {} want span", c["kind"]));
            }
            // from_emitter hands the span to the emitter without the ambient context
            if case["frame"] == "in" && cid != "fromE" {
                let ids = lock(&IDS).clone();
                if ids.is_none() || c["span_id"].as_str().map(|s| s.to_string()) != ids || c["trace_id"].is_null() {
                    diff.push(format!("ids {} / {} but the span's id is {:?}", c["trace_id"], c["span_id"], ids));
                }
            }
        }
        if !e["extentAny"].as_bool().unwrap() {
            // relational: start in the readings handed out during the first Start, end
            // in those handed out during the terminal operation
            let first_start = ops.iter().position(|o| o["op"] == "Start").unwrap_or(usize::MAX);
            let term = ops.len() - 1;
            let at = |k: usize| clock_log.iter().filter(|(o, _)| *o == k).map(|(_, r)| *r).collect::<Vec<_>>();
            let ok = match c["extent"]["range"].as_array() {
                Some(r) => {
                    at(first_start).contains(&r[0].as_u64().unwrap()) && at(term).contains(&r[1].as_u64().unwrap())
                }
                None => false,
            };
            if !ok {
                diff.push(format!(
                    "extent {} but readings at start {:?}, at completion {:?}",
                    c["extent"], at(first_start), at(term)
                ));
            }
        }
        if !diff.is_empty() {
            out.push((format!("completed span differs: {}", diff.join("; ")), json!({"call": c, "want": e, "clock_log": clock_log})));
        }
    }
    out
}

struct Tally {
    by_form: std::collections::BTreeMap<String, u64>,
    completions: u64,
    probed: u64,
    drift: Vec<Value>,
    drift_total: u64,
    typed: bool,
    blocks_only: bool,
}

fn decide(case: &Value, rep: &mut Report, t: &mut Tally) {
    let verdict = case["verdict"].as_bool().unwrap();
    let script: Vec<u64> = case["script"].as_array().unwrap().iter().map(|v| v.as_u64().unwrap()).collect();
    let form = case["form"].as_str().unwrap().to_string();
    let comp = case["ops"][0]["a"].as_str().unwrap();
    // (label, executor, async)   executor 3 = attribute / new_span! fixture, 4 = attribute on a block
    let mut variants: Vec<(&str, u8, bool)> = Vec::new();
    if t.blocks_only {
        // this binary (built with the unstable features) runs the block carrier and nothing else
        if case["carriers"].as_array().map_or(false, |c| c.iter().any(|x| x == "block")) {
            variants.push(("macro-block", 4, false));
        }
    } else
    if form == "none" {
        variants.push(("guard", 0, false));
        if t.typed {
            variants.push(("typed", 1, false));
            if comp.starts_with("dflt") {
                variants.push(("typed-new_span!", 2, false));
            }
        }
    } else {
        variants.push(("macro-sync", 3, false));
        variants.push(("macro-async", 3, true));
    }
    for (label, exec, asyn) in variants {
        reset_env(verdict, &script);
        let mut obs = Obs::default();
        let r = catch(|| match exec {
            0 => run_erased(case, &mut obs),
            1 => run_typed(case, false, &mut obs),
            2 => run_typed(case, true, &mut obs),
            3 => run_macro(case, asyn, false, &mut obs),
            _ => run_macro(case, false, true, &mut obs),
        });
        match r {
            Err(p) => {
                rep.checks += 1;
                rep.mismatch(&format!("panic in the code under test ({label})"), case, json!(p))
            }
            Ok(()) => {
                let nops = case["ops"].as_array().unwrap().len();
                let hand = form == "guard" || form == "newspan";
                if exec >= 3 && ((form != "newspan" && nops < 2) || (!hand && nops == 2)) {
                    continue;
                }
                *t.by_form.entry(format!("{form}/{label}")).or_default() += 1;
                rep.checks += 1;
                t.completions += lock(&CALLS).len() as u64;
                let mut drift = Vec::new();
                for (what, detail) in compare(case, &obs, exec >= 2, &mut drift) {
                    rep.mismatch(&format!("{what} ({label})"), case, detail);
                }
                t.drift_total += drift.len() as u64;
                for d in drift {
                    if t.drift.len() < 5 {
                        t.drift.push(d);
                    }
                }
            }
        }
    }
}

fn main() {
    let args: Vec<String> = std::env::args().collect();
    let (cases, out) = (&args[1], &args[2]);
    let typed = args.get(3).map(|s| s == "typed").unwrap_or(false);
    let blocks_only = args.get(3).map(|s| s == "blocks").unwrap_or(false);
    if blocks_only && !cfg!(feature = "blocks") {
        tool_error("mode `blocks` needs the binary built with --features blocks");
    }
    quiet_panics();
    let mut rep = Report::new();
    let mut t = Tally { by_form: Default::default(), completions: 0, probed: 0, drift: Vec::new(), drift_total: 0, typed, blocks_only };
    for_each_case(cases, |_, case| {
        rep.cases += 1;
        if typed {
            // every sequence followed by a terminal operation is a line of its own
            if case["done"] == true {
                decide(case, &mut rep, &mut t);
            }
            return;
        }
        decide(case, &mut rep, &mut t);
        // every non-terminal edge is followed by every terminal operation (the edge may be a
        // self-loop of the specification; a corrupted guard only shows when it ends)
        let probes = case["probes"].as_array().map(|v| v.as_slice()).unwrap_or(&[]);
        for pr in probes {
            // <<op, a, ret, n, cid, lvl, err, pan, lvlAny>>
            let mut ext = case.clone();
            let n = pr[3].as_u64().unwrap();
            let pan = pr[7] == true && pr[0] != "DropWhilePanicking";
            ext["ops"].as_array_mut().unwrap().push(json!({
                "op": pr[0], "a": pr[1], "x": if pan { "pan" } else { "" }, "en": case["verdict"], "ret": pr[2], "n": n}));
            ext["done"] = json!(true);
            ext["probes"] = json!([]);
            ext["expect"] = if n == 0 {
                json!([])
            } else {
                let mut e = case["probeBase"][0].clone();
                e["cid"] = pr[4].clone();
                e["lvl"] = pr[5].clone();
                e["err"] = pr[6].clone();
                e["lvlAny"] = pr[8].clone();
                json!([e])
            };
            ext["probeBase"] = json!([]);
            t.probed += 1;
            decide(&ext, &mut rep, &mut t);
        }
    });
    rep.extra.insert("probe_cases".into(), json!(t.probed));
    rep.extra.insert("executions".into(), json!(t.by_form));
    rep.extra.insert("completions_observed".into(), json!(t.completions));
    rep.extra.insert("drift_total".into(), json!(t.drift_total));
    rep.extra.insert("drift".into(), json!(t.drift));
    rep.write(out);
}
