//! C04: replay every transition of spec/Span.tla on the real span machinery.
//!
//! Steps (all on the runtime's ThreadLocalCtxt):
//!   begin {i, f, v}      fused begin+enter through a macro form, filter verdict v
//!   new {i, f, v}        new_span! / SpanGuard::new: guard + frame stored, not entered
//!   enter {f, i}         enter an idle frame (a span frame takes its guard along and starts it)
//!   end / exit           leave the innermost span / plain frame
//!   spawn {f, k, i}      Frame::in_future (span guard moves into the async block)
//!   lazy {k}             call an #[emit::span] async fn (nothing runs yet)
//!   poll {k, first, i, f, v} / yield / complete
//!   event                emit!
//!   incoming {f, ids}    Frame::push of incoming trace id + span id (typed / hex / integers)
//!   current {f}          Frame::current
//! Every step carries `emits` (records the step must emit: kind + [trace, span id, parent]) and
//! `exp` (SpanCtxt::current predicted for every thread).  Ids are compared up to a bijection.
use std::collections::HashMap;
use std::future::Future;
use std::pin::Pin;
use std::sync::atomic::{AtomicBool, AtomicU64, Ordering};
use std::sync::{Arc, Mutex};
use std::task::Poll;

use emit::platform::thread_local_ctxt::ThreadLocalCtxt;
use emit::runtime::Runtime;
use emit::span::{SpanCtxt, SpanGuard};
use emit::{Filter, Frame, Props};
use vh_span::world::*;
use vh_span::*;

/// The runtime filter: the scripted verdict for span-start events, everything else passes.
#[derive(Default)]
struct FilterState {
    verdict: AtomicBool,
    consulted: AtomicU64,
}

#[derive(Clone)]
struct ScriptFilter(Arc<FilterState>);

impl Filter for ScriptFilter {
    fn matches<E: emit::event::ToEvent>(&self, evt: E) -> bool {
        let evt = evt.to_event();
        if emit::kind::is_span_filter().matches(&evt) {
            self.0.consulted.fetch_add(1, Ordering::Relaxed);
            self.0.verdict.load(Ordering::Relaxed)
        } else {
            true
        }
    }
}

type F0<R> = Frame<&'static <R as RtT>::C>;

trait GuardObj<R: RtT>: Send {
    fn start_it(&mut self);
    /// Complete the span inside its frame: by drop, `complete()`, or `complete_with(..)`.
    fn finish(self: Box<Self>, how: u64, m: &'static M04<R>);
}

impl<'a, R: RtT, T: emit::Clock + Send, P: emit::Props + Send, C: emit::span::completion::Completion + Send> GuardObj<R>
    for SpanGuard<'a, T, P, C>
{
    fn start_it(&mut self) {
        self.start()
    }
    fn finish(self: Box<Self>, how: u64, m: &'static M04<R>) {
        match how % 3 {
            0 => drop(self),
            1 => {
                (*self).complete();
            }
            _ => {
                (*self).complete_with(emit::span::completion::default(m.rt.get().emitter(), m.rt.get().ctxt()));
            }
        }
    }
}

/// An id type of another library: all `emit` can do with it is format it.
struct ForeignId(String);
impl std::fmt::Display for ForeignId {
    fn fmt(&self, f: &mut std::fmt::Formatter) -> std::fmt::Result {
        f.write_str(&self.0)
    }
}

/// Something that is only `Display`, borrowed (stands for `format_args!`).
struct Shown<'a>(&'a str);
impl<'a> std::fmt::Display for Shown<'a> {
    fn fmt(&self, f: &mut std::fmt::Formatter) -> std::fmt::Result {
        write!(f, "{}", self.0)
    }
}
fn format_args_owned(s: &str) -> Shown<'_> {
    Shown(s)
}

/// The error of the Result-returning fixtures; it carries the interpreter's state out.
#[derive(Debug)]
struct LeaveErr(Leave);
impl std::fmt::Display for LeaveErr {
    fn fmt(&self, f: &mut std::fmt::Formatter) -> std::fmt::Result {
        f.write_str("scripted error result")
    }
}
impl std::error::Error for LeaveErr {}

fn either(r: Result<Leave, LeaveErr>) -> Leave {
    match r {
        Ok(l) | Err(LeaveErr(l)) => l,
    }
}

type Guard<R> = Box<dyn GuardObj<R>>;

enum SFrame<R: RtT> {
    Plain(F0<R>),
    Span(F0<R>, Guard<R>),
}

type Task = Pin<Box<dyn Future<Output = Leave> + Send>>;

struct M04<R: RtT> {
    rt: &'static R,
    form: &'static str,
    fstate: Arc<FilterState>,
    rows: RecEmitter,
    frames: Mutex<HashMap<u64, SFrame<R>>>,
    tasks: Mutex<HashMap<u64, Task>>,
    salt: AtomicU64,
    /// ids the last `begin` step drew by hand (kinds "drawn" / "root"): [trace, span id, parent]
    drawn: Mutex<Option<[Option<String>; 3]>>,
}

/// The id-source kind of a `begin` step (older replay files say true / false).
fn ex_kind(step: &Value) -> &str {
    match &step["ex"] {
        Value::Bool(true) => "all",
        Value::String(s) => s.as_str(),
        _ => "gen",
    }
}

// ---------------------------------------------------------------- macro fixtures
// Every span node of a program runs one of these; the body calls back into the interpreter.

#[emit::span(rt: m.rt.get(), "sync fn span")]
fn form_sync_fn<R: RtT>(m: &'static M04<R>) -> Leave {
    reply_ok();
    run_loop(m)
}

#[emit::info_span(rt: m.rt.get(), "sync fn span with level")]
fn form_sync_lvl<R: RtT>(m: &'static M04<R>) -> Leave {
    reply_ok();
    run_loop(m)
}

#[emit::span(rt: m.rt.get(), guard: span, "sync fn span with guard")]
fn form_sync_guard<R: RtT>(m: &'static M04<R>) -> Leave {
    reply_ok();
    let l = run_loop(m);
    span.complete();
    l
}

// completion through `complete_with` (the expansion of ok_lvl / err_lvl), Ok and Err results
#[emit::span(rt: m.rt.get(), ok_lvl: emit::Level::Debug, "sync fn span with Ok result")]
fn form_sync_result_ok<R: RtT>(m: &'static M04<R>) -> Result<Leave, LeaveErr> {
    reply_ok();
    Ok(run_loop(m))
}

#[emit::span(rt: m.rt.get(), err_lvl: emit::Level::Warn, "sync fn span with Err result")]
fn form_sync_result_err<R: RtT>(m: &'static M04<R>) -> Result<Leave, LeaveErr> {
    reply_ok();
    Err(LeaveErr(run_loop(m)))
}

#[emit::span(rt: m.rt.get(), guard: span, "sync fn span with guard and complete_with")]
fn form_sync_guard_with<R: RtT>(m: &'static M04<R>) -> Leave {
    reply_ok();
    let l = run_loop(m);
    span.complete_with(emit::span::completion::default(m.rt.get().emitter(), m.rt.get().ctxt()));
    l
}

#[emit::span(rt: m.rt.get(), ok_lvl: emit::Level::Info, "async fn span with Ok result")]
async fn form_async_result_ok<R: RtT>(m: &'static M04<R>) -> Result<Leave, LeaveErr> {
    Ok(ScriptFuture { m }.await)
}

#[emit::span(rt: m.rt.get(), err_lvl: emit::Level::Error, "async fn span with Err result")]
async fn form_async_result_err<R: RtT>(m: &'static M04<R>) -> Result<Leave, LeaveErr> {
    Err(LeaveErr(ScriptFuture { m }.await))
}

#[emit::span(rt: m.rt.get(), guard: span, "async fn span with guard and complete_with")]
async fn form_async_guard_with<R: RtT>(m: &'static M04<R>) -> Leave {
    let l = ScriptFuture { m }.await;
    span.complete_with(emit::span::completion::default(m.rt.get().emitter(), m.rt.get().ctxt()));
    l
}

// explicit ids: the trace_id / span_parent / span_id control parameters of the span macros, in
// the value forms CaptureTraceId / CaptureSpanId accept (they take precedence over generated ids)
#[emit::span(rt: m.rt.get(), "explicit ids as hex text", trace_id, span_parent, span_id)]
fn form_explicit_str<R: RtT>(m: &'static M04<R>, trace_id: &str, span_parent: &str, span_id: &str) -> Leave {
    reply_ok();
    run_loop(m)
}

#[emit::span(rt: m.rt.get(), "explicit ids from a SpanCtxt", trace_id: c.trace_id(), span_parent: c.span_parent(), span_id: c.span_id())]
fn form_explicit_ctxt<R: RtT>(m: &'static M04<R>, c: SpanCtxt) -> Leave {
    reply_ok();
    run_loop(m)
}

#[emit::span(rt: m.rt.get(), "explicit ids as integers", trace_id: tr, span_parent: pa, span_id: id)]
fn form_explicit_int<R: RtT>(m: &'static M04<R>, tr: u128, pa: u64, id: u64) -> Leave {
    reply_ok();
    run_loop(m)
}

#[emit::span(rt: m.rt.get(), "explicit typed ids", trace_id: tr, span_parent: pa, span_id: id)]
fn form_explicit_typed<R: RtT>(m: &'static M04<R>, tr: emit::TraceId, pa: emit::SpanId, id: &emit::SpanId) -> Leave {
    reply_ok();
    run_loop(m)
}

// partly explicit ids: every control parameter as an Option (None = not given, the id is generated)
#[emit::span(rt: m.rt.get(), "explicit ids as options of integers and text", trace_id: tr, span_parent: pa, span_id: id)]
fn form_explicit_opt_int<R: RtT>(m: &'static M04<R>, tr: Option<u128>, pa: Option<&str>, id: Option<u64>) -> Leave {
    reply_ok();
    run_loop(m)
}

#[emit::span(rt: m.rt.get(), "explicit ids as options of text and typed ids", trace_id: tr, span_parent: pa, span_id: id)]
fn form_explicit_opt_typed<R: RtT>(m: &'static M04<R>, tr: Option<&str>, pa: Option<u64>, id: Option<emit::SpanId>) -> Leave {
    reply_ok();
    run_loop(m)
}

#[emit::span(rt: m.rt.get(), "explicit ids as references to typed ids", trace_id: tr, span_parent: pa, span_id: id)]
fn form_explicit_refs<R: RtT>(m: &'static M04<R>, tr: &Option<emit::TraceId>, pa: &&emit::SpanId, id: Option<&emit::SpanId>) -> Leave {
    reply_ok();
    run_loop(m)
}

/// Ids the program draws itself from the runtime's random source (whatever wrapper form it has):
/// `Rng::fill`, `gen_u128` / `gen_u64`, `TraceId::random` / `SpanId::random`.
fn draw_ids<G: emit::Rng>(rng: &G, how: u64) -> (Option<emit::TraceId>, Option<emit::SpanId>, Option<emit::SpanId>) {
    match how % 3 {
        0 => (
            rng.fill([0u8; 16]).and_then(|b| emit::TraceId::from_u128(u128::from_le_bytes(b))),
            rng.fill([0u8; 8]).and_then(|b| emit::SpanId::from_u64(u64::from_le_bytes(b))),
            rng.fill(vec![0u8; 8]).and_then(|b| emit::SpanId::from_u64(u64::from_le_bytes(b.try_into().unwrap()))),
        ),
        1 => (
            rng.gen_u128().and_then(emit::TraceId::from_u128),
            rng.gen_u64().and_then(emit::SpanId::from_u64),
            rng.gen_u64().and_then(emit::SpanId::from_u64),
        ),
        _ => (emit::TraceId::random(rng), emit::SpanId::random(rng), emit::SpanId::random(rng)),
    }
}

fn form_new_span_call<R: RtT>(m: &'static M04<R>) -> Leave {
    let (mut guard, frame) = emit::new_span!(rt: m.rt.get(), "new_span then call");
    frame.call(move || {
        guard.start();
        reply_ok();
        run_loop(m)
    })
}

fn manual<R: RtT>(m: &'static M04<R>, name: &'static str) -> (SpanGuard<'static, &'static R::T, emit::Empty, emit::span::completion::Default<'static, &'static R::E, &'static R::C>>, F0<R>) {
    SpanGuard::new(
        m.rt.get().filter(),
        m.rt.get().ctxt(),
        m.rt.get().clock(),
        m.rt.get().rng(),
        emit::span::completion::default(m.rt.get().emitter(), m.rt.get().ctxt()),
        emit::Empty,
        emit::Path::new_raw("vh_span"),
        name,
        emit::Empty,
    )
}

fn form_manual_enter<R: RtT>(m: &'static M04<R>) -> Leave {
    let (guard, mut frame) = manual(m, "SpanGuard::new then enter");
    let _entered = frame.enter();
    // the guard lives inside the entered frame: declared after the EnterGuard, it is dropped
    // before it - also when a panic unwinds through here
    let mut guard = guard;
    guard.start();
    reply_ok();
    let l = run_loop(m);
    drop(guard);
    l
}

#[emit::span(rt: m.rt.get(), "async fn span")]
async fn form_async_fn<R: RtT>(m: &'static M04<R>) -> Leave {
    ScriptFuture { m }.await
}

#[emit::debug_span(rt: m.rt.get(), guard: span, "async fn span with guard")]
async fn form_async_guard<R: RtT>(m: &'static M04<R>) -> Leave {
    let l = ScriptFuture { m }.await;
    span.complete();
    l
}

// ---------------------------------------------------------------- machine

impl<R: RtT> M04<R> {
    fn new(form: &'static str, rt: &'static R, rows: RecEmitter, fstate: Arc<FilterState>) -> M04<R> {
        M04 { rt, form, fstate, rows, frames: Mutex::new(HashMap::new()), tasks: Mutex::new(HashMap::new()), salt: AtomicU64::new(0), drawn: Mutex::new(None) }
    }

    fn take_frame(&self, f: u64) -> SFrame<R> {
        self.frames.lock().unwrap().remove(&f).unwrap_or_else(|| tool_error(&format!("frame {f} is not idle")))
    }

    fn set_verdict(&self, step: &Value) {
        self.fstate.verdict.store(step["v"].as_bool().unwrap_or(true), Ordering::Relaxed);
    }

    fn after_nested(&self, leave: Leave) -> Option<Leave> {
        match leave {
            Leave::Exit(_) => {
                reply_ok();
                None
            }
            Leave::Quit => Some(Leave::Quit),
            other => {
                reply(json!({"tool_error": format!("frame left by {other:?}")}));
                None
            }
        }
    }
}

fn ids_of(c: &SpanCtxt) -> Value {
    json!([c.trace_id().map(|t| format!("t:{t}")), c.span_id().map(|s| format!("s:{s}")), c.span_parent().map(|s| format!("s:{s}"))])
}

impl<R: RtT> Machine for M04<R> {
    fn exec(&'static self, step: &Value) -> Option<Leave> {
        let op = step["op"].as_str().unwrap_or("");
        let salt = self.salt.load(Ordering::Relaxed);
        match op {
            "begin" => {
                self.set_verdict(step);
                let i = step["i"].as_u64().unwrap();
                let kind = ex_kind(step);
                let leave = if kind == "root" {
                    // a root made by hand: fresh trace id and span id from the runtime's source, no parent
                    let c = SpanCtxt::new_root(self.rt.get().rng());
                    *self.drawn.lock().unwrap() = Some([c.trace_id().map(|t| format!("t:{t}")), c.span_id().map(|s| format!("s:{s}")), c.span_parent().map(|s| format!("s:{s}"))]);
                    match (salt + i) % 2 {
                        0 => form_explicit_ctxt(self, c),
                        _ => form_explicit_opt_typed(self, c.trace_id().map(|t| t.to_string()).as_deref(), c.span_parent().map(|p| p.to_u64()), c.span_id().copied()),
                    }
                } else if kind != "gen" {
                    let x = &step["xids"];
                    let (tr, id, pa) = if kind == "drawn" {
                        let d = draw_ids(self.rt.get().rng(), salt / 3 + i);
                        *self.drawn.lock().unwrap() = Some([d.0.map(|t| format!("t:{t}")), d.1.map(|s| format!("s:{s}")), d.2.map(|s| format!("s:{s}"))]);
                        d
                    } else {
                        (
                            x[0].as_u64().filter(|n| *n != 0).map(incoming_trace),
                            x[1].as_u64().filter(|n| *n != 0).map(incoming_span),
                            x[2].as_u64().filter(|n| *n != 0).map(incoming_span),
                        )
                    };
                    match (tr, id, pa) {
                        (Some(tr), Some(id), Some(pa)) => match (salt + i) % 7 {
                            0 => form_explicit_str(self, &tr.to_string(), &pa.to_string(), &id.to_string()),
                            1 => form_explicit_ctxt(self, SpanCtxt::new(Some(tr), Some(pa), Some(id))),
                            2 => form_explicit_int(self, tr.to_u128(), pa.to_u64(), id.to_u64()),
                            3 => form_explicit_typed(self, tr, pa, &id),
                            4 => form_explicit_opt_int(self, Some(tr.to_u128()), Some(&pa.to_string()), Some(id.to_u64())),
                            5 => form_explicit_opt_typed(self, Some(&tr.to_string()), Some(pa.to_u64()), Some(id)),
                            _ => form_explicit_refs(self, &Some(tr), &&pa, Some(&id)),
                        },
                        // some of them not given (None): those are generated
                        (tr, id, pa) => match (salt + i) % 3 {
                            0 => form_explicit_opt_int(self, tr.map(|t| t.to_u128()), pa.map(|p| p.to_string()).as_deref(), id.map(|s| s.to_u64())),
                            1 => form_explicit_opt_typed(self, tr.map(|t| t.to_string()).as_deref(), pa.map(|p| p.to_u64()), id),
                            _ => form_explicit_ctxt(self, SpanCtxt::new(tr, pa, id)),
                        },
                    }
                } else { match (salt + i) % 8 {
                    0 => form_sync_fn(self),
                    1 => form_new_span_call(self),
                    2 => form_sync_guard(self),
                    3 => form_manual_enter(self),
                    4 => form_sync_lvl(self),
                    5 => either(form_sync_result_ok(self)),
                    6 => either(form_sync_result_err(self)),
                    _ => form_sync_guard_with(self),
                } };
                self.after_nested(leave)
            }
            "new" => {
                self.set_verdict(step);
                let f = step["f"].as_u64().unwrap();
                let i = step["i"].as_u64().unwrap();
                let fr = if (salt + i) % 2 == 0 {
                    let (guard, frame) = emit::new_span!(rt: self.rt.get(), "new_span, entered later");
                    SFrame::Span(frame, Box::new(guard))
                } else {
                    let (guard, frame) = manual(self, "SpanGuard::new, entered later");
                    SFrame::Span(frame, Box::new(guard))
                };
                self.frames.lock().unwrap().insert(f, fr);
                reply_ok();
                None
            }
            "incoming" => {
                let f = step["f"].as_u64().unwrap();
                // either id may be absent (0): a trace id alone, a span id alone
                let tr = Some(step["ids"][0].as_u64().unwrap()).filter(|n| *n != 0).map(incoming_trace);
                let sp = Some(step["ids"][1].as_u64().unwrap()).filter(|n| *n != 0).map(incoming_span);
                let frame = match (salt + f) % 8 {
                    0 => Frame::push(
                        self.rt.get().ctxt(),
                        [
                            tr.as_ref().map(|t| ("trace_id", emit::Value::from_any(t))),
                            sp.as_ref().map(|s| ("span_id", emit::Value::from_any(s))),
                        ],
                    ),
                    1 => {
                        let (t, s) = (tr.map(|t| t.to_string()), sp.map(|s| s.to_string()));
                        Frame::push(self.rt.get().ctxt(), [t.as_deref().map(|t| ("trace_id", t)), s.as_deref().map(|s| ("span_id", s))])
                    }
                    2 => Frame::push(
                        self.rt.get().ctxt(),
                        tr.map(|t| ("trace_id", t.to_u128())).and_props(sp.map(|s| ("span_id", s.to_u64()))),
                    ),
                    3 => SpanCtxt::new(tr, None, sp).push(self.rt.get().ctxt()),
                    4 => {
                        // hex text captured through Display of a foreign id type (not a borrowed str)
                        let (t, s) = (tr.map(|t| ForeignId(t.to_string())), sp.map(|s| ForeignId(s.to_string())));
                        Frame::push(
                            self.rt.get().ctxt(),
                            [
                                t.as_ref().map(|t| ("trace_id", emit::Value::capture_display(t))),
                                s.as_ref().map(|s| ("span_id", emit::Value::capture_display(s))),
                            ],
                        )
                    }
                    5 => {
                        // hex text formatted on the fly
                        let (t, s) = (tr.map(|t| t.to_u128()), sp.map(|s| s.to_u64()));
                        let (ta, sa) = (t.map(|t| format!("{t:032x}")), s.map(|s| format!("{s:016x}")));
                        let (tf, sf) = (ta.as_ref().map(|t| format_args_owned(t)), sa.as_ref().map(|s| format_args_owned(s)));
                        Frame::push(
                            self.rt.get().ctxt(),
                            [
                                tf.as_ref().map(|t| ("trace_id", emit::Value::from_display(t))),
                                sf.as_ref().map(|s| ("span_id", emit::Value::from_display(s))),
                            ],
                        )
                    }
                    6 => {
                        // owned String values
                        let (t, s) = (tr.map(|t| t.to_string()), sp.map(|s| s.to_string()));
                        Frame::push(self.rt.get().ctxt(), t.map(|t| ("trace_id", t)).and_props(s.map(|s| ("span_id", s))))
                    }
                    _ => {
                        // typed ids turned into owned values (the type is gone, the text remains)
                        use emit::value::ToValue;
                        let (t, s) = (tr.map(|t| t.to_value().to_owned()), sp.map(|s| s.to_value().to_owned()));
                        Frame::push(self.rt.get().ctxt(), [t.map(|t| ("trace_id", t)), s.map(|s| ("span_id", s))])
                    }
                };
                self.frames.lock().unwrap().insert(f, SFrame::Plain(frame));
                reply_ok();
                None
            }
            "current" => {
                let f = step["f"].as_u64().unwrap();
                let frame = Frame::current(self.rt.get().ctxt());
                self.frames.lock().unwrap().insert(f, SFrame::Plain(frame));
                reply_ok();
                None
            }
            "enter" => {
                let f = step["f"].as_u64().unwrap();
                match self.take_frame(f) {
                    SFrame::Plain(mut frame) => {
                        let r = catching(|| {
                            let _g = frame.enter();
                            reply_ok();
                            run_loop(self)
                        });
                        self.frames.lock().unwrap().insert(f, SFrame::Plain(frame));
                        let l = rethrow(r);
                        self.after_nested(l)
                    }
                    SFrame::Span(mut frame, guard) => {
                        let how = salt / 2 + f;
                        let leave = if (salt + f) % 2 == 0 {
                            frame.call(move || {
                                let mut guard = guard;
                                guard.start_it();
                                reply_ok();
                                let l = run_loop(self);
                                guard.finish(how, self);        // inside the frame
                                l
                            })
                        } else {
                            let _g = frame.enter();
                            let mut guard = guard;      // dropped before _g, also on unwinding
                            guard.start_it();
                            reply_ok();
                            let l = run_loop(self);
                            guard.finish(how, self);
                            l
                        };
                        self.after_nested(leave)
                    }
                }
            }
            "spawn" => {
                let f = step["f"].as_u64().unwrap();
                let k = step["k"].as_u64().unwrap();
                let m: &'static M04<R> = self;
                let task: Task = match self.take_frame(f) {
                    SFrame::Plain(frame) => Box::pin(frame.in_future(ScriptFuture { m })),
                    SFrame::Span(frame, mut guard) => Box::pin(frame.in_future(async move {
                        guard.start_it();
                        let l = ScriptFuture { m }.await;
                        guard.finish(salt / 2 + f, m);
                        l
                    })),
                };
                self.tasks.lock().unwrap().insert(k, task);
                reply_ok();
                None
            }
            "lazy" => {
                let k = step["k"].as_u64().unwrap();
                let task: Task = match (salt + k) % 5 {
                    0 => Box::pin(form_async_fn(self)),
                    1 => Box::pin(form_async_guard(self)),
                    2 => Box::pin(async move { either(form_async_result_ok(self).await) }),
                    3 => Box::pin(async move { either(form_async_result_err(self).await) }),
                    _ => Box::pin(form_async_guard_with(self)),
                };
                self.tasks.lock().unwrap().insert(k, task);
                reply_ok();
                None
            }
            "poll" => {
                let k = step["k"].as_u64().unwrap();
                if step["first"].as_bool() == Some(true) {
                    self.set_verdict(step);
                }
                let mut task = self.tasks.lock().unwrap().remove(&k).unwrap_or_else(|| tool_error("task is not idle"));
                match poll_once(&mut task) {
                    Poll::Pending => {
                        self.tasks.lock().unwrap().insert(k, task);
                        match take_yield() {
                            Some(Leave::Yield(_)) => reply_ok(),
                            _ => reply(json!({"tool_error": "Pending without a yield step"})),
                        }
                        None
                    }
                    Poll::Ready(Leave::Complete(_)) => {
                        drop(task);
                        reply_ok();
                        None
                    }
                    Poll::Ready(_) => Some(Leave::Quit),
                }
            }
            "cancel" => {
                // drop the suspended future where this thread stands: its span guard completes from
                // Drop, outside its frame
                let k = step["k"].as_u64().unwrap();
                let task = self.tasks.lock().unwrap().remove(&k).unwrap_or_else(|| tool_error("task is not idle"));
                drop(task);
                reply_ok();
                None
            }
            "event" => {
                emit::emit!(rt: self.rt.get(), "event");
                reply_ok();
                None
            }
            _ => {
                reply(json!({"tool_error": format!("unknown op {op}")}));
                None
            }
        }
    }

    fn observe(&'static self) -> Value {
        ids_of(&SpanCtxt::current(self.rt.get().ctxt()))
    }
}

fn opt(v: &Value) -> Option<String> {
    v.as_str().map(|s| s.to_string())
}

/// Finding F29 (open): the signature the known-findings file matches starts with this.
const F29: &str = "C04:F29:cancelled span completes with the ambient ids";

/// Finding F30: explicit trace_id / span_id control parameters are overwritten by the generated ids.
const F30: &str = "C04:F30:explicit span ids lose to the generated ids in ThreadLocalCtxt";
const STOP: &str = "__classified_stop__";

/// One runtime form with its judge state.
struct Runner<R: RtT> {
    m: &'static M04<R>,
    bij: Bij,
}

impl<R: RtT> CaseRunner for Runner<R> {
    fn form(&self) -> &'static str {
        self.m.form
    }

    fn run(&mut self, no: usize, case: &Value) -> Outcome {
        let m: &'static M04<R> = self.m;
        let form = m.form;
        let bij = &mut self.bij;
        bij.clear();
        m.salt.store(no as u64, Ordering::Relaxed);
        m.frames.lock().unwrap().clear();
        m.tasks.lock().unwrap().clear();
        m.rows.0.lock().unwrap().clear();
        let steps = case["steps"].as_array().unwrap_or_else(|| tool_error("case without steps"));
        let nthreads = steps[0]["exp"].as_array().map(|a| a.len()).unwrap_or(1);
        let mut consumed = 0usize;
        let mut notes: Vec<Value> = Vec::new();
        let mut o = run_case(m, nthreads, steps, |_, step, rep, obs| {
                if step["op"] == "panic" {
                    if rep["panicked"].as_str() != Some(SCRIPTED_PANIC) {
                        return Some(json!({"what": "scripted panic was not the panic that arrived", "detail": rep}));
                    }
                } else if rep.get("panicked").is_some() {
                    return Some(json!({"what": "panic in code under test", "detail": rep}));
                }
                let exk = if step["op"] == "begin" { ex_kind(step) } else { "gen" };
                if exk == "drawn" || exk == "root" {
                    // ids the program drew itself from the random source: fresh (non-zero, distinct
                    // from every id seen so far) as long as the source does not repeat
                    let x = &step["xids"];
                    let d = m.drawn.lock().unwrap().take().unwrap_or([None, None, None]);
                    if !unify_ids(bij, &json!([x[0], x[1], x[2]]), &d[0], &d[1], &d[2]) {
                        return Some(json!({"what": "ids drawn by hand from the runtime's random source (Rng::fill / gen_u128 / gen_u64 / SpanCtxt::new_root) are missing, or not distinct from the ids already in use",
                            "detail": {"kind": exk, "want": x, "got": format!("{d:?}"), "known": bij.dump()}}));
                    }
                } else if exk != "gen" {
                    // explicit ids are the environment's too
                    let x = &step["xids"];
                    let tr = x[0].as_u64().filter(|n| *n != 0).map(|n| format!("t:{}", incoming_trace(n)));
                    let id = x[1].as_u64().filter(|n| *n != 0).map(|n| format!("s:{}", incoming_span(n)));
                    let pa = x[2].as_u64().filter(|n| *n != 0).map(|n| format!("s:{}", incoming_span(n)));
                    if !unify_ids(bij, &json!([x[0], x[1], x[2]]), &tr, &id, &pa) {
                        tool_error("explicit ids collide with other ids");
                    }
                }
                if step["op"] == "incoming" {
                    // the incoming ids are chosen by the environment: bind their names first
                    let tr = Some(step["ids"][0].as_u64().unwrap()).filter(|n| *n != 0).map(|n| format!("t:{}", incoming_trace(n)));
                    let sp = Some(step["ids"][1].as_u64().unwrap()).filter(|n| *n != 0).map(|n| format!("s:{}", incoming_span(n)));
                    if !unify_ids(bij, &json!([step["ids"][0], step["ids"][1], 0]), &tr, &sp, &None) {
                        tool_error("incoming ids collide with drawn ids");
                    }
                }
                // records emitted by this step
                let rows: Vec<Row> = m.rows.0.lock().unwrap()[consumed..].to_vec();
                consumed += rows.len();
                let want = step.get("emits").and_then(|e| e.as_array()).cloned().unwrap_or_default();
                // fault injection for testing the classification below (never set by the check):
                // VERIF_SELFTEST_CANCEL=extra duplicates the cancelled span's event, =wrongid gives it a foreign trace id
                let mut rows = rows;
                if step["op"] == "cancel" && !rows.is_empty() {
                    match std::env::var("VERIF_SELFTEST_CANCEL").ok().as_deref() {
                        Some("extra") => rows.push(rows[0].clone()),
                        Some("wrongid") => rows[0].trace = Some("t:ffffffffffffffffffffffffffffffff".to_string()),
                        _ => {}
                    }
                }
                if step["op"] == "cancel" {
                    if rows.len() != want.len() || rows.iter().any(|r| !r.span) {
                        return Some(json!({"what": "a cancelled span did not complete exactly once (one span event if enabled, none if rejected)",
                            "detail": {"want": want, "got": format!("{rows:?}")}}));
                    }
                    if let (Some(r), Some(w)) = (rows.first(), want.first()) {
                        // the statement: its own id, its parent, its tree's trace id
                        let mut own = bij.clone();
                        if unify_ids(&mut own, &w["ids"], &r.trace, &r.id, &r.parent) {
                            *bij = own;
                        } else {
                            // the one known way to be wrong (finding F29): exactly the ids that are
                            // ambient where it was dropped.  Anything else is some other defect.
                            let t = step["t"].as_u64().unwrap_or(1) as usize - 1;
                            let mut amb = bij.clone();
                            if unify_ids(&mut amb, &step["exp"][t], &r.trace, &r.id, &r.parent) {
                                notes.push(json!({"what": F29, "form": form, "where": step["where"],
                                    "want": w["ids"], "ambient": step["exp"][t], "got": format!("{r:?}")}));
                            } else {
                                return Some(json!({"what": "a cancelled span's event carries ids that are neither its own nor the ambient ones",
                                    "detail": {"want": w["ids"], "ambient": step["exp"][t], "got": format!("{r:?}"), "known": bij.dump()}}));
                            }
                        }
                    }
                } else if rows.len() != want.len() {
                    return Some(json!({"what": "number of emitted records differs",
                        "detail": {"want": want, "got": format!("{rows:?}")}}));
                }
                for (r, w) in rows.iter().zip(want.iter()).filter(|_| step["op"] != "cancel") {
                    if r.span != (w["kind"] == "span") {
                        return Some(json!({"what": "emitted record has the wrong kind", "detail": {"want": w, "got": format!("{r:?}")}}));
                    }
                    // spans: trace, own id, parent; events: trace and innermost span (the statement
                    // says nothing about a parent on events)
                    let ok = if r.span {
                        unify_ids(bij, &w["ids"], &r.trace, &r.id, &r.parent)
                    } else {
                        unify_ids(bij, &json!([w["ids"][0], w["ids"][1], 0]), &r.trace, &r.id, &None)
                    };
                    if !ok {
                        return Some(json!({"what": "emitted record carries other trace/span/parent ids than the span tree requires",
                            "detail": {"want": w["ids"], "got": format!("{r:?}"), "known": bij.dump()}}));
                    }
                }
                for (t, o) in obs.iter().enumerate() {
                    if o.get("panicked").is_some() {
                        return Some(json!({"what": "panic while observing", "detail": o}));
                    }
                    if exk != "gen" && step["v"] == true && step["t"].as_u64() == Some(t as u64 + 1) {
                        // explicit ids must be what is ambient inside the span.  The one known way to be
                        // wrong (finding F30): the generated ids overwrote them ("last value wins" inside
                        // the pushed set).  Everything after that point follows from it: the program ends
                        // here, classified; any other ids are a violation as usual.
                        let mut own = bij.clone();
                        if !unify_ids(&mut own, &step["exp"][t], &opt(&o[0]), &opt(&o[1]), &opt(&o[2])) {
                            let mut lw = bij.clone();
                            if unify_ids(&mut lw, &step["lastwins"], &opt(&o[0]), &opt(&o[1]), &opt(&o[2])) {
                                notes.push(json!({"what": F30, "form": form, "where": "in the ambient context of the span",
                                    "want": step["exp"][t], "ambient": step["lastwins"], "got": o}));
                                return Some(json!({"what": STOP}));
                            }
                        }
                    }
                    if !unify_ids(bij, &step["exp"][t], &opt(&o[0]), &opt(&o[1]), &opt(&o[2])) {
                        return Some(json!({"what": "SpanCtxt::current differs from the ids of the innermost enabled span",
                            "detail": {"thread": t + 1, "want": step["exp"][t], "got": o, "known": bij.dump()}}));
                    }
                }
                None
        });
        if o.mismatch.as_ref().map_or(false, |m| m["what"] == STOP) {
            o.mismatch = None;      // ended on a classified deviation, not on a disagreement
        }
        if let Some(mm) = o.mismatch.as_mut() {
            mm["form"] = json!(form);
        }
        o.notes = notes;
        m.frames.lock().unwrap().clear();
        m.tasks.lock().unwrap().clear();
        o
    }
}

fn runner<R: RtT>(form: &'static str, rt: &'static R, rows: RecEmitter, fstate: Arc<FilterState>) -> Box<dyn CaseRunner> {
    Box::new(Runner { m: Box::leak(Box::new(M04::new(form, rt, rows, fstate))), bij: Bij::default() })
}

/// The context forms (spec constant CtxForms): the same programs must behave the same through
/// every one of them.
fn build(form: &str) -> Box<dyn CaseRunner> {
    let rows = RecEmitter::default();
    let fstate = Arc::new(FilterState::default());
    fstate.verdict.store(true, Ordering::Relaxed);
    let filter = ScriptFilter(fstate.clone());
    let clock = || CounterClock(AtomicU64::new(0));
    let rng = || CounterRng(AtomicU64::new(1));
    let tl = ThreadLocalCtxt::new();
    fn leak<T>(v: T) -> &'static T {
        Box::leak(Box::new(v))
    }
    match form {
        "value" => runner("value", leak(Runtime::build(rows.clone(), filter, tl, clock(), rng())), rows, fstate),
        // a third-party stacking context on the trait defaults: shadowed duplicates stay visible
        "stack" => runner("stack", leak(Runtime::build(rows.clone(), filter, StackCtxt, clock(), rng())), rows, fstate),
        // a runtime without a random source
        "norng" => runner("norng", leak(Runtime::build(rows.clone(), filter, tl, clock(), None::<CounterRng>)), rows, fstate),
        // the random source takes the same form as the context (the Rng wrapper impls of core/src/rng.rs)
        "ref" => runner("ref", leak(Runtime::build(rows.clone(), filter, leak(tl), clock(), leak(rng()))), rows, fstate),
        "option" => runner("option", leak(Runtime::build(rows.clone(), filter, Some(tl), clock(), Some(rng()))), rows, fstate),
        "box" => runner("box", leak(Runtime::build(rows.clone(), filter, Box::new(tl), clock(), Box::new(rng()))), rows, fstate),
        "arc" => runner("arc", leak(Runtime::build(rows.clone(), filter, Arc::new(tl), clock(), Arc::new(rng()))), rows, fstate),
        "dyn" => runner(
            "dyn",
            leak(Runtime::build(
                rows.clone(),
                filter,
                Box::new(tl) as Box<dyn emit_core::ctxt::ErasedCtxt + Send + Sync>,
                clock(),
                Box::new(rng()) as Box<dyn emit_core::rng::ErasedRng + Send + Sync>,
            )),
            rows,
            fstate,
        ),
        "ambient" => {
            // the type-erased runtime applications get from emit::setup(), in a fresh slot
            let slot: &'static emit::runtime::AmbientSlot = leak(emit::runtime::AmbientSlot::new());
            let _ = emit::setup().emit_to(rows.clone()).emit_when(filter).with_ctxt(tl).with_clock(clock()).with_rng(rng()).init_slot(slot);
            let rt: &'static emit::runtime::AmbientRuntime<'static> = slot.get();
            runner("ambient", rt, rows, fstate)
        }
        other => tool_error(&format!("unknown context form {other}")),
    }
}

fn main() {
    let args: Vec<String> = std::env::args().collect();
    if args.len() < 4 {
        tool_error("usage: c04_span <cases.ndjson> <forms json> <report.json>");
    }
    let (cases, forms, out) = (args[1].clone(), args[2].clone(), args[3].clone());
    quiet_panics();
    let forms: Vec<String> = serde_json::from_str(&forms).unwrap_or_else(|e| tool_error(&format!("forms: {e}")));
    if forms.is_empty() {
        tool_error("no context forms");
    }
    let rep = drive(
        &cases,
        workers_from_env(),
        move |_| -> Vec<Box<dyn CaseRunner>> { forms.iter().map(|f| build(f)).collect() },
        |runners, no, case| {
            // every program runs through one form; the case number rotates through them
            let n = runners.len();
            runners[no % n].run(no, case)
        },
    );
    rep.write(&out);
}
