use emit::platform::thread_local_ctxt::ThreadLocalCtxt;
use emit::runtime::Runtime;
use emit::Frame;
use emit_traceparent::*;
use std::sync::atomic::{AtomicU64, Ordering};
use vh_span::world::*;

static CALLS: AtomicU64 = AtomicU64::new(0);

fn main() {
    let rows = RecEmitter::default();
    let rt: &'static Runtime<RecEmitter, TraceparentFilter<fn(&emit::span::SpanCtxt) -> bool>, TraceparentCtxt<ThreadLocalCtxt>, CounterClock, CounterRng> =
        Box::leak(Box::new(Runtime::build(
            rows.clone(),
            TraceparentFilter::new_with_sampler((|c| { CALLS.fetch_add(1, Ordering::Relaxed); eprintln!("sampler({c:?})"); true }) as fn(&emit::span::SpanCtxt) -> bool),
            TraceparentCtxt::new(ThreadLocalCtxt::new()),
            CounterClock(AtomicU64::new(0)),
            CounterRng(AtomicU64::new(1)),
        )));

    #[emit::span(rt: rt, "outer")]
    fn outer(rt: &'static Runtime<RecEmitter, TraceparentFilter<fn(&emit::span::SpanCtxt) -> bool>, TraceparentCtxt<ThreadLocalCtxt>, CounterClock, CounterRng>) {
        eprintln!("in outer: tp={}", Traceparent::current());
        let fr = Frame::current(rt.ctxt());
        std::thread::spawn(fr.in_fn(move || {
            eprintln!("other thread inside carried frame: tp={} spanctxt={:?}", Traceparent::current(), emit::span::SpanCtxt::current(rt.ctxt()));
            inner(rt);
        })).join().unwrap();
    }
    #[emit::span(rt: rt, "inner")]
    fn inner(rt: &'static Runtime<RecEmitter, TraceparentFilter<fn(&emit::span::SpanCtxt) -> bool>, TraceparentCtxt<ThreadLocalCtxt>, CounterClock, CounterRng>) {
        eprintln!("in inner: tp={}", Traceparent::current());
    }
    outer(rt);
    eprintln!("sampler calls: {}", CALLS.load(Ordering::Relaxed));
    for r in rows.0.lock().unwrap().iter() { eprintln!("{r:?}"); }
}
