//! C15: the cases of spec/Text.tla + spec/MCText.tla on the real parsers / formatters.
//!
//! Input: one ndjson file, each line {"k": tag, "c": payload}:
//!   CASE    {"t":[chars], "ts":V, "tid":V, "sid":V, "fl":V, "tp":V, "lvl":V, "kind":V, "path":V}
//!           V = {"v":"a"|"r"|"d", "val":..}: every entry point of every parser is called under
//!           catch_unwind; accept => Ok with that value, reject => Err/None, don't-care => no panic
//!   FMT     {"v":{d,s,n}, "p":precision, "text":[chars], "back":{d,s,n}, "parts":{..}}
//!   FLAG    {"b":0..255, "text":[chars]}
//!   TPFMT   {"tid":[chars]|none, "sid":.., "fl":.., "text":[chars]}
//!   LVLFMT / KINDFMT {"val":n, "text":[chars]}
//! then (args: sweep = "quick" | "thorough") the oracle-free sweeps: from_parts(to_parts),
//! parse(format) for every day 1970..9999, lexicographic order, random ids and random strings.
use emit::{Kind, Level, Path, Props, SpanId, Str, Timestamp, TraceId};
use emit_traceparent::{TraceFlags, Traceparent};
use std::fmt;
use std::time::Duration;
use vh_common::*;

fn text_of(v: &Value) -> String {
    v.as_array().unwrap_or_else(|| tool_error("text is not an array")).iter().map(|c| c.as_str().unwrap()).collect()
}

struct Disp<'a>(&'a str);
impl<'a> fmt::Display for Disp<'a> {
    fn fmt(&self, f: &mut fmt::Formatter<'_>) -> fmt::Result {
        f.write_str(self.0)
    }
}
/// Display that writes the text one character at a time (several write_str calls)
struct DispChars<'a>(&'a str);
impl<'a> fmt::Display for DispChars<'a> {
    fn fmt(&self, f: &mut fmt::Formatter<'_>) -> fmt::Result {
        use fmt::Write;
        for c in self.0.chars() {
            f.write_char(c)?;
        }
        Ok(())
    }
}

type Outcome = Result<Option<Value>, String>; // Ok(Some(value)) accepted, Ok(None) rejected, Err panic

fn ts_val(t: Timestamp) -> Value {
    let u = t.to_unix();
    json!({"d": u.as_secs() / 86400, "s": u.as_secs() % 86400, "n": u.subsec_nanos()})
}
fn hex_val(s: String) -> Value {
    json!(s.chars().map(|c| c.to_string()).collect::<Vec<_>>())
}
fn lvl_val(l: Level) -> Value {
    json!(match l {
        Level::Debug => 1,
        Level::Info => 2,
        Level::Warn => 3,
        Level::Error => 4,
    })
}
fn kind_val(k: Kind) -> Value {
    json!(match k {
        Kind::Span => 1,
        Kind::Metric => 2,
        _ => 99,
    })
}
fn tp_val(t: Traceparent) -> Value {
    json!({
        "tid": t.trace_id().map(|i| hex_val(i.to_string())).unwrap_or(hex_val("none".into())),
        "sid": t.span_id().map(|i| hex_val(i.to_string())).unwrap_or(hex_val("none".into())),
        "fl": t.trace_flags().to_u8(),
    })
}

/// every way a text can reach `T`'s parser through a property value
fn casts<T: for<'a> emit::value::FromValue<'a>>(s: &str, conv: impl Fn(T) -> Value + Copy) -> Vec<(&'static str, Outcome)> {
    let mut v: Vec<(&'static str, Outcome)> = Vec::new();
    v.push(("cast(&str)", catch(|| emit::Value::from(s).cast::<T>().map(conv))));
    let owned = s.to_string();
    v.push(("cast(&String)", catch(|| emit::Value::from(&owned).cast::<T>().map(conv))));
    v.push(("cast(from_any String)", catch(|| emit::Value::from_any(&owned).cast::<T>().map(conv))));
    v.push(("cast(from_display)", catch(|| emit::Value::from_display(&Disp(s)).cast::<T>().map(conv))));
    v.push(("cast(from_display chars)", catch(|| emit::Value::from_display(&DispChars(s)).cast::<T>().map(conv))));
    v.push(("props.pull", catch(|| ("k", s).pull::<T, _>("k").map(conv))));
    v
}

fn entry_points(parser: &str, s: &str) -> Vec<(&'static str, Outcome)> {
    let mut v: Vec<(&'static str, Outcome)> = Vec::new();
    match parser {
        "ts" => {
            v.push(("FromStr", catch(|| s.parse::<Timestamp>().ok().map(ts_val))));
            v.push(("try_from_str", catch(|| Timestamp::try_from_str(s).ok().map(ts_val))));
            v.push(("parse(&str)", catch(|| Timestamp::parse(s).ok().map(ts_val))));
            v.push(("parse(Display chars)", catch(|| Timestamp::parse(DispChars(s)).ok().map(ts_val))));
            v.extend(casts::<Timestamp>(s, ts_val));
        }
        "tid" => {
            let c = |i: TraceId| hex_val(i.to_string());
            v.push(("FromStr", catch(|| s.parse::<TraceId>().ok().map(c))));
            v.push(("try_from_hex", catch(|| TraceId::try_from_hex(s).ok().map(c))));
            v.push(("try_from_hex(Display chars)", catch(|| TraceId::try_from_hex(DispChars(s)).ok().map(c))));
            v.push(("try_from_hex_slice", catch(|| TraceId::try_from_hex_slice(s.as_bytes()).ok().map(c))));
            v.extend(casts::<TraceId>(s, c));
        }
        "sid" => {
            let c = |i: SpanId| hex_val(i.to_string());
            v.push(("FromStr", catch(|| s.parse::<SpanId>().ok().map(c))));
            v.push(("try_from_hex", catch(|| SpanId::try_from_hex(s).ok().map(c))));
            v.push(("try_from_hex(Display chars)", catch(|| SpanId::try_from_hex(DispChars(s)).ok().map(c))));
            v.push(("try_from_hex_slice", catch(|| SpanId::try_from_hex_slice(s.as_bytes()).ok().map(c))));
            v.extend(casts::<SpanId>(s, c));
        }
        "fl" => {
            v.push(("FromStr", catch(|| s.parse::<TraceFlags>().ok().map(|f| json!(f.to_u8())))));
            v.push(("try_from_hex_slice", catch(|| TraceFlags::try_from_hex_slice(s.as_bytes()).ok().map(|f| json!(f.to_u8())))));
        }
        "tp" => {
            v.push(("FromStr", catch(|| s.parse::<Traceparent>().ok().map(tp_val))));
            v.push(("try_from_str", catch(|| Traceparent::try_from_str(s).ok().map(tp_val))));
        }
        "lvl" => {
            v.push(("FromStr", catch(|| s.parse::<Level>().ok().map(lvl_val))));
            v.push(("try_from_str", catch(|| Level::try_from_str(s).ok().map(lvl_val))));
            v.extend(casts::<Level>(s, lvl_val));
        }
        "kind" => {
            v.push(("FromStr", catch(|| s.parse::<Kind>().ok().map(kind_val))));
            v.push(("try_from_str", catch(|| Kind::try_from_str(s).ok().map(kind_val))));
            v.extend(casts::<Kind>(s, kind_val));
        }
        "path" => {
            let ok = |b: bool| if b { Some(json!(1)) } else { None };
            v.push(("is_valid_path", catch(|| ok(emit::path::is_valid_path(s)))));
            v.push(("new_ref", catch(|| ok(Path::new_ref(s).map(|p| p == Path::new_ref_raw(s)).unwrap_or(false)))));
            v.push(("new_str", catch(|| ok(Path::new_str(Str::new_ref(s)).is_ok()))));
            v.push(("new_owned", catch(|| ok(Path::new_owned(s).is_ok()))));
            v.push(("new_cow_ref", catch(|| ok(Path::new_cow_ref(std::borrow::Cow::Borrowed(s)).is_ok()))));
        }
        _ => tool_error("unknown parser"),
    }
    v
}

const PARSERS: [&str; 8] = ["ts", "tid", "sid", "fl", "tp", "lvl", "kind", "path"];

struct St {
    rep: Report,
    per_kind: std::collections::BTreeMap<String, u64>,
    decided: std::collections::BTreeMap<String, u64>,
}

impl St {
    /// keep at most 6 stored mismatches per kind
    fn mm(&mut self, what: String, case: &Value, detail: Value) {
        let n = self.per_kind.entry(what.clone()).or_insert(0);
        *n += 1;
        if *n <= 6 {
            self.rep.mismatch(&what, case, detail);
        } else {
            self.rep.total_mismatches += 1;
        }
    }

    fn check_text(&mut self, parser: &str, s: &str, verdict: &str, val: &Value, case: &Value) {
        for (how, out) in entry_points(parser, s) {
            self.rep.checks += 1;
            *self.decided.entry(format!("{parser}:{verdict}")).or_insert(0) += 1;
            match (verdict, out) {
                (_, Err(p)) => self.mm(format!("{parser}-panic"), case, json!({"text": s, "entry": how, "expected": verdict, "panic": p})),
                ("d", _) => {}
                ("a", Ok(Some(got))) if got == *val => {}
                ("a", Ok(Some(got))) => self.mm(format!("{parser}-wrong-value"), case, json!({"text": s, "entry": how, "want": val, "got": got})),
                ("a", Ok(None)) => self.mm(format!("{parser}-rejects-wellformed"), case, json!({"text": s, "entry": how, "want": val})),
                ("r", Ok(None)) => {}
                ("r", Ok(Some(got))) => self.mm(format!("{parser}-accepts-malformed"), case, json!({"text": s, "entry": how, "got": got})),
                _ => tool_error("bad verdict"),
            }
        }
    }
}

fn ts_from(v: &Value) -> Timestamp {
    let secs = v["d"].as_u64().unwrap() * 86400 + v["s"].as_u64().unwrap();
    Timestamp::from_unix(Duration::new(secs, v["n"].as_u64().unwrap() as u32)).unwrap_or_else(|| tool_error("instant out of range"))
}

fn fmt_prec(ts: Timestamp, p: usize) -> String {
    format!("{:.*}", p, ts)
}

fn main() {
    let args: Vec<String> = std::env::args().collect();
    let (cases, out, sweep) = (&args[1], &args[2], args.get(3).map(|s| s.as_str()).unwrap_or("quick"));
    quiet_panics();
    let mut st = St { rep: Report::new(), per_kind: Default::default(), decided: Default::default() };
    let mut distinct_accept = std::collections::BTreeSet::new();
    for_each_case(cases, |_, line| {
        let c = &line["c"];
        st.rep.cases += 1;
        match line["k"].as_str().unwrap() {
            "CASE" => {
                let s = text_of(&c["t"]);
                for p in PARSERS {
                    let v = c[p]["v"].as_str().unwrap();
                    if v == "a" {
                        distinct_accept.insert(format!("{p}:{}", c[p]["val"]));
                    }
                    st.check_text(p, &s, v, &c[p]["val"], line);
                }
            }
            "FMT" => {
                let ts = ts_from(&c["v"]);
                let p = c["p"].as_u64().unwrap() as usize;
                let want = text_of(&c["text"]);
                let r = catch(|| {
                    let mut got = vec![("{:.p}", fmt_prec(ts, p))];
                    if p == 9 {
                        got.push(("{}", ts.to_string()));
                        got.push(("{:?}", format!("{:?}", ts).trim_matches('"').to_string()));
                        got.push(("value", emit::Value::from_any(&ts).to_string()));
                        got.push(("serde", serde_json::to_value(&ts).unwrap().as_str().unwrap().to_string()));
                    }
                    let parts = ts.to_parts();
                    let pj = json!({"y": parts.years, "mo": parts.months, "d": parts.days, "h": parts.hours, "mi": parts.minutes, "s": parts.seconds, "n": parts.nanos});
                    let back = Timestamp::from_parts(ts.to_parts());
                    (got, pj, back)
                });
                match r {
                    Err(pn) => st.mm("format-panic".into(), line, json!({"panic": pn})),
                    Ok((got, pj, back)) => {
                        for (how, g) in got {
                            st.rep.checks += 1;
                            if g != want {
                                st.mm("ts-format-differs".into(), line, json!({"how": how, "want": want, "got": g}));
                            }
                        }
                        st.rep.checks += 2;
                        if pj != c["parts"] {
                            st.mm("ts-to_parts-differs".into(), line, json!({"want": c["parts"], "got": pj}));
                        }
                        if back != Some(ts) {
                            st.mm("ts-from_parts(to_parts)-differs".into(), line, json!({"got": back.map(ts_val)}));
                        }
                    }
                }
                // the round trip: parsing the predicted text gives the (truncated) instant
                st.check_text("ts", &want, "a", &c["back"], line);
                st.rep.checks += 1;
                let dc = catch(|| emit::Value::from_any(&ts).cast::<Timestamp>() == Some(ts) && emit::Value::from_any(&ts).by_ref().cast::<Timestamp>() == Some(ts));
                if dc != Ok(true) {
                    st.mm("ts-value-roundtrip".into(), line, json!({"got": format!("{dc:?}")}));
                }
            }
            "FLAG" => {
                let b = c["b"].as_u64().unwrap() as u8;
                let want = text_of(&c["text"]);
                st.rep.checks += 2;
                let r = catch(|| (TraceFlags::from_u8(b).to_string(), String::from_utf8(TraceFlags::from_u8(b).to_hex().to_vec()).unwrap()));
                if r != Ok((want.clone(), want.clone())) {
                    st.mm("flags-format-differs".into(), line, json!({"got": format!("{r:?}")}));
                }
                st.check_text("fl", &want, "a", &json!(b), line);
            }
            "TPFMT" => {
                let want = text_of(&c["text"]);
                let tid = text_of(&c["tid"]);
                let sid = text_of(&c["sid"]);
                let fl = c["fl"].as_u64().unwrap() as u8;
                st.rep.checks += 1;
                let r = catch(|| {
                    let t = if tid == "none" { None } else { Some(tid.parse::<TraceId>().unwrap()) };
                    let s = if sid == "none" { None } else { Some(sid.parse::<SpanId>().unwrap()) };
                    let tp = Traceparent::new(t, s, TraceFlags::from_u8(fl));
                    (tp.to_string(), want.parse::<Traceparent>().ok() == Some(tp))
                });
                if r != Ok((want.clone(), true)) {
                    st.mm("traceparent-format-differs".into(), line, json!({"got": format!("{r:?}")}));
                }
                st.check_text("tp", &want, "a", &json!({"tid": c["tid"], "sid": c["sid"], "fl": fl}), line);
            }
            "LVLFMT" => {
                let want = text_of(&c["text"]);
                let l = [Level::Debug, Level::Info, Level::Warn, Level::Error][c["val"].as_u64().unwrap() as usize - 1];
                st.rep.checks += 2;
                if l.to_string() != want || emit::Value::from_any(&l).to_string() != want {
                    st.mm("level-format-differs".into(), line, json!({"got": l.to_string()}));
                }
                if emit::Value::from_any(&l).cast::<Level>() != Some(l) {
                    st.mm("level-value-roundtrip".into(), line, json!({}));
                }
                st.check_text("lvl", &want, "a", &c["val"], line);
            }
            "KINDFMT" => {
                let want = text_of(&c["text"]);
                let k = [Kind::Span, Kind::Metric][c["val"].as_u64().unwrap() as usize - 1];
                st.rep.checks += 2;
                if k.to_string() != want || emit::Value::from_any(&k).to_string() != want {
                    st.mm("kind-format-differs".into(), line, json!({"got": k.to_string()}));
                }
                if emit::Value::from_any(&k).cast::<Kind>() != Some(k) {
                    st.mm("kind-value-roundtrip".into(), line, json!({}));
                }
                st.check_text("kind", &want, "a", &c["val"], line);
            }
            _ => tool_error("unknown line kind"),
        }
    });
    let decided_by_spec = st.rep.checks;

    // ------------------------------------------------------------------ oracle-free sweeps
    let mut evals = 0u64;
    let none = json!(null);
    if sweep != "none" {
        // (1) every day of the range: parts both ways, parse(format) at a rotating precision,
        //     lexicographic order of adjacent formatted instants
        let step = 1u64;
        let mut prev: Option<(Timestamp, String)> = None;
        let mut d = 0u64;
        while d <= 2_932_896 {
            for (sod, n) in [(0u64, 0u32), (86_399, 999_999_999)] {
                let r = catch(|| {
                    let ts = Timestamp::from_unix(Duration::new(d * 86400 + sod, n)).unwrap();
                    let parts_ok = Timestamp::from_parts(ts.to_parts()) == Some(ts);
                    let full = ts.to_string();
                    let p = ((d + sod) % 10) as usize;
                    let q = 10u32.pow(9 - p as u32);
                    let trunc = Timestamp::from_unix(Duration::new(d * 86400 + sod, n / q * q)).unwrap();
                    let rt_ok = full.parse::<Timestamp>().ok() == Some(ts) && fmt_prec(ts, p).parse::<Timestamp>().ok() == Some(trunc);
                    (ts, full, parts_ok, rt_ok)
                });
                evals += 1;
                match r {
                    Err(p) => st.mm("sweep-panic".into(), &none, json!({"day": d, "sod": sod, "panic": p})),
                    Ok((ts, full, parts_ok, rt_ok)) => {
                        if !parts_ok {
                            st.mm("sweep-from_parts(to_parts)".into(), &none, json!({"day": d, "sod": sod}));
                        }
                        if !rt_ok {
                            st.mm("sweep-parse(format)".into(), &none, json!({"day": d, "sod": sod, "text": full}));
                        }
                        if let Some((pt, ptxt)) = &prev {
                            if !(*pt < ts && *ptxt < full) {
                                st.mm("sweep-lexicographic-order".into(), &none, json!({"a": ptxt, "b": full}));
                            }
                        }
                        prev = Some((ts, full));
                    }
                }
            }
            d += step;
        }
        // (2) every second of six days
        for day in [0u64, 59, 11_016, 11_017, 47_540, 2_932_896] {
            for sod in 0..86_400u64 {
                evals += 1;
                let r = catch(|| {
                    let ts = Timestamp::from_unix(Duration::new(day * 86400 + sod, 500_000_000)).unwrap();
                    Timestamp::from_parts(ts.to_parts()) == Some(ts) && fmt_prec(ts, 1).parse::<Timestamp>().ok() == Some(ts)
                });
                if r != Ok(true) {
                    st.mm("sweep-second-of-day".into(), &none, json!({"day": day, "sod": sod, "got": format!("{r:?}")}));
                }
            }
        }
        // (3) lexicographic order = instant order, per precision, on seeded random pairs
        let mut rng = Rng::from_env(15);
        let n_pairs = if sweep == "quick" { 20_000 } else { 400_000 };
        for _ in 0..n_pairs {
            let a = Duration::new(rng.below(253_402_300_800), rng.below(1_000_000_000) as u32);
            // b close to a, so that truncation matters
            let delta = [1u64, 999, 1_000_000, 999_999_999, 1_000_000_000, 86_400_000_000_000][rng.below(6) as usize];
            let b = a + Duration::from_nanos(rng.below(delta + 1));
            let (Some(ta), Some(tb)) = (Timestamp::from_unix(a), Timestamp::from_unix(b)) else { continue };
            evals += 1;
            let r = catch(|| {
                let mut ok = (ta.to_string() < tb.to_string()) == (ta < tb) && (ta.to_string() == tb.to_string()) == (ta == tb);
                for p in 0..=9usize {
                    // at reduced precision the order may only collapse, never invert
                    ok &= fmt_prec(ta, p) <= fmt_prec(tb, p);
                }
                ok
            });
            if r != Ok(true) {
                st.mm("sweep-order".into(), &none, json!({"a": format!("{a:?}"), "b": format!("{b:?}")}));
            }
        }
        // (4) ids: format -> parse for extreme and seeded random values, every byte width
        let n_ids = if sweep == "quick" { 20_000 } else { 1_000_000 };
        for i in 0..n_ids {
            let x: u128 = match i {
                0 => 1,
                1 => u128::MAX,
                2 => 1 << 127,
                3 => 1 << 64,
                4 => (1 << 64) - 1,
                5 => 1 << 63,
                _ => {
                    let v = ((rng.next() as u128) << 64) | rng.next() as u128;
                    v >> rng.below(128)
                }
            };
            evals += 1;
            let r = catch(|| {
                let mut ok = true;
                if let Some(t) = TraceId::from_u128(x) {
                    let s = t.to_string();
                    ok &= s.len() == 32 && s.parse::<TraceId>().ok() == Some(t) && s.to_uppercase().parse::<TraceId>().ok() == Some(t);
                    ok &= u128::from_str_radix(&s, 16) == Ok(x) && TraceId::from_bytes(t.to_bytes()) == Some(t);
                    ok &= emit::Value::from_any(&t).cast::<TraceId>() == Some(t) && emit::Value::from(&*s).cast::<TraceId>() == Some(t);
                } else {
                    ok &= x == 0;
                }
                let y = x as u64;
                if let Some(t) = SpanId::from_u64(y) {
                    let s = t.to_string();
                    ok &= s.len() == 16 && s.parse::<SpanId>().ok() == Some(t) && s.to_uppercase().parse::<SpanId>().ok() == Some(t);
                    ok &= u64::from_str_radix(&s, 16) == Ok(y) && SpanId::from_bytes(t.to_bytes()) == Some(t);
                    ok &= emit::Value::from_any(&t).cast::<SpanId>() == Some(t) && emit::Value::from(&*s).cast::<SpanId>() == Some(t);
                } else {
                    ok &= y == 0;
                }
                ok
            });
            if r != Ok(true) {
                st.mm("sweep-id-roundtrip".into(), &none, json!({"x": format!("{x:032x}"), "got": format!("{r:?}")}));
            }
        }
        // (5) random strings (chars of every UTF-8 width, signs, separators) of every length up
        //     to 64: no entry point may panic and all entry points of a parser agree
        let pool: Vec<char> = "0123456789abcdefABCDEFgGxXtTzZ-:.+ _\t\n\0\u{7f}é€😀/\\(){}\u{a0}\u{2028}٣".chars().collect();
        let n_str = if sweep == "quick" { 30_000 } else { 600_000 };
        let shapes = ["1970-01-01T00:00:00.000000000Z", "00-4bf92f3577b34da6a3ce929d0e0e4736-00f067aa0ba902b7-01", "4bf92f3577b34da6a3ce929d0e0e4736", "00f067aa0ba902b7", "information", "a::b::c"];
        for i in 0..n_str {
            let s: String = if i % 2 == 0 {
                let len = rng.below(65) as usize;
                (0..len).map(|_| pool[rng.below(pool.len() as u64) as usize]).collect()
            } else {
                // a well-formed text with a few random edits
                let mut cs: Vec<char> = shapes[rng.below(shapes.len() as u64) as usize].chars().collect();
                for _ in 0..1 + rng.below(3) {
                    let c = pool[rng.below(pool.len() as u64) as usize];
                    let at = rng.below(cs.len() as u64 + 1) as usize;
                    match rng.below(3) {
                        0 if at < cs.len() => cs[at] = c,
                        1 if at < cs.len() => {
                            cs.remove(at);
                        }
                        _ => cs.insert(at, c),
                    }
                }
                cs.into_iter().collect()
            };
            for p in PARSERS {
                let outs = entry_points(p, &s);
                evals += outs.len() as u64;
                let first = outs[0].1.clone();
                for (how, o) in &outs {
                    if let Err(pn) = o {
                        st.mm(format!("{p}-panic"), &none, json!({"text": s, "entry": how, "panic": pn, "source": "random"}));
                    } else if *o != first && !(p == "ts" && s.len() > 30) {
                        st.mm(format!("{p}-entry-points-disagree"), &none, json!({"text": s, "entry": how, "first": format!("{first:?}"), "this": format!("{o:?}")}));
                    }
                }
            }
        }
    }
    st.rep.checks += evals;
    st.rep.extra.insert("decided_by_spec".into(), json!(decided_by_spec));
    st.rep.extra.insert("sweep_evaluations".into(), json!(evals));
    st.rep.extra.insert("distinct_accepted_values".into(), json!(distinct_accept.len()));
    st.rep.extra.insert("decided".into(), json!(st.decided));
    st.rep.extra.insert("mismatch_kinds".into(), json!(st.per_kind));
    st.rep.write(out);
}
