//! C15: the cases of spec/Text.tla + spec/MCText.tla on the real parsers / formatters.
//!
//! Input: one ndjson file, each line {"k": tag, "c": payload}:
//!   CASE    {"t":[chars], "ts":V, "tid":V, "sid":V, "fl":V, "tp":V, "lvl":V, "kind":V, "path":V}
//!           V = {"v":"a"|"r"|"d", "val":..}: every entry point of every parser is called under
//!           catch_unwind; accept => Ok with that value, reject => Err/None, don't-care => no panic
//!   FMT     {"v":{d,s,n}, "p":precision, "text":[chars], "back":{d,s,n}, "parts":{..}}
//!   FLAG    {"b":0..255, "text":[chars]}
//!   TPFMT   {"tid":[chars]|none, "sid":.., "fl":.., "text":[chars]}
//!   LVLFMT / KINDFMT {"val":n, "text":[chars]}
//! then (args: sweep = "quick" | "thorough") the oracle-free sweeps: from_parts(to_parts),
//! parse(format) for every day 1970..9999, lexicographic order, random ids and random strings.
use emit::{Kind, Level, Path, Props, SpanId, Str, Timestamp, TraceId};
use emit_traceparent::{TraceFlags, Traceparent};
use std::fmt;
use std::time::Duration;
use vh_common::*;

fn text_of(v: &Value) -> String {
    v.as_array().unwrap_or_else(|| tool_error("text is not an array")).iter().map(|c| c.as_str().unwrap()).collect()
}

struct Disp<'a>(&'a str);
impl<'a> fmt::Display for Disp<'a> {
    fn fmt(&self, f: &mut fmt::Formatter<'_>) -> fmt::Result {
        f.write_str(self.0)
    }
}
struct DispOwned(String);
impl fmt::Display for DispOwned {
    fn fmt(&self, f: &mut fmt::Formatter<'_>) -> fmt::Result {
        f.write_str(&self.0)
    }
}
/// Display that writes the text one character at a time (several write_str calls)
struct DispChars<'a>(&'a str);
impl<'a> fmt::Display for DispChars<'a> {
    fn fmt(&self, f: &mut fmt::Formatter<'_>) -> fmt::Result {
        use fmt::Write;
        for c in self.0.chars() {
            f.write_char(c)?;
        }
        Ok(())
    }
}

type Outcome = Result<Option<Value>, String>; // Ok(Some(value)) accepted, Ok(None) rejected, Err panic

fn ts_val(t: Timestamp) -> Value {
    let u = t.to_unix();
    json!({"d": u.as_secs() / 86400, "s": u.as_secs() % 86400, "n": u.subsec_nanos()})
}
fn hex_val(s: String) -> Value {
    json!(s.chars().map(|c| c.to_string()).collect::<Vec<_>>())
}
fn lvl_val(l: Level) -> Value {
    json!(match l {
        Level::Debug => 1,
        Level::Info => 2,
        Level::Warn => 3,
        Level::Error => 4,
    })
}
fn kind_val(k: Kind) -> Value {
    json!(match k {
        Kind::Span => 1,
        Kind::Metric => 2,
        _ => 99,
    })
}
fn tp_val(t: Traceparent) -> Value {
    json!({
        "tid": t.trace_id().map(|i| hex_val(i.to_string())).unwrap_or(hex_val("none".into())),
        "sid": t.span_id().map(|i| hex_val(i.to_string())).unwrap_or(hex_val("none".into())),
        "fl": t.trace_flags().to_u8(),
    })
}

/// The forms a text arrives in as a property value (spec/Text.tla CastForms).
const CAST_FORMS: [&str; 13] = [
    "str", "string", "from_any-string", "cow", "option", "display", "display-chars", "dyn-display", "serde", "sval", "owned",
    "shared", "props-pull",
];
/// The channels the text of a typed value gets out through (spec/Text.tla ValueChannels).
const VALUE_CHANNELS: [&str; 10] =
    ["display", "to_value", "to_value-serde", "to_value-sval", "to_value-owned", "serde-json", "serde-collect", "sval", "sval-json", "sval-ref"];
const TYPED_CAST_FORMS: [&str; 5] = ["from_any", "serde", "sval", "owned", "display"];

fn cast_via<T: for<'a> emit::value::FromValue<'a>>(form: &str, s: &str) -> Option<T> {
    let owned = s.to_string();
    match form {
        "str" => emit::Value::from(s).cast::<T>(),
        "string" => emit::Value::from(&owned).cast::<T>(),
        "from_any-string" => emit::Value::from_any(&owned).cast::<T>(),
        "cow" => emit::Value::from(&std::borrow::Cow::Borrowed(s)).cast::<T>(),
        "option" => emit::Value::from(Some(s)).cast::<T>(),
        "display" => emit::Value::from_display(&Disp(s)).cast::<T>(),
        "display-chars" => emit::Value::from_display(&DispChars(s)).cast::<T>(),
        "dyn-display" => {
            let d = DispOwned(owned.clone());
            let dd: &dyn fmt::Display = &d;
            emit::value::ToValue::to_value(dd).cast::<T>()
        }
        "serde" => emit::Value::from_serde(&owned).cast::<T>(),
        "sval" => emit::Value::from_sval(&owned).cast::<T>(),
        "owned" => emit::Value::from(s).to_owned().by_ref().cast::<T>(),
        "shared" => emit::Value::from(s).to_shared().by_ref().cast::<T>(),
        "props-pull" => ("k", s).pull::<T, _>("k"),
        _ => tool_error("unknown cast form"),
    }
}

/// every way a text can reach `T`'s parser through a property value
fn casts<T: for<'a> emit::value::FromValue<'a>>(s: &str, conv: impl Fn(T) -> Value + Copy) -> Vec<(&'static str, Outcome)> {
    CAST_FORMS.iter().map(|form| (*form, catch(|| cast_via::<T>(form, s).map(conv)))).collect()
}

/// A collecting sval stream: accepts exactly one text value, concatenating its fragments.
#[derive(Default)]
struct Collect {
    text: String,
    begun: u32,
    ended: u32,
}
impl<'sval> sval::Stream<'sval> for Collect {
    fn null(&mut self) -> sval::Result {
        sval::error()
    }
    fn bool(&mut self, _: bool) -> sval::Result {
        sval::error()
    }
    fn text_begin(&mut self, _: Option<usize>) -> sval::Result {
        self.begun += 1;
        Ok(())
    }
    fn text_fragment_computed(&mut self, fragment: &str) -> sval::Result {
        self.text.push_str(fragment);
        Ok(())
    }
    fn text_end(&mut self) -> sval::Result {
        self.ended += 1;
        Ok(())
    }
    fn i64(&mut self, _: i64) -> sval::Result {
        sval::error()
    }
    fn f64(&mut self, _: f64) -> sval::Result {
        sval::error()
    }
    fn seq_begin(&mut self, _: Option<usize>) -> sval::Result {
        sval::error()
    }
    fn seq_value_begin(&mut self) -> sval::Result {
        sval::error()
    }
    fn seq_value_end(&mut self) -> sval::Result {
        sval::error()
    }
    fn seq_end(&mut self) -> sval::Result {
        sval::error()
    }
}
fn sval_text(v: &impl sval::Value) -> String {
    let mut c = Collect::default();
    let r = v.stream(&mut c);
    if r.is_err() || c.begun != 1 || c.ended != 1 {
        format!("<sval: not one text value: err={} begun={} ended={} text={:?}>", r.is_err(), c.begun, c.ended, c.text)
    } else {
        c.text
    }
}
fn sval_ref_text<'a>(v: &impl sval_ref::ValueRef<'a>) -> String {
    let mut c = Collect::default();
    let r = v.stream_ref(&mut c);
    if r.is_err() || c.begun != 1 || c.ended != 1 {
        format!("<sval_ref: not one text value: err={} begun={} ended={} text={:?}>", r.is_err(), c.begun, c.ended, c.text)
    } else {
        c.text
    }
}
fn json_text(r: Result<String, String>) -> String {
    match r {
        Ok(j) => serde_json::from_str::<String>(&j).unwrap_or_else(|_| format!("<not a JSON string: {j}>")),
        Err(e) => format!("<error: {e}>"),
    }
}
fn json_value_text(r: Result<Value, serde_json::Error>) -> String {
    match r {
        Ok(Value::String(s)) => s,
        Ok(v) => format!("<not a string: {v}>"),
        Err(e) => format!("<error: {e}>"),
    }
}

/// the channels every typed value has (through ToValue)
fn value_channel<T: fmt::Display + emit::value::ToValue>(ch: &str, v: &T) -> Option<String> {
    Some(match ch {
        "display" => v.to_string(),
        "to_value" => v.to_value().to_string(),
        "to_value-serde" => json_value_text(serde_json::to_value(&v.to_value())),
        "to_value-sval" => sval_text(&v.to_value()),
        "to_value-owned" => v.to_value().to_owned().to_string(),
        _ => return None,
    })
}
/// the channels of the typed values that implement serde / sval themselves
fn typed_channel<T: serde::Serialize + sval::Value>(ch: &str, v: &T) -> String {
    match ch {
        "serde-json" => json_text(serde_json::to_string(v).map_err(|e| e.to_string())),
        "serde-collect" => json_value_text(serde_json::to_value(v)),
        "sval" => sval_text(v),
        "sval-json" => json_text(sval_json::stream_to_string(v).map_err(|e| e.to_string())),
        _ => tool_error("unknown value channel"),
    }
}
fn channels_plain<T: fmt::Display + emit::value::ToValue>(v: &T) -> Vec<(&'static str, String)> {
    VALUE_CHANNELS.iter().filter_map(|ch| value_channel(ch, v).map(|t| (*ch, t))).collect()
}
fn channels_full<T: fmt::Display + emit::value::ToValue + serde::Serialize + sval::Value>(v: &T) -> Vec<(&'static str, String)> {
    VALUE_CHANNELS.iter().filter(|ch| **ch != "sval-ref").map(|ch| (*ch, value_channel(ch, v).unwrap_or_else(|| typed_channel(ch, v)))).collect()
}
/// a typed value captured in a property value casts back to itself
fn typed_casts_plain<T>(v: &T) -> Vec<(&'static str, bool)>
where
    T: fmt::Display + emit::value::ToValue + PartialEq + for<'a> emit::value::FromValue<'a>,
{
    vec![
        ("from_any", emit::Value::from_any(v).cast::<T>().as_ref() == Some(v)),
        ("owned", emit::Value::from_any(v).to_owned().by_ref().cast::<T>().as_ref() == Some(v)),
        ("display", emit::Value::from_display(v).cast::<T>().as_ref() == Some(v)),
    ]
}
fn typed_casts_full<T>(v: &T) -> Vec<(&'static str, bool)>
where
    T: fmt::Display + emit::value::ToValue + PartialEq + for<'a> emit::value::FromValue<'a> + serde::Serialize + sval::Value,
{
    let mut r = typed_casts_plain(v);
    r.push(("serde", emit::Value::from_serde(v).cast::<T>().as_ref() == Some(v)));
    r.push(("sval", emit::Value::from_sval(v).cast::<T>().as_ref() == Some(v)));
    r
}

fn entry_points(parser: &str, s: &str) -> Vec<(&'static str, Outcome)> {
    let mut v: Vec<(&'static str, Outcome)> = Vec::new();
    match parser {
        "ts" => {
            v.push(("FromStr", catch(|| s.parse::<Timestamp>().ok().map(ts_val))));
            v.push(("try_from_str", catch(|| Timestamp::try_from_str(s).ok().map(ts_val))));
            v.push(("parse(&str)", catch(|| Timestamp::parse(s).ok().map(ts_val))));
            v.push(("parse(Display chars)", catch(|| Timestamp::parse(DispChars(s)).ok().map(ts_val))));
            v.extend(casts::<Timestamp>(s, ts_val));
        }
        "tid" => {
            let c = |i: TraceId| hex_val(i.to_string());
            v.push(("FromStr", catch(|| s.parse::<TraceId>().ok().map(c))));
            v.push(("try_from_hex", catch(|| TraceId::try_from_hex(s).ok().map(c))));
            v.push(("try_from_hex(Display chars)", catch(|| TraceId::try_from_hex(DispChars(s)).ok().map(c))));
            v.push(("try_from_hex_slice", catch(|| TraceId::try_from_hex_slice(s.as_bytes()).ok().map(c))));
            v.extend(casts::<TraceId>(s, c));
        }
        "sid" => {
            let c = |i: SpanId| hex_val(i.to_string());
            v.push(("FromStr", catch(|| s.parse::<SpanId>().ok().map(c))));
            v.push(("try_from_hex", catch(|| SpanId::try_from_hex(s).ok().map(c))));
            v.push(("try_from_hex(Display chars)", catch(|| SpanId::try_from_hex(DispChars(s)).ok().map(c))));
            v.push(("try_from_hex_slice", catch(|| SpanId::try_from_hex_slice(s.as_bytes()).ok().map(c))));
            v.extend(casts::<SpanId>(s, c));
        }
        "fl" => {
            v.push(("FromStr", catch(|| s.parse::<TraceFlags>().ok().map(|f| json!(f.to_u8())))));
            v.push(("try_from_hex_slice", catch(|| TraceFlags::try_from_hex_slice(s.as_bytes()).ok().map(|f| json!(f.to_u8())))));
        }
        "tp" => {
            v.push(("FromStr", catch(|| s.parse::<Traceparent>().ok().map(tp_val))));
            v.push(("try_from_str", catch(|| Traceparent::try_from_str(s).ok().map(tp_val))));
        }
        "lvl" => {
            v.push(("FromStr", catch(|| s.parse::<Level>().ok().map(lvl_val))));
            v.push(("try_from_str", catch(|| Level::try_from_str(s).ok().map(lvl_val))));
            v.extend(casts::<Level>(s, lvl_val));
        }
        "kind" => {
            v.push(("FromStr", catch(|| s.parse::<Kind>().ok().map(kind_val))));
            v.push(("try_from_str", catch(|| Kind::try_from_str(s).ok().map(kind_val))));
            v.extend(casts::<Kind>(s, kind_val));
        }
        "path" => {
            let ok = |b: bool| if b { Some(json!(1)) } else { None };
            v.push(("is_valid_path", catch(|| ok(emit::path::is_valid_path(s)))));
            v.push(("new_ref", catch(|| ok(Path::new_ref(s).map(|p| p == Path::new_ref_raw(s)).unwrap_or(false)))));
            v.push(("new_str", catch(|| ok(Path::new_str(Str::new_ref(s)).is_ok()))));
            v.push(("new_owned", catch(|| ok(Path::new_owned(s).is_ok()))));
            v.push(("new_cow_ref", catch(|| ok(Path::new_cow_ref(std::borrow::Cow::Borrowed(s)).is_ok()))));
        }
        _ => tool_error("unknown parser"),
    }
    v
}

/// The channels an error gets out through (spec/Text.tla ErrorChannels).
const ERROR_CHANNELS: [&str; 7] = ["display", "to_string", "display-padded", "dyn-error", "to_value", "capture_error", "debug"];

fn error_channels<E: std::error::Error + 'static>(e: &E) -> Vec<(&'static str, String)> {
    use emit::value::ToValue;
    let d: &(dyn std::error::Error + 'static) = e;
    let _ = d.source();
    vec![
        ("display", format!("{}", e)),
        ("to_string", e.to_string()),
        ("display-padded", format!("{:*^120}", e)),
        ("dyn-error", d.to_string()),
        ("to_value", d.to_value().to_string()),
        ("capture_error", emit::Value::capture_error(e).to_string()),
        ("debug", format!("{:?}", e)),
    ]
}

/// Ok(None): the entry point returned a value; Ok(Some(renderings)): it returned an error; Err: a panic
type ErrOutcome = Result<Option<Vec<(&'static str, String)>>, String>;

fn errs<T, E: std::error::Error + 'static>(r: Result<T, E>) -> Option<Vec<(&'static str, String)>> {
    r.err().map(|e| error_channels(&e))
}

/// every Result-returning entry point of a parser: the error it returns, through every channel
fn error_points(parser: &str, s: &str) -> Vec<(&'static str, ErrOutcome)> {
    let mut v: Vec<(&'static str, ErrOutcome)> = Vec::new();
    match parser {
        "ts" => {
            v.push(("FromStr", catch(|| errs(s.parse::<Timestamp>()))));
            v.push(("try_from_str", catch(|| errs(Timestamp::try_from_str(s)))));
            v.push(("parse(Display chars)", catch(|| errs(Timestamp::parse(DispChars(s))))));
        }
        "tid" => {
            v.push(("FromStr", catch(|| errs(s.parse::<TraceId>()))));
            v.push(("try_from_hex(Display chars)", catch(|| errs(TraceId::try_from_hex(DispChars(s))))));
            v.push(("try_from_hex_slice", catch(|| errs(TraceId::try_from_hex_slice(s.as_bytes())))));
        }
        "sid" => {
            v.push(("FromStr", catch(|| errs(s.parse::<SpanId>()))));
            v.push(("try_from_hex(Display chars)", catch(|| errs(SpanId::try_from_hex(DispChars(s))))));
            v.push(("try_from_hex_slice", catch(|| errs(SpanId::try_from_hex_slice(s.as_bytes())))));
        }
        "fl" => {
            v.push(("FromStr", catch(|| errs(s.parse::<TraceFlags>()))));
            v.push(("try_from_hex_slice", catch(|| errs(TraceFlags::try_from_hex_slice(s.as_bytes())))));
        }
        "tp" => {
            v.push(("FromStr", catch(|| errs(s.parse::<Traceparent>()))));
            v.push(("try_from_str", catch(|| errs(Traceparent::try_from_str(s)))));
        }
        "lvl" => {
            v.push(("FromStr", catch(|| errs(s.parse::<Level>()))));
            v.push(("try_from_str", catch(|| errs(Level::try_from_str(s)))));
        }
        "kind" => {
            v.push(("FromStr", catch(|| errs(s.parse::<Kind>()))));
            v.push(("try_from_str", catch(|| errs(Kind::try_from_str(s)))));
        }
        "path" => {
            v.push(("new_ref", catch(|| errs(Path::new_ref(s)))));
            v.push(("new_str", catch(|| errs(Path::new_str(Str::new_ref(s))))));
            v.push(("new_owned", catch(|| errs(Path::new_owned(s)))));
            v.push(("new_cow_ref", catch(|| errs(Path::new_cow_ref(std::borrow::Cow::Borrowed(s))))));
            if s.len() <= 12 {
                // (leaks the text: short ones only)
                v.push(("new(static)", catch(|| errs(Path::new(Box::leak(s.to_string().into_boxed_str()))))));
            }
        }
        _ => tool_error("unknown parser"),
    }
    v
}

/// How a flags value comes about (spec/Text.tla FlagForms).
const FLAG_FORMS: [&str; 5] = ["from_u8", "const", "not", "or", "and"];

const PARSERS: [&str; 8] = ["ts", "tid", "sid", "fl", "tp", "lvl", "kind", "path"];

struct St {
    /// (parser, form) pairs the specification declares don't-care (reported as a finding)
    dontcare: Vec<(String, String)>,
    /// error channel -> "same" | "contains" | "nonempty" (spec: ErrorVia)
    error_rule: std::collections::BTreeMap<String, String>,
    error_messages: std::collections::BTreeSet<String>,
    errors_rendered: u64,
    finding_obs: std::collections::BTreeMap<String, u64>,
    finding_examples: Vec<Value>,
    rep: Report,
    per_kind: std::collections::BTreeMap<String, u64>,
    decided: std::collections::BTreeMap<String, u64>,
}

impl St {
    /// keep at most 6 stored mismatches per kind
    fn mm(&mut self, what: String, case: &Value, detail: Value) {
        let n = self.per_kind.entry(what.clone()).or_insert(0);
        *n += 1;
        if *n <= 6 {
            self.rep.mismatch(&what, case, detail);
        } else {
            self.rep.total_mismatches += 1;
        }
    }

    /// every channel gives the text `want`; every typed capture casts back
    fn check_channels(&mut self, ty: &str, want: &str, got: Result<(Vec<(&'static str, String)>, Vec<(&'static str, bool)>), String>, case: &Value) {
        match got {
            Err(p) => self.mm(format!("{ty}-channel-panic"), case, json!({"panic": p})),
            Ok((chans, backs)) => {
                for (ch, g) in chans {
                    self.rep.checks += 1;
                    if g != want {
                        self.mm(format!("{ty}-channel-differs"), case, json!({"channel": ch, "want": want, "got": g}));
                    }
                }
                for (form, ok) in backs {
                    self.rep.checks += 1;
                    if self.dontcare.iter().any(|(p, f)| p == ty && f == form) {
                        *self.finding_obs.entry(format!("{ty}:typed-{form}:{}", if ok { "as-specified" } else { "differs" })).or_insert(0) += 1;
                        continue;
                    }
                    if !ok {
                        self.mm(format!("{ty}-typed-cast-differs"), case, json!({"form": form, "text": want}));
                    }
                }
            }
        }
    }

    /// a rejection is an error value: every channel gives its (non-empty) message, none panics
    fn check_errors(&mut self, parser: &str, s: &str, verdict: &str, case: &Value) {
        if verdict == "a" {
            return;
        }
        for (how, out) in error_points(parser, s) {
            match out {
                Err(p) => self.mm(format!("{parser}-error-panic"), case, json!({"text": s, "entry": how, "panic": p})),
                Ok(None) => {} // a value (don't-care), or accepts-malformed reported by check_text
                Ok(Some(chans)) => {
                    self.errors_rendered += 1;
                    let msg = chans.iter().find(|(c, _)| *c == "display").map(|(_, t)| t.clone()).unwrap_or_default();
                    self.rep.checks += 1;
                    if msg.is_empty() {
                        self.mm(format!("{parser}-error-message-empty"), case, json!({"text": s, "entry": how}));
                    } else if self.error_messages.len() < 64 {
                        self.error_messages.insert(format!("{parser}: {msg}"));
                    }
                    for (ch, got) in chans {
                        self.rep.checks += 1;
                        let ok = match self.error_rule.get(ch).map(|r| r.as_str()) {
                            Some("same") => got == msg,
                            Some("contains") => got.contains(&msg) && !got.is_empty(),
                            Some("nonempty") => !got.is_empty(),
                            _ => tool_error("error channel without a rule (no FORMS line?)"),
                        };
                        if !ok {
                            self.mm(format!("{parser}-error-channel-differs"), case, json!({"text": s, "entry": how, "channel": ch, "message": msg, "got": got}));
                        }
                    }
                }
            }
        }
    }

    fn check_text(&mut self, parser: &str, s: &str, verdict: &str, val: &Value, case: &Value) {
        self.check_errors(parser, s, verdict, case);
        for (how, out) in entry_points(parser, s) {
            self.rep.checks += 1;
            *self.decided.entry(format!("{parser}:{verdict}")).or_insert(0) += 1;
            let dc = self.dontcare.iter().any(|(p, f)| p == parser && f == how);
            if dc {
                if let (Ok(o), true) = (&out, verdict != "d") {
                    let agrees = (verdict == "a" && o.as_ref() == Some(val)) || (verdict == "r" && o.is_none());
                    *self.finding_obs.entry(format!("{parser}:{how}:{}", if agrees { "as-specified" } else { "differs" })).or_insert(0) += 1;
                    if !agrees && self.finding_examples.len() < 6 {
                        self.finding_examples.push(json!({"parser": parser, "form": how, "text": s, "statement": verdict, "got": o}));
                    }
                }
            }
            let verdict = if dc { "d" } else { verdict };
            match (verdict, out) {
                (_, Err(p)) => self.mm(format!("{parser}-panic"), case, json!({"text": s, "entry": how, "expected": verdict, "panic": p})),
                ("d", _) => {}
                ("a", Ok(Some(got))) if got == *val => {}
                ("a", Ok(Some(got))) => self.mm(format!("{parser}-wrong-value"), case, json!({"text": s, "entry": how, "want": val, "got": got})),
                ("a", Ok(None)) => self.mm(format!("{parser}-rejects-wellformed"), case, json!({"text": s, "entry": how, "want": val})),
                ("r", Ok(None)) => {}
                ("r", Ok(Some(got))) => self.mm(format!("{parser}-accepts-malformed"), case, json!({"text": s, "entry": how, "got": got})),
                _ => tool_error("bad verdict"),
            }
        }
    }
}

fn ts_from(v: &Value) -> Timestamp {
    let secs = v["d"].as_u64().unwrap() * 86400 + v["s"].as_u64().unwrap();
    Timestamp::from_unix(Duration::new(secs, v["n"].as_u64().unwrap() as u32)).unwrap_or_else(|| tool_error("instant out of range"))
}

fn fmt_prec(ts: Timestamp, p: usize) -> String {
    format!("{:.*}", p, ts)
}

fn main() {
    let args: Vec<String> = std::env::args().collect();
    let (cases, out, sweep) = (&args[1], &args[2], args.get(3).map(|s| s.as_str()).unwrap_or("quick"));
    quiet_panics();
    let mut st = St { dontcare: Vec::new(), error_rule: Default::default(), error_messages: Default::default(), errors_rendered: 0, finding_obs: Default::default(), finding_examples: Vec::new(), rep: Report::new(), per_kind: Default::default(), decided: Default::default() };
    let mut distinct_accept = std::collections::BTreeSet::new();
    for_each_case(cases, |_, line| {
        let c = &line["c"];
        st.rep.cases += 1;
        match line["k"].as_str().unwrap() {
            "CASE" => {
                let s = text_of(&c["t"]);
                for p in PARSERS {
                    let v = c[p]["v"].as_str().unwrap();
                    if v == "a" {
                        distinct_accept.insert(format!("{p}:{}", c[p]["val"]));
                    }
                    st.check_text(p, &s, v, &c[p]["val"], line);
                    // the typed value, out through every channel and back
                    if v == "a" && (p == "tid" || p == "sid" || p == "path") {
                        let want = if p == "path" { s.clone() } else { text_of(&c[p]["val"]) };
                        let got = catch(|| match p {
                            "tid" => s.parse::<TraceId>().ok().map(|t| (channels_full(&t), typed_casts_full(&t))),
                            "sid" => s.parse::<SpanId>().ok().map(|t| (channels_full(&t), typed_casts_full(&t))),
                            _ => Path::new_ref(&s).ok().map(|t| {
                                let mut ch = channels_full(&t);
                                ch.push(("sval-ref", sval_ref_text(&t)));
                                let owned = t.to_owned();
                                ch.push(("display", owned.to_string()));
                                ch.push(("sval", sval_text(&owned)));
                                ch.push(("sval-ref", sval_ref_text(&owned)));
                                let backs = vec![
                                    ("from_any", emit::Value::from_any(&t).cast::<Path>().as_ref() == Some(&t)),
                                    ("owned", emit::Value::from_any(&t).to_owned().by_ref().cast::<Path>().as_ref() == Some(&t)),
                                    ("serde", emit::Value::from_serde(&t).cast::<Path>().as_ref() == Some(&t)),
                                    ("sval", emit::Value::from_sval(&t).cast::<Path>().as_ref() == Some(&t)),
                                ];
                                (ch, backs)
                            }),
                        });
                        match got {
                            Ok(None) => {} // already reported as rejects-wellformed
                            Ok(Some(g)) => st.check_channels(p, &want, Ok(g), line),
                            Err(e) => st.check_channels(p, &want, Err(e), line),
                        }
                    }
                }
            }
            "FORMS" => {
                let same = |v: &Value, known: &[&str]| {
                    let a = v.as_array().unwrap_or_else(|| tool_error("FORMS: not an array"));
                    a.len() == known.len() && known.iter().all(|k| a.iter().any(|x| x == k))
                };
                if !same(&c["casts"], &CAST_FORMS) || !same(&c["channels"], &VALUE_CHANNELS) || !same(&c["typed"], &TYPED_CAST_FORMS) {
                    tool_error("the form / channel names of the specification and of the harness differ");
                }
                let er = c["errors"].as_object().unwrap_or_else(|| tool_error("FORMS: no error channels"));
                if !same(&c["flagforms"], &FLAG_FORMS) {
                    tool_error("the flag form names of the specification and of the harness differ");
                }
                if er.len() != ERROR_CHANNELS.len() || !ERROR_CHANNELS.iter().all(|k| er.contains_key(*k)) {
                    tool_error("the error channel names of the specification and of the harness differ");
                }
                st.error_rule = er.iter().map(|(k, v)| (k.clone(), v.as_str().unwrap().to_string())).collect();
                st.dontcare = c["dontcare"].as_array().unwrap().iter().map(|p| (p[0].as_str().unwrap().to_string(), p[1].as_str().unwrap().to_string())).collect();
            }
            "FMT" => {
                let ts = ts_from(&c["v"]);
                let p = c["p"].as_u64().unwrap() as usize;
                let want = text_of(&c["text"]);
                let r = catch(|| {
                    let mut got = vec![("{:.p}", fmt_prec(ts, p))];
                    if p == 9 {
                        got.push(("{}", ts.to_string()));
                        got.push(("{:?}", format!("{:?}", ts).trim_matches('"').to_string()));
                        got.push(("value", emit::Value::from_any(&ts).to_string()));
                        got.push(("serde", serde_json::to_value(&ts).unwrap().as_str().unwrap().to_string()));
                    }
                    let parts = ts.to_parts();
                    let pj = json!({"y": parts.years, "mo": parts.months, "d": parts.days, "h": parts.hours, "mi": parts.minutes, "s": parts.seconds, "n": parts.nanos});
                    let back = Timestamp::from_parts(ts.to_parts());
                    (got, pj, back)
                });
                match r {
                    Err(pn) => st.mm("format-panic".into(), line, json!({"panic": pn})),
                    Ok((got, pj, back)) => {
                        for (how, g) in got {
                            st.rep.checks += 1;
                            if g != want {
                                st.mm("ts-format-differs".into(), line, json!({"how": how, "want": want, "got": g}));
                            }
                        }
                        st.rep.checks += 2;
                        if pj != c["parts"] {
                            st.mm("ts-to_parts-differs".into(), line, json!({"want": c["parts"], "got": pj}));
                        }
                        if back != Some(ts) {
                            st.mm("ts-from_parts(to_parts)-differs".into(), line, json!({"got": back.map(ts_val)}));
                        }
                    }
                }
                // the round trip: parsing the predicted text gives the (truncated) instant
                st.check_text("ts", &want, "a", &c["back"], line);
                if p == 9 {
                    // the typed value, out through every channel and back; std interop
                    let got = catch(|| (channels_full(&ts), {
                        let mut b = typed_casts_full(&ts);
                        b.push(("to_system_time", ts.to_system_time().duration_since(std::time::UNIX_EPOCH).ok() == Some(ts.to_unix())));
                        b.push(("== by reference", ts == &ts && &ts == ts));
                        b
                    }));
                    st.check_channels("ts", &want, got, line);
                }
                st.rep.checks += 1;
                let dc = catch(|| emit::Value::from_any(&ts).cast::<Timestamp>() == Some(ts) && emit::Value::from_any(&ts).by_ref().cast::<Timestamp>() == Some(ts));
                if dc != Ok(true) {
                    st.mm("ts-value-roundtrip".into(), line, json!({"got": format!("{dc:?}")}));
                }
            }
            "FLAG" => {
                let b = c["b"].as_u64().unwrap() as u8;
                let want = text_of(&c["text"]);
                // the value however it comes about (spec: FlagForms), out as text and back
                let forms = c["forms"].as_object().unwrap_or_else(|| tool_error("FLAG: no forms"));
                if forms.len() != FLAG_FORMS.len() {
                    tool_error("the flag forms of the specification and of the harness differ");
                }
                for form in FLAG_FORMS {
                    let ops: Vec<u8> = forms.get(form).and_then(|o| o.as_array()).unwrap_or_else(|| tool_error("FLAG: unknown form")).iter().map(|x| x.as_u64().unwrap() as u8).collect();
                    let r = catch(|| {
                        let f = |x: u8| TraceFlags::from_u8(x);
                        let v = match form {
                            "from_u8" => f(ops[0]),
                            "const" => match ops[0] {
                                0 => TraceFlags::EMPTY,
                                1 => TraceFlags::SAMPLED,
                                x => f(x),
                            },
                            "not" => !f(ops[0]),
                            "or" => f(ops[0]) | f(ops[1]),
                            "and" => f(ops[0]) & f(ops[1]),
                            _ => tool_error("unknown flag form"),
                        };
                        (v.to_u8(), v.to_string(), want.parse::<TraceFlags>().ok() == Some(v), v == f(b), v.is_sampled())
                    });
                    st.rep.checks += 1;
                    if r != Ok((b, want.clone(), true, true, b & 1 == 1)) {
                        st.mm("flags-form-differs".into(), line, json!({"form": form, "operands": ops, "want": [json!(b), json!(want)], "got": format!("{r:?}")}));
                    }
                }
                st.rep.checks += 2;
                let r = catch(|| (TraceFlags::from_u8(b).to_string(), String::from_utf8(TraceFlags::from_u8(b).to_hex().to_vec()).unwrap()));
                if r != Ok((want.clone(), want.clone())) {
                    st.mm("flags-format-differs".into(), line, json!({"got": format!("{r:?}")}));
                }
                st.check_text("fl", &want, "a", &json!(b), line);
            }
            "TPFMT" => {
                let want = text_of(&c["text"]);
                let tid = text_of(&c["tid"]);
                let sid = text_of(&c["sid"]);
                let fl = c["fl"].as_u64().unwrap() as u8;
                st.rep.checks += 1;
                let r = catch(|| {
                    let t = if tid == "none" { None } else { Some(tid.parse::<TraceId>().unwrap()) };
                    let s = if sid == "none" { None } else { Some(sid.parse::<SpanId>().unwrap()) };
                    let tp = Traceparent::new(t, s, TraceFlags::from_u8(fl));
                    (tp.to_string(), want.parse::<Traceparent>().ok() == Some(tp))
                });
                if r != Ok((want.clone(), true)) {
                    st.mm("traceparent-format-differs".into(), line, json!({"got": format!("{r:?}")}));
                }
                st.check_text("tp", &want, "a", &json!({"tid": c["tid"], "sid": c["sid"], "fl": fl}), line);
            }
            "LVLFMT" => {
                let want = text_of(&c["text"]);
                let l = [Level::Debug, Level::Info, Level::Warn, Level::Error][c["val"].as_u64().unwrap() as usize - 1];
                st.rep.checks += 2;
                if l.to_string() != want || emit::Value::from_any(&l).to_string() != want {
                    st.mm("level-format-differs".into(), line, json!({"got": l.to_string()}));
                }
                if emit::Value::from_any(&l).cast::<Level>() != Some(l) {
                    st.mm("level-value-roundtrip".into(), line, json!({}));
                }
                st.check_text("lvl", &want, "a", &c["val"], line);
                let got = catch(|| (channels_plain(&l), typed_casts_plain(&l)));
                st.check_channels("lvl", &want, got, line);
            }
            "KINDFMT" => {
                let want = text_of(&c["text"]);
                let k = [Kind::Span, Kind::Metric][c["val"].as_u64().unwrap() as usize - 1];
                st.rep.checks += 2;
                if k.to_string() != want || emit::Value::from_any(&k).to_string() != want {
                    st.mm("kind-format-differs".into(), line, json!({"got": k.to_string()}));
                }
                if emit::Value::from_any(&k).cast::<Kind>() != Some(k) {
                    st.mm("kind-value-roundtrip".into(), line, json!({}));
                }
                st.check_text("kind", &want, "a", &c["val"], line);
                let got = catch(|| (channels_plain(&k), typed_casts_plain(&k)));
                st.check_channels("kind", &want, got, line);
            }
            _ => tool_error("unknown line kind"),
        }
    });
    let decided_by_spec = st.rep.checks;

    // ------------------------------------------------------------------ oracle-free sweeps
    let mut evals = 0u64;
    let none = json!(null);
    if sweep != "none" {
        // (1) every day of the range: parts both ways, parse(format) at a rotating precision,
        //     lexicographic order of adjacent formatted instants
        let step = 1u64;
        let mut prev: Option<(Timestamp, String)> = None;
        let mut d = 0u64;
        while d <= 2_932_896 {
            for (sod, n) in [(0u64, 0u32), (86_399, 999_999_999)] {
                let r = catch(|| {
                    let ts = Timestamp::from_unix(Duration::new(d * 86400 + sod, n)).unwrap();
                    let parts_ok = Timestamp::from_parts(ts.to_parts()) == Some(ts);
                    let full = ts.to_string();
                    let p = ((d + sod) % 10) as usize;
                    let q = 10u32.pow(9 - p as u32);
                    let trunc = Timestamp::from_unix(Duration::new(d * 86400 + sod, n / q * q)).unwrap();
                    let rt_ok = full.parse::<Timestamp>().ok() == Some(ts) && fmt_prec(ts, p).parse::<Timestamp>().ok() == Some(trunc);
                    (ts, full, parts_ok, rt_ok)
                });
                evals += 1;
                match r {
                    Err(p) => st.mm("sweep-panic".into(), &none, json!({"day": d, "sod": sod, "panic": p})),
                    Ok((ts, full, parts_ok, rt_ok)) => {
                        if !parts_ok {
                            st.mm("sweep-from_parts(to_parts)".into(), &none, json!({"day": d, "sod": sod}));
                        }
                        if !rt_ok {
                            st.mm("sweep-parse(format)".into(), &none, json!({"day": d, "sod": sod, "text": full}));
                        }
                        if let Some((pt, ptxt)) = &prev {
                            if !(*pt < ts && *ptxt < full) {
                                st.mm("sweep-lexicographic-order".into(), &none, json!({"a": ptxt, "b": full}));
                            }
                        }
                        prev = Some((ts, full));
                    }
                }
            }
            d += step;
        }
        // (2) every second of six days
        for day in [0u64, 59, 11_016, 11_017, 47_540, 2_932_896] {
            for sod in 0..86_400u64 {
                evals += 1;
                let r = catch(|| {
                    let ts = Timestamp::from_unix(Duration::new(day * 86400 + sod, 500_000_000)).unwrap();
                    Timestamp::from_parts(ts.to_parts()) == Some(ts) && fmt_prec(ts, 1).parse::<Timestamp>().ok() == Some(ts)
                });
                if r != Ok(true) {
                    st.mm("sweep-second-of-day".into(), &none, json!({"day": day, "sod": sod, "got": format!("{r:?}")}));
                }
            }
        }
        // (3) lexicographic order = instant order, per precision, on seeded random pairs
        let mut rng = Rng::from_env(15);
        let n_pairs = if sweep == "quick" { 20_000 } else { 400_000 };
        for _ in 0..n_pairs {
            let a = Duration::new(rng.below(253_402_300_800), rng.below(1_000_000_000) as u32);
            // b close to a, so that truncation matters
            let delta = [1u64, 999, 1_000_000, 999_999_999, 1_000_000_000, 86_400_000_000_000][rng.below(6) as usize];
            let b = a + Duration::from_nanos(rng.below(delta + 1));
            let (Some(ta), Some(tb)) = (Timestamp::from_unix(a), Timestamp::from_unix(b)) else { continue };
            evals += 1;
            let r = catch(|| {
                let mut ok = (ta.to_string() < tb.to_string()) == (ta < tb) && (ta.to_string() == tb.to_string()) == (ta == tb);
                for p in 0..=9usize {
                    // at reduced precision the order may only collapse, never invert
                    ok &= fmt_prec(ta, p) <= fmt_prec(tb, p);
                }
                ok
            });
            if r != Ok(true) {
                st.mm("sweep-order".into(), &none, json!({"a": format!("{a:?}"), "b": format!("{b:?}")}));
            }
        }
        // (4) ids: format -> parse for extreme and seeded random values, every byte width
        let n_ids = if sweep == "quick" { 20_000 } else { 1_000_000 };
        for i in 0..n_ids {
            let x: u128 = match i {
                0 => 1,
                1 => u128::MAX,
                2 => 1 << 127,
                3 => 1 << 64,
                4 => (1 << 64) - 1,
                5 => 1 << 63,
                _ => {
                    let v = ((rng.next() as u128) << 64) | rng.next() as u128;
                    v >> rng.below(128)
                }
            };
            evals += 1;
            let r = catch(|| {
                let mut ok = true;
                if let Some(t) = TraceId::from_u128(x) {
                    let s = t.to_string();
                    ok &= s.len() == 32 && s.parse::<TraceId>().ok() == Some(t) && s.to_uppercase().parse::<TraceId>().ok() == Some(t);
                    ok &= u128::from_str_radix(&s, 16) == Ok(x) && TraceId::from_bytes(t.to_bytes()) == Some(t);
                    ok &= emit::Value::from_any(&t).cast::<TraceId>() == Some(t) && emit::Value::from(&*s).cast::<TraceId>() == Some(t);
                } else {
                    ok &= x == 0;
                }
                let y = x as u64;
                if let Some(t) = SpanId::from_u64(y) {
                    let s = t.to_string();
                    ok &= s.len() == 16 && s.parse::<SpanId>().ok() == Some(t) && s.to_uppercase().parse::<SpanId>().ok() == Some(t);
                    ok &= u64::from_str_radix(&s, 16) == Ok(y) && SpanId::from_bytes(t.to_bytes()) == Some(t);
                    ok &= emit::Value::from_any(&t).cast::<SpanId>() == Some(t) && emit::Value::from(&*s).cast::<SpanId>() == Some(t);
                } else {
                    ok &= y == 0;
                }
                ok
            });
            if r != Ok(true) {
                st.mm("sweep-id-roundtrip".into(), &none, json!({"x": format!("{x:032x}"), "got": format!("{r:?}")}));
            }
        }
        // (5) random strings (chars of every UTF-8 width, signs, separators) of every length up
        //     to 64: no entry point may panic and all entry points of a parser agree
        let pool: Vec<char> = "0123456789abcdefABCDEFgGxXtTzZ-:.+ _\t\n\0\u{7f}é€😀/\\(){}\u{a0}\u{2028}٣".chars().collect();
        let n_str = if sweep == "quick" { 30_000 } else { 600_000 };
        let shapes = ["1970-01-01T00:00:00.000000000Z", "00-4bf92f3577b34da6a3ce929d0e0e4736-00f067aa0ba902b7-01", "4bf92f3577b34da6a3ce929d0e0e4736", "00f067aa0ba902b7", "information", "a::b::c"];
        for i in 0..n_str {
            let s: String = if i % 2 == 0 {
                let len = rng.below(65) as usize;
                (0..len).map(|_| pool[rng.below(pool.len() as u64) as usize]).collect()
            } else {
                // a well-formed text with a few random edits
                let mut cs: Vec<char> = shapes[rng.below(shapes.len() as u64) as usize].chars().collect();
                for _ in 0..1 + rng.below(3) {
                    let c = pool[rng.below(pool.len() as u64) as usize];
                    let at = rng.below(cs.len() as u64 + 1) as usize;
                    match rng.below(3) {
                        0 if at < cs.len() => cs[at] = c,
                        1 if at < cs.len() => {
                            cs.remove(at);
                        }
                        _ => cs.insert(at, c),
                    }
                }
                cs.into_iter().collect()
            };
            for p in PARSERS {
                st.check_errors(p, &s, "d", &none);
                let outs = entry_points(p, &s);
                evals += outs.len() as u64;
                let first = outs[0].1.clone();
                for (how, o) in &outs {
                    if let Err(pn) = o {
                        st.mm(format!("{p}-panic"), &none, json!({"text": s, "entry": how, "panic": pn, "source": "random"}));
                    } else if *o != first && !(p == "ts" && s.len() > 30) && !st.dontcare.iter().any(|(pp, f)| pp == p && f == how) {
                        st.mm(format!("{p}-entry-points-disagree"), &none, json!({"text": s, "entry": how, "first": format!("{first:?}"), "this": format!("{o:?}")}));
                    }
                }
            }
        }
    }
    st.rep.checks += evals;
    st.rep.extra.insert("decided_by_spec".into(), json!(decided_by_spec));
    st.rep.extra.insert("sweep_evaluations".into(), json!(evals));
    st.rep.extra.insert("distinct_accepted_values".into(), json!(distinct_accept.len()));
    st.rep.extra.insert("decided".into(), json!(st.decided));
    st.rep.extra.insert("errors_rendered".into(), json!(st.errors_rendered));
    st.rep.extra.insert("error_messages".into(), json!(st.error_messages));
    st.rep.extra.insert("findings_observed".into(), json!({"counts": st.finding_obs, "examples": st.finding_examples}));
    st.rep.extra.insert("mismatch_kinds".into(), json!(st.per_kind));
    st.rep.write(out);
}
