//! harness crate vh_text
