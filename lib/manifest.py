"""Writes MANIFEST.json from the table below (python3 lib/manifest.py)."""
import json
import os

VERIF = os.path.dirname(os.path.dirname(os.path.abspath(__file__)))

CLAIMS = {
    "C17": dict(
        cat="model_checking", ref="6/C17", technique="TLA+ spec (Level.tla: trie refines map) checked by TLC; every transition replayed on MinLevelPathMap",
        text="TLC explores every sequence of registrations/default settings up to the bound over a path universe with prefix-sharing siblings, depth 3 and a non-ASCII segment, checking that the trie the code uses refines the most-specific-path map of the statement; every transition of that graph is replayed on the real MinLevelPathMap/MinLevelFilter and `matches` compared for every module x level token (typed, textual, numeric, missing).",
        note="bounded model (<=3 ops quick, <=4 thorough, 8 registrable paths, 14 modules); trusts std binary search, TLC, the harness projection"),
}

NOT_YET = {}


def main():
    props = [json.loads(l)["id"] for l in open(os.path.join(VERIF, "properties.jsonl"))]
    checks = []
    for pid in props:
        c = CLAIMS.get(pid)
        if not c:
            continue
        checks.append({
            "property_id": pid,
            "quick_cmd": "bin/check %s --tier quick" % pid,
            "thorough_cmd": "bin/check %s --tier thorough" % pid,
            "evidence_file": "/verif/evidence/%s.json" % pid,
            "replay_cmd_template": "bin/check %s --replay {path}" % pid,
            "engine": "tlc+harness",
            "level_claimed": {"category": c["cat"], "text": c["text"], "design_ref": c["ref"]},
            "level_note": c["note"],
            "technique": c["technique"],
        })
    na = [{"property_id": p, "reason": NOT_YET.get(p, "check not built yet in this session (planned, see DESIGN.md section 6); not claimed until its specification and binding exist")}
          for p in props if p not in CLAIMS]
    m = {
        "version": 1,
        "setup_cmd": "bin/setup",
        "hooks": {
            "guard": "emit_rs_emit_verif",
            "enable": "RUSTFLAGS --cfg emit_rs_emit_verif via /verif/harness/.cargo/config.toml (harness workspace only)",
            "baseline_off_cmd": "cd /repo && cargo test --workspace --no-fail-fast --offline",
            "source_commits": SOURCE_COMMITS,
            "add_only": True,
        },
        "engines": [
            {"name": "tlc+harness", "path": "/verif/bin/check",
             "serves_properties": [c["property_id"] for c in checks],
             "kind_free_text": "explicit TLA+ specifications (spec/*.tla) model-checked by TLC; bound to the code by replaying TLC-generated behaviours on the real crates (harness/) and by validating recorded traces against trace specifications"}
        ],
        "checks": checks,
        "not_applicable": na,
        "notes": "See DESIGN.md. Exit 0 held / only known findings; 1 with VIOLATION line; 2 TOOL-ERROR.",
    }
    with open(os.path.join(VERIF, "MANIFEST.json"), "w") as f:
        json.dump(m, f, indent=1)


SOURCE_COMMITS = []

if __name__ == "__main__":
    main()
