"""Writes MANIFEST.json from the table below (python3 lib/manifest.py)."""
import json
import os

VERIF = os.path.dirname(os.path.dirname(os.path.abspath(__file__)))

CLAIMS = {
    "C17": dict(
        cat="model_checking", ref="6/C17", technique="TLA+ spec (Level.tla: trie refines map) checked by TLC; every transition replayed on MinLevelPathMap",
        text="TLC explores every sequence of registrations/default settings up to the bound over a path universe with prefix-sharing siblings, depth 3 and a non-ASCII segment, checking that the trie the code uses refines the most-specific-path map of the statement; every transition of that graph is replayed on the real MinLevelPathMap/MinLevelFilter and `matches` compared for every module x level token (typed, textual, numeric, missing).",
        note="bounded model (<=3 ops quick, <=4 thorough, 8 registrable paths, 14 modules); trusts std binary search, TLC, the harness projection"),
}

_BATCH_TECH = "TLA+ spec Batcher.tla (implementation-shaped) model-checked by TLC; every transition forced on the real Sender/Receiver via scheduling-point hooks; recorded traces validated by TLC against ChannelTrace.tla"
_BATCH_NOTE = "bounded configurations (2-3 sender threads x 1-3 ops, 1-2 flushers, capacities 1-2, <=2-3 processor faults, receiver kill); level-A monitor ChannelTrace.tla is the oracle, level-B differences that level A accepts are MODEL-DRIFT; trusts TLC, std Mutex/Condvar, the hook placement (before lock acquisitions / while the lock is held), the harness projection; tokio/condvar internals only under OS scheduling"
CLAIMS.update({
    "C06": dict(cat="model_checking", ref="6/C06", technique=_BATCH_TECH, note=_BATCH_NOTE,
        text="Exhaustive TLC check of the channel design (Partition: swapped-out batches followed by the pending queue equal the accepted sequence minus counted truncations; retry = exactly the remainder) for all interleavings of the bounded configurations; every transition of those state graphs is forced on the real emit_batcher through the scheduler hook and on_batch arguments, queue lengths and metrics are compared step by step; level-A traces of replays and of OS-scheduled sync/tokio workers are validated by TLC (Take = whole queue only when the previous batch is finished, first Call = batch taken, retry Call = remainder returned)."),
    "C07": dict(cat="model_checking", ref="6/C07", technique=_BATCH_TECH, note=_BATCH_NOTE,
        text="TLC checks FlushMeansDone / FlushRetTruthful on every reachable state of the channel design (a flush callback fires / blocking flush returns true only when every item accepted before the request has finished its final attempt or was truncated); every transition is forced on the real code and flush results compared; recorded executions (replays, OS-scheduled sync and tokio workers with failing / panicking processors) are validated by TLC against the level-A monitor whose Fired/FlushRet actions carry exactly that guard. The carry-through to emit_file / emit_otlp is exercised by C10/C12's checks."),
    "C08": dict(cat="model_checking", ref="6/C08", technique=_BATCH_TECH + "; liveness under weak fairness", note=_BATCH_NOTE,
        text="TLC checks liveness of the receiver design under weak fairness (every registered flush fires, blocked senders wake, sender drop leads to drain and termination, every accepted item is eventually done) and the safety side (retry budget, bounded back-off, callbacks at most once); replays detect hangs of the real code step by step and compare retry/delay/metric behaviour; level-A validation requires bounded attempts, non-decreasing bounded back-off, callbacks once, Exit only when drained; blocking_flush/blocking_send are called from plain, tokio multi-thread worker, current-thread and blocking-pool contexts against live and stalled receivers under a watchdog (a panic or hang is an event the specification has no action for)."),
    "C09": dict(cat="model_checking", ref="6/C09", technique=_BATCH_TECH, note=_BATCH_NOTE,
        text="TLC checks Bounded (queue <= capacity), the overflow rule and SendNeverWaits (Send enabled in every receiver state) on the design; every transition is forced on the real code with the queue length observed under the lock after every send; level-A validation decides each Send/TrySend/SendRet event: truncation iff the queue was full, new item kept, one count per truncation, fallible/blocking sends enqueue or hand the item back, including a receiver that never runs or is stalled (kill / stalled-processor scenarios). Carry-through to the emitters' own channels: OtlpChan.tla (len counts events) and FileChan.tla (what emit_file's channel keeps alive is what is pending: the eager behaviours are replayed on a real FileSet with a parked worker and the live heap is measured after every step)."),
})

CLAIMS.update({
    "C05": dict(cat="model_checking", ref="6/C05",
        technique="TLA+ spec SpanGuard.tla (level B: the state/data/completion take() triple refines level A: the statement) explored exhaustively by TLC; every transition plus terminal probes replayed on real SpanGuards and #[emit::span] expansions",
        text="TLC explores the whole (finite, cyclic) graph of SpanGuard operation sequences - New with both filter verdicts, Start, WithMdl/Name/Props, MapProps, WithCompletion, Complete, CompleteWith, Drop, DropWhilePanicking, under six clock scripts and five completion kinds - checking AtMostOnce, ExactlyOnceIffEnabledStarted, EnabledIsFilterVerdict, ReturnValueTruthful, ExtentIsStartToEnd, CarriesLatestData, PanicAddsErrAndLevel and refinement of the statement; every transition is printed with the level-A prediction and replayed on a type-erased real SpanGuard and on real #[emit::span] functions (sync/async, return, early return, ?, panic, ok_lvl/err_lvl/panic_lvl/guard), each non-terminal edge followed by every terminal operation; the F2 design mutation is re-checked on every run.",
        note="erased guard stands for statically typed chains (methods are generic, never inspect P/F); macro forms are a fixed fixture set (span-on-block, err: mapper, setup: not exercised); extent is a don't-care when a clock reading is None; trusts TLC, std::thread::panicking, the harness projection"),
    "C20": dict(cat="model_checking", ref="6/C20",
        technique="TLA+ spec Slot.tla model-checked by TLC (all interleavings of 3 initialisers x 2-3 observers; three wrong designs rejected); OS-scheduled rounds on fresh AmbientSlots recorded with call start/end numbers and validated by TLC against SlotTrace.tla (linearizability-style trace validation)",
        text="TLC checks AtMostOneWinner, ExactlyOneWinner, LosersNeverReceive, AllFiveTogether, InertBefore and Stable on every interleaving of the slot design (atomic TrySet / Read steps between call start and return); the real code is bound by trace validation: thousands of barrier-released rounds with racing initialisers (try_init_slot, init_slot under catch_unwind, AmbientSlot::init; all five components tagged) and observers (is_enabled, emit, span, flush, five component probes) on a fresh AmbientSlot per round, plus the global slot in child processes; TLC places the internal steps and rejects any round no linearization explains; a corrupted trace must be rejected on every run.",
        note="real interleavings come from the OS scheduler (not enumerated): a defect with a window of a few instructions is found with high probability over the rounds, not with certainty; OnceLock set/get treated as linearizable; components are test doubles; exhaustive part holds within the stated bounds"),
})

CLAIMS.update({
    "C13": dict(cat="exploration", ref="6/C13, 7",
        technique="TLA+ record-mapping spec Encode.tla (level-B Dedup/Lift/Attr pipeline refines the level-A record definitions) checked by TLC; TLC-enumerated abstract events replayed on the real sinks with seeded concrete values and projected back",
        text="The specification carries the record mapping (which field, which attribute, once, first value, unique keys, totality over value shapes) and TLC checks it (AttrKeysUnique, EveryPropOnce, FirstWins, WellKnownLifted, Total, Refines); for every abstract event TLC enumerates (kind x extent x header x up to 2-3 extra properties over 14 keys and 49-195 shapes incl. duplicates, ids, errors, non-text map keys) the real emit_file writer, emit_otlp logs/traces/metrics in protobuf and JSON over a loopback collector and emit_term run on seeded pool values: no panic on the emitting thread, one JSON object per file line with the predicted members, OTLP bodies decode with the prost schema types, lifted fields from the first occurrence, unique attributes with the predicted AnyValue image, protobuf and JSON twins equal. Exploration level: byte-level fidelity is decided by decoders and pool values, not enumerated by TLC.",
        note="values come from a seeded pool, not from TLC; prost + generated types trusted as the schema, serde_json decides well-formedness; map keys limited to text/bool/i64/f64; don't-cares listed in DESIGN (attribute order, monotonic/temporality, NaN/Inf JSON rendering, terminal output beyond no-panic + message text)"),
    "C19": dict(cat="exploration", ref="6/C19, 7",
        technique="TLA+ meaning table and representation-path state machine Capture.tla checked by TLC; every TLC-enumerated (mode, shape, path) replayed on values captured at 333 real macro call sites",
        text="The specification carries what each capture mode promises (typed pull, Display, Debug, structure tree, error chain, presence) and which components survive each step of a value's life (ByRef, Erase, EraseEvent, ToOwned, ToShared, IntoCtxt, MoveThread, ReadBack); TLC checks Preserved, PresenceNeverLost, TypedSurvivesBuffering, StructureSurvivesBuffering, DirectReadKeepsAll over all paths up to length 4-5 and prints the predicted observation vectors; the harness captures at real macro call sites (one per mode x Rust type), applies each path to the resulting emit::Value and compares cast/to_string/Debug/serde_json/sval_json (cross-framework) with the original's own output; optional None must yield no key anywhere.",
        note="value-bag, sval and the serde bridges are exercised, not modelled; values from a seeded pool; don't-cares: Display/Debug text after buffering, inspect-mode formatting of primitives; reads through each sink are covered by C13"),
})

CLAIMS.update({
    "C12": dict(cat="model_checking", ref="6/C12",
        technique="TLA+ spec Otlp.tla (request grouping, send loop, connection poisoning, reply interpretation, batcher retry) model-checked by TLC; TLC-generated fault scenarios run on real emit_otlp emitters against a scripted loopback collector; recorded traces validated by TLC against OtlpTrace.tla (level A) and OtlpConf.tla (level B)",
        text="TLC explores every emitter/worker interleaving and every bounded collector fault script of the export design (AtLeastOnce, ExactlyOnceWhenClean, ResendSame, FreshConnAfterBreak, NoSilentLoss, Grouping; liveness FlushCompletes; the double-pop design must violate AtLeastOnce); the generated scenarios are crossed with HTTP/JSON, HTTP/protobuf, gRPC x gzip x signal subsets and run on real emitters against a collector that acks, rejects (5xx, grpc-status in trailer or trailers-only), stalls, resets before/after reading or refuses; every recorded trace (Emit, Req with decoded event ids, Connect, FlushRet) is decided by TLC against the level-A monitor, including batches above the real 1 MiB limit and one-signal-down scenarios; a corrupted trace must be rejected on every run.",
        note="uses guarded hooks emit_otlp::verif (request size limit, request timeout) and emit_batcher::verif::set_delay_scale; level B models one signal, SignalsIndependent and FlushCompletes are judged at level A with wall-clock margins; retry-budget exhaustion out of scope; trusts the harness collector/decoder, prost-generated types, TLC"),
    "C14": dict(cat="model_checking", ref="6/C14",
        technique="TLA+ specs OtlpRoute.tla (the TryMetrics/TryTraces/TryLogs/Discard emit path as a state machine checked by TLC to equal the statement's Route on the whole abstract domain) and OtlpCount.tla (the discard counter under every interleaving of concurrent emitters); every case replayed as one tagged event, every script on real threads, on a real Otlp emitter",
        text="TLC enumerates kind spelling x extent x metric-value shape x aggregation x the 8 signal subsets as initial states and checks RouteRefines, DiscardCounted, OnlyConfigured, SentOnce on the transcription of the encoders' decline conditions; each case is then sent as one tagged event through a real emit_otlp::Otlp per signal subset and transport to the loopback collector: the endpoint that received the tag exactly once and the event_discarded delta must be a route the statement permits. The accounting clause under concurrency is OtlpCount.tla: every interleaving of threads emitting through one emitter counts each discarded event exactly once (a load/store counter must fail); its scripts are run on real threads with each step repeated 50 000 times.",
        note="one concrete value per abstract class; lenient kind spellings and empty sequences are don't-cares; collector always acks; trusts the harness collector/decoder and prost-generated types"),
})

_FILE_TECH = "TLA+ specs FileWorker.tla (level B: Worker::on_batch call by call over an abstract crash/fault filesystem) and FileSetBase/FileSetTrace.tla (level A) checked by TLC; every call-ending / crashing transition replayed on the real Worker through the cfg hook over an in-memory fault-injecting filesystem; divergent and random-history traces validated by TLC at level A"
_FILE_NOTE = "filesystem model: a write appends whole, one byte or nothing; sync_all makes content durable, sync_parent directory entries; a crash keeps any prefix of unsynced writes and may drop a file whose entry was never synced; batcher modelled as the environment feeding the remainder back; FileSet::emit and StdFilesystem are outside the hook; bounds per cfg header; trusts TLC and the harness projection (bytes to tokens)"
CLAIMS.update({
    "C10": dict(cat="model_checking", ref="6/C10", technique=_FILE_TECH, note=_FILE_NOTE,
        text="TLC checks Durable (in every state, including after a crash at every call boundary), RecordsWellFormed, RetryIsWhole, AckOnlyAfterSync and NoGarbage on the worker design for every fault (error / short write) at every filesystem call, crashes losing any torn suffix of unsynced data, restarts with and without reuse and clock steps within the bounds; every transition that ends a call or crashes is replayed on the real Worker under three lexical configurations and compared call by call, result/remainder and final directory as tokens; runs that differ from level B and seeded random long histories are decided by TLC at level A (a clause of the property in the verdict is a VIOLATION, anything else MODEL-DRIFT)."),
    "C11": dict(cat="model_checking", ref="6/C11", technique=_FILE_TECH, note=_FILE_NOTE + "; names matched against the exact zero-padded text; Retained asserted for batches that created a file without list/remove fault",
        text="Same binding as C10 for the clauses OneFilePerBatch, RollOnlyWhen, MustRoll, NameIs, NewestFirst, Retained, OldestFirst, NoPanic (max_files >= 1) and OwnSetOnly: TLC enumerates max_files x size limit x reuse, clock same/later/next/back, overflow-truncated batches, random-id orders, restarts and faults; the harness adds roll-by day/hour/minute, dotted prefixes and sibling sets (app2.*, app.other.*, ap.*, junk) in the directory."),
    "C15": dict(cat="exploration", ref="6/C15, 7",
        technique="TLA+ spec Text.tla: grammar acceptors with value functions over character classes; TLC checks the transcribed is_valid_path and level parse automata against the grammar for all short strings and enumerates cases (exhaustive short strings, near-misses of well-formed texts, boundary values) with predicted verdicts replayed on every parser entry point; oracle-free round-trip sweeps",
        text="TLC shows the transcriptions of is_valid_path and the lenient level parser decide exactly their grammar for every string up to 7 / 5 characters over the class alphabets, and enumerates texts (all short strings over 17 character classes, every single replace/insert/delete/transpose/truncate of 38 well-formed texts) each with a verdict per acceptor (RFC3339 timestamp with an independent civil calendar, trace/span id, flags, traceparent, level, kind, path: accept with value / reject / don't-care); every entry point (FromStr, try_from_str, Timestamp::parse, try_from_hex(_slice), Value casts from borrowed/owned/Display text, Props::pull) is called under catch_unwind and compared; formatted texts are predicted by the spec for month boundaries 1970-9999 x precisions, all 256 flag bytes, traceparents, levels, kinds. Exploration level: all-strings is covered exhaustively only for short strings and edit neighbourhoods; the every-day / random sweeps are self-consistency without a spec oracle.",
        note="one representative per character class; don't-cares: well-shaped timestamps with out-of-range fields, t/z/space RFC3339 variants, upper-case hex in traceparents; sweeps check self-consistency and absence of panics only"),
    "C16": dict(cat="model_checking", ref="6/C16",
        technique="TLA+ spec Template.tla: the byte-cursor algorithm of Template::eq as a state machine checked by TLC to refine Norm(a)=Norm(b) for all template pairs in the bounded domain (pairs as initial states); TLC-printed templates and generated macro call sites replayed on the real Template",
        text="For every ordered pair of templates over 1/2/4-byte characters (up to 3-4 parts) TLC shows the transcription of the repaired PartialEq terminates without panic with exactly Norm(a)=Norm(b), is an equivalence, and that rendering does not depend on how text is split; the transcriptions of the unrepaired code must violate the invariant on every run; the real Template through every constructor is compared with == for every ordered pair under catch_unwind against the spec's normal forms and rendered to Display, Formatter, String and recording writers against the spec's Render for property sets with duplicates, absent and empty labels and formatters; 716 TLC-enumerated macro literals (escaped braces, adjacent holes, expression holes, fmt flags, key renames) are compiled as tpl!/evt!/emit! call sites and compared.",
        note="a/e-acute/emoji stand for the 1/2/4-byte UTF-8 classes; formatters are outside equality; cfg'd holes and the span-name literal not covered; macro token syntax lives in the generator (lib/checks/c16.py)"),
})

CLAIMS.update({
    "C01": dict(cat="model_checking", ref="6/C01",
        technique="TLA+ spec Emit.tla: the emit_core::emit pipeline (snapshot ctxt, resolve extent, evaluate effective filter with consulted leaves recorded, dispatch per destination) as a state machine over filter / destination combinator trees, checked by TLC against the logical definitions; every finished configuration replayed on the real combinators, erased and statically typed",
        text="TLC runs the pipeline over every configuration of three scenario products (event shapes x leaf predicates x entries; filter trees; destination trees) and checks ExactlyOnce, WrappersTransparent, DirectBypass and ShortCircuit; each configuration is executed on the real code through seven call forms (Runtime::emit, Emitter::emit on a Runtime, emit_core::emit, emit! with/without when:, emit!(evt:) with/without when:, Emitter::emit directly on the tree), once with every node erased (Box<dyn ErasedFilter/ErasedEmitter>) and for 349 stamped shapes statically typed; per-leaf delivery count, delivered properties in order, delivered extent, consultation order of the effective filter (the other filter never consulted) and the absence of ctxt/clock reads on the direct path are compared, and the erased and generic logs must be identical.",
        note="11 leaf predicates stand for arbitrary filters; scenario products rather than the full product of all dimensions; tree depth <=2 exhaustive (quick), restricted depth 3 (thorough); order in which an And destination reaches its sides and the number of clock reads are drift only; WrapFn/Runtime(t)/Assert nodes and blocking_flush not modelled; trusts TLC and the harness interpreter"),
    "C02": dict(cat="model_checking", ref="6/C02",
        technique="TLA+ spec Props.tla: level-B transcriptions of every for_each/get/is_unique (And, Dedup, default get, break contract, macro-props lookup) checked by TLC against Enum/First; every tree replayed on the real types (erased and statically typed); macro call sites are TLC-enumerated generated Rust programs compiled into the harness",
        text="TLC checks GetIsFirst, DedupOnceFirst, UniqueClaimSound, BreakStops and EnumIsSpec over pair/array/slice/BTreeMap/HashMap/Empty/Option/&/Box/Arc/dyn ErasedProps/dedup()/as_map()/and_props trees, the ThreadLocalCtxt snapshot and the Extent and SpanCtxt views, keys \"\", a, b, e-acute; each tree is built on the real types and for_each (full and breaking at every n), get by &str and Str, pull, is_unique and dedup() are compared (unordered collections: any admissible permutation, get must agree with the observed one); macro call sites (<=3 identifiers incl. r#type x plain / #[emit::key] renamed smaller, larger, non-identifier, empty / #[emit::optional] Some, None / #[cfg(any())], #[cfg(all())], distinct final names) are generated as real emit::props!/evt!/emit! programs checking enumeration, lookup of every final key, erased and as_map views and the rendered message; the lookup as originally found must violate GetIsFirst on every run.",
        note="order inside HashMap, ctxt, dedup and macro collections unspecified (any permutation accepted); std map lookup trusted; Span and Metric event property views not modelled; ThreadLocalCtxt covered for a single pushed frame (stacking belongs to C03); thorough tier uses TLC simulation for deep trees"),
})

_SPAN_TECH = "explicit TLA+ spec model-checked by TLC; every transition of the state graph is a program with the level-A prediction after each step, interpreted on the real crates (one OS thread per model thread, hand-polled frame-wrapped futures, real macro expansions, real panics); thorough tiers add TLC simulation"
CLAIMS.update({
    "C03": dict(cat="model_checking", ref="6/C03", technique=_SPAN_TECH + " (Ctxt.tla)",
        text="Within bounds (up to 3 threads, 3 frames, 2 tasks, nesting 3, two new() and two shared() context instances, push/root/disabled/current frames, guard/call/in_fn/with/in_future/raw enter-exit, panics) TLC shows that the swap design of ThreadLocalCtxt gives exactly 'the innermost active frame wins' (InnermostWins, NoTrace, StackOK, ExitRestores, Isolation); every transition is replayed on the real crate and after every step every thread's with_current (enumeration, get/pull, properties attached to an emitted event) must equal the prediction for every context instance.",
        note="guards: well-nested programs, distinct keys within a frame; disabled and current frames use snapshot semantics; shared() instances alias one storage by design; one catch level per thread; Frame cloning and a separate TaskIsolation property not covered; trusts TLC and the harness interpreter"),
    "C04": dict(cat="model_checking", ref="6/C04", technique=_SPAN_TECH + " (Span.tla, extends Ctxt)",
        text="TLC shows the id derivation (current -> new_child -> pushed or disabled frame -> completion re-reading the ambient ids) yields one trace tree (FrameIds, AmbientIds, OneTrace, ParentIsEnclosing = nearest enabled ancestor, EventCarriesInnermost, IdsDistinct, Revert); every span node is replayed through a real macro expansion (#[emit::span] on sync/async fns, guard:, ok_lvl:, new_span!, SpanGuard::new) with filter verdicts free at every node, thread hand-offs via carried frames and interleaved polls of sibling async spans; emitted records and SpanCtxt::current on every thread are compared after every step with ids matched up to a bijection.",
        note="rng assumed free of zeros and repeats (a guard); no panics and no root frames between spans; incoming ids pushed at the edge in typed/hex/integer/SpanCtxt forms; block-form macros not covered; on event records only trace id and span id compared"),
    "C18": dict(cat="model_checking", ref="6/C18", technique=_SPAN_TECH + " (Traceparent.tla, extends Span)",
        text="TLC shows the transcribed incoming_traceparent, filters and thread-local slot swap satisfy SamplerOncePerTrace, DecisionGoverns, UnsampledSilent, SampledConsistent, NoTraceNoParent, FrameCarries and Restored; programs are replayed on the real TraceparentFilter-with-sampler runtime (with and without in_sampled_trace_filter) over TraceparentCtxt<ThreadLocalCtxt>; the sampler log, emitted records and Traceparent::current() with its format/parse round trip on every thread are compared after every step; the model of the code as found (no snapshot on push) must still fail in the thorough tier.",
        note="nothing is compared where the statement is silent (Traceparent::current() outside a trace, ids inside unsampled traces, events outside traces); headers with a trace id but no span id not generated; no call-site when, no panics; Frame::root under TraceparentCtxt and tracestate contents not modelled"),
})

NOT_YET = {}


def main():
    import subprocess
    log = subprocess.run(["git", "-C", "/repo", "log", "--format=%h %s"], capture_output=True, text=True).stdout
    SOURCE_COMMITS[:] = [l.split()[0] for l in log.splitlines() if l.split(" ", 1)[1].startswith("verif hooks")]
    props = [json.loads(l)["id"] for l in open(os.path.join(VERIF, "properties.jsonl"))]
    checks = []
    for pid in props:
        c = CLAIMS.get(pid)
        if not c:
            continue
        checks.append({
            "property_id": pid,
            "quick_cmd": "bin/check %s --tier quick" % pid,
            "thorough_cmd": "bin/check %s --tier thorough" % pid,
            "evidence_file": "/verif/evidence/%s.json" % pid,
            "replay_cmd_template": "bin/check %s --replay {path}" % pid,
            "engine": "tlc+harness",
            "level_claimed": {"category": c["cat"], "text": c["text"], "design_ref": c["ref"]},
            "level_note": c["note"],
            "technique": c["technique"],
        })
    na = [{"property_id": p, "reason": NOT_YET.get(p, "check not built yet in this session (planned, see DESIGN.md section 6); not claimed until its specification and binding exist")}
          for p in props if p not in CLAIMS]
    m = {
        "version": 1,
        "setup_cmd": "bin/setup",
        "hooks": {
            "guard": "emit_rs_emit_verif",
            "enable": "RUSTFLAGS --cfg emit_rs_emit_verif via /verif/harness/.cargo/config.toml (harness workspace only)",
            "baseline_off_cmd": "cd /repo && cargo test --workspace --no-fail-fast --offline",
            "source_commits": SOURCE_COMMITS,
            "add_only": True,
        },
        "engines": [
            {"name": "tlc+harness", "path": "/verif/bin/check",
             "serves_properties": [c["property_id"] for c in checks],
             "kind_free_text": "explicit TLA+ specifications (spec/*.tla) model-checked by TLC; bound to the code by replaying TLC-generated behaviours on the real crates (harness/) and by validating recorded traces against trace specifications"}
        ],
        "checks": checks,
        "not_applicable": na,
        "notes": "See DESIGN.md. Exit 0 held / only known findings; 1 with VIOLATION line; 2 TOOL-ERROR.",
    }
    with open(os.path.join(VERIF, "MANIFEST.json"), "w") as f:
        json.dump(m, f, indent=1)


SOURCE_COMMITS = []   # filled from git log by main()

if __name__ == "__main__":
    main()
