"""Driver: bin/check <ID> [--tier quick|thorough] [--replay FILE]."""
import argparse
import importlib
import os
import sys
import traceback

sys.path.insert(0, os.path.dirname(os.path.abspath(__file__)))
import vlib  # noqa: E402


def main():
    ap = argparse.ArgumentParser()
    ap.add_argument("prop")
    ap.add_argument("--tier", default=os.environ.get("VERIF_TIER", "quick"),
                    choices=["quick", "thorough"])
    ap.add_argument("--replay", default=None)
    a = ap.parse_args()
    seed = int(os.environ.get("VERIF_SEED", "0") or 0)
    prop = a.prop.upper()
    try:
        mod = importlib.import_module("checks.%s" % prop.lower())
    except ImportError as e:
        print("TOOL-ERROR: no check for %s (%s)" % (prop, e), file=sys.stderr)
        return 2
    ctx = vlib.Ctx(prop, a.tier, seed, a.replay)
    try:
        mod.run(ctx)
        rc = ctx.finish()
    except vlib.ToolError as e:
        print("TOOL-ERROR: %s" % e, file=sys.stderr)
        return 2
    except Exception:
        traceback.print_exc()
        print("TOOL-ERROR: internal error in check %s" % prop, file=sys.stderr)
        return 2
    print("%s %s: %s (%d TLC states, %d impl executions decided, %.0fs)" % (
        prop, a.tier, "VIOLATED" if rc else "held", ctx.cov["states"],
        ctx.cov["traces_validated_against_impl"], __import__("time").time() - ctx.t0))
    return rc


if __name__ == "__main__":
    sys.exit(main())
