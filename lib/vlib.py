"""Common machinery for the emit-rs/emit model-based checks.

Everything here is stdlib-only python.  A check module (lib/checks/cXX.py) gets a
`Ctx`, runs TLC on a specification (`ctx.tlc`), feeds what TLC generated to a Rust
harness built against /repo's working tree (`ctx.cargo_build`, `ctx.run_harness`),
and/or validates traces recorded from the real code with TLC (`ctx.validate_trace`).
It reports through `ctx.violation` / `ctx.note_*` and the driver writes the evidence.

Exit codes (bin/check): 0 held / only known findings, 1 VIOLATION, 2 TOOL-ERROR.
"""
import hashlib
import json
import os
import re
import shutil
import subprocess
import sys
import time

VERIF = os.path.dirname(os.path.dirname(os.path.abspath(__file__)))
REPO = os.environ.get("VERIF_REPO", "/repo")
SPEC = os.path.join(VERIF, "spec")
HARNESS = os.path.join(VERIF, "harness")
TLA_JAR = "/opt/veriftools/tla/tla2tools.jar"
TLA_CP = TLA_JAR + ":/opt/veriftools/tla/CommunityModules-deps.jar"
GUARD = "emit_rs_emit_verif"


class ToolError(Exception):
    pass


def log(*a):
    print(*a, file=sys.stderr, flush=True)


class TlcResult:
    def __init__(self):
        self.states = 0          # states generated
        self.distinct = 0        # distinct states
        self.depth = 0
        self.violated = None     # name of violated invariant/property, or None
        self.error_text = ""
        self.out_path = None
        self.coverage = {}       # action name -> (distinct, total)
        self.wall_s = 0.0
        self.exhaustive = False
        self.printed = 0
        self.rc = None
        self.counterexample = []


class Ctx:
    def __init__(self, prop, tier, seed, replay=None):
        self.prop = prop
        self.tier = tier
        self.seed = seed
        self.replay = replay
        self.t0 = time.time()
        self.out = os.path.join(VERIF, "out", "%s-%s" % (prop, tier))
        shutil.rmtree(self.out, ignore_errors=True)
        os.makedirs(self.out, exist_ok=True)
        self.violations = []
        self.known_hits = []
        self.cov = {
            "states": 0, "transitions": 0, "traces_validated_against_impl": 0,
            "samples": [], "tlc_runs": [], "exhaustive": True, "drift": [],
            "known_findings": [], "actions": {}, "evaluations": 0,
            "distinct_nontrivial": 0, "rule": "",
        }
        self.assumptions = []
        self.level = "model_checking"
        self._kf = load_known_findings()
        self.quick = tier == "quick"

    # ------------------------------------------------------------------ TLC
    def tlc(self, module, cfg, workers=8, simulate=None, depth=None, timeout=900,
            xmx="6g", env=None, coverage=True, extra=None, expect_violation=False,
            count=True, deque=False, label=None, xss=None):
        """Run TLC on spec/<module>.tla with spec/<cfg>.  Output goes to a file
        in the out dir (REPLAY lines can be large).  Returns a TlcResult."""
        label = label or cfg.replace(".cfg", "")
        outp = os.path.join(self.out, "tlc-%s.out" % label)
        meta = os.path.join(self.out, "meta-%s" % label)
        shutil.rmtree(meta, ignore_errors=True)
        jopts = ["-XX:+UseParallelGC", "-Xmx" + xmx, "-Dfile.encoding=UTF-8",
                 "-Dstdout.encoding=UTF-8"]
        if xss:
            jopts.append("-Xss" + xss)
        if deque:
            jopts.append("-Dtlc2.tool.queue.IStateQueue=StateDeque")
        cmd = ["java"] + jopts + ["-cp", TLA_CP, "tlc2.TLC",
               "-workers", str(workers), "-metadir", meta, "-cleanup",
               "-noGenerateSpecTE", "-config", cfg]
        if coverage and not simulate:
            cmd += ["-coverage", "1"]
        if simulate:
            cmd += ["-simulate", "num=%d" % simulate, "-depth", str(depth or 100),
                    "-seed", str(self.seed + 1)]
        if extra:
            cmd += list(extra)
        cmd += [module + ".tla" if not module.endswith(".tla") else module]
        e = dict(os.environ)
        e.pop("JAVA_TOOL_OPTIONS", None)
        if env:
            e.update(env)
        t = time.time()
        with open(outp, "w") as fo:
            try:
                p = subprocess.run(cmd, cwd=SPEC, stdout=fo, stderr=subprocess.STDOUT,
                                   env=e, timeout=timeout)
                rc = p.returncode
            except subprocess.TimeoutExpired:
                raise ToolError("TLC timed out after %ss on %s/%s" % (timeout, module, cfg))
        shutil.rmtree(meta, ignore_errors=True)
        r = parse_tlc_output(outp)
        r.rc = rc
        r.wall_s = time.time() - t
        r.exhaustive = (not simulate) and r.violated is None and rc == 0
        if r.violated is None and rc != 0:
            tail = tail_of(outp, 40)
            raise ToolError("TLC failed (rc=%s) on %s/%s:\n%s" % (rc, module, cfg, tail))
        if r.violated is not None and not expect_violation:
            # a design-level violation of the specification itself
            pass
        if count:
            self.cov["states"] += r.distinct
            self.cov["transitions"] += r.states
            self.cov["tlc_runs"].append({
                "module": module, "cfg": cfg, "mode": "simulate" if simulate else "exhaustive",
                "distinct_states": r.distinct, "states_generated": r.states,
                "depth": r.depth, "wall_s": round(r.wall_s, 1),
                "violated": r.violated, "constants": cfg_header(os.path.join(SPEC, cfg)),
            })
            if simulate:
                self.cov["exhaustive"] = False
            for k, v in r.coverage.items():
                self.cov["actions"]["%s:%s" % (label, k)] = v
        log("[tlc] %s/%s: %d distinct, %d generated, depth %d, %.1fs%s" % (
            module, cfg, r.distinct, r.states, r.depth, r.wall_s,
            (", VIOLATED " + r.violated) if r.violated else ""))
        return r

    def require_actions(self, r, names, label=""):
        """Vacuity guard: every named action must have been taken at least once."""
        missing = [n for n in names if r.coverage.get(n, (0, 0))[1] == 0]
        if missing:
            raise ToolError("vacuity: actions never taken in %s: %s" % (label, missing))

    def spec_violation(self, r, what):
        """The specification itself (transcription of the current code) violates a
        property: this is reported like any violation, with the TLC counterexample."""
        self.violation(what, {"kind": "tlc-counterexample", "invariant": r.violated,
                              "tlc_output": r.out_path,
                              "counterexample": r.counterexample[:60]})

    # ---------------------------------------------------------------- cargo
    def cargo_build(self, package, bins=None, features=None, release=False):
        """Build a harness crate against /repo's current working tree (path deps);
        returns the directory holding the binaries."""
        prepare_harness()
        cmd = ["cargo", "build", "--offline", "-p", package]
        if release:
            cmd.append("--release")
        if features:
            cmd += ["--features", ",".join(features)]
        for b in bins or []:
            cmd += ["--bin", b]
        t = time.time()
        p = subprocess.run(cmd, cwd=HARNESS, stdout=subprocess.PIPE, stderr=subprocess.STDOUT,
                           text=True, env=cargo_env())
        if p.returncode != 0:
            raise ToolError("cargo build failed for %s:\n%s" % (package, p.stdout[-6000:]))
        log("[cargo] built %s in %.1fs" % (package, time.time() - t))
        return os.path.join(HARNESS, "target", "release" if release else "debug")

    def run_harness(self, exe, args, timeout=900, stdin_path=None, env=None, ok_codes=(0,)):
        e = cargo_env()
        e["VERIF_SEED"] = str(self.seed)
        if env:
            e.update(env)
        t = time.time()
        try:
            p = subprocess.run([exe] + [str(a) for a in args], cwd=self.out,
                               stdin=open(stdin_path) if stdin_path else subprocess.DEVNULL,
                               stdout=subprocess.PIPE, stderr=subprocess.PIPE, text=True,
                               env=e, timeout=timeout)
        except subprocess.TimeoutExpired:
            raise ToolError("harness timed out: %s %s" % (exe, args))
        if p.returncode not in ok_codes:
            raise ToolError("harness %s %s failed rc=%s:\n%s\n%s" % (
                os.path.basename(exe), args, p.returncode, p.stdout[-3000:], p.stderr[-3000:]))
        log("[harness] %s %s: %.1fs" % (os.path.basename(exe), " ".join(map(str, args))[:80],
                                        time.time() - t))
        return p

    # ---------------------------------------------------- trace validation
    def validate_trace(self, module, cfg, trace_path, timeout=600, xmx="3g", label=None,
                       env=None):
        """code -> spec: TLC decides whether the recorded ndjson trace is a behaviour
        of the trace specification.  Returns (accepted, detail)."""
        e = {"TRACE": trace_path}
        if env:
            e.update(env)
        r = self.tlc(module, cfg, workers=1, timeout=timeout, xmx=xmx, env=e,
                     coverage=False, deque=True, xss="1g", count=False,
                     label=label or ("tv-" + os.path.basename(trace_path)))
        self.cov["states"] += r.distinct
        self.cov["transitions"] += r.states
        return r

    # ------------------------------------------------------------- verdicts
    def violation(self, what, replay_obj, signature=None):
        """Report a violation unless it matches a listed known finding."""
        sig = signature or what
        for kf in self._kf:
            if kf.get("status") == "open" and kf.get("property") == self.prop and \
                    re.search(kf["signature"], sig):
                if kf["id"] not in [k["id"] for k in self.known_hits]:
                    self.known_hits.append(kf)
                return False
        h = hashlib.sha1(json.dumps([what, replay_obj], sort_keys=True, default=str)
                         .encode()).hexdigest()[:12]
        path = os.path.join(VERIF, "replays", "%s-%s.json" % (self.prop, h))
        os.makedirs(os.path.dirname(path), exist_ok=True)
        if len(self.violations) >= 5:
            # enough witnesses; count the rest without writing more replay files
            self.violations.append(None)
            return True
        with open(path, "w") as f:
            json.dump({"property": self.prop, "what": what, "signature": sig,
                       "tier": self.tier, "seed": self.seed, "case": replay_obj}, f, indent=1,
                      default=str)
        print("VIOLATION property=%s replay=%s" % (self.prop, path), flush=True)
        log("  what: %s" % what[:600])
        self.violations.append(path)
        return True

    def replay_case(self):
        """The case stored in the --replay file (as given to `violation`), or None."""
        if not self.replay:
            return None
        with open(self.replay) as f:
            return json.load(f)["case"]

    def sample(self, obj):
        if len(self.cov["samples"]) < 6:
            self.cov["samples"].append(obj)

    def finish(self):
        for kf in self.known_hits:
            print("KNOWN-FINDING: property=%s %s" % (self.prop, kf["what"]), flush=True)
            self.cov["known_findings"].append(kf["id"])
        cov = dict(self.cov)
        if self.level == "model_checking":
            for k in ("evaluations", "distinct_nontrivial", "rule"):
                if not cov.get(k):
                    cov.pop(k, None)
        if not cov["samples"]:
            cov["samples"] = ["(no sample recorded)"]
        # keys the evidence schema reserves must have the schema's types: anything else a check
        # stored under them is kept under "<key>_detail"
        for k in ("states", "transitions", "traces_validated_against_impl", "obligations", "discharged",
                  "programs", "disagreements_checked", "evaluations", "distinct_nontrivial"):
            if k in cov and not (isinstance(cov[k], int) and not isinstance(cov[k], bool)):
                cov[k + "_detail"] = cov.pop(k)
        for k in ("rule", "explanation", "checker_cmd"):
            if k in cov and not isinstance(cov[k], str):
                cov[k] = json.dumps(cov[k], default=str)
        if "exhaustive" in cov and not isinstance(cov["exhaustive"], bool):
            cov["exhaustive"] = bool(cov["exhaustive"])
        if "trusted_base" in cov and not isinstance(cov["trusted_base"], list):
            cov["trusted_base"] = [str(cov["trusted_base"])]
        if not isinstance(cov["samples"], list):
            cov["samples"] = [cov["samples"]]
        ev = {
            "property_id": self.prop, "tier": self.tier, "seed": self.seed,
            "level": self.level, "coverage": cov, "assumptions": self.assumptions,
            "wall_s": round(time.time() - self.t0, 1), "violations": len(self.violations),
        }
        os.makedirs(os.path.join(VERIF, "evidence"), exist_ok=True)
        with open(os.path.join(VERIF, "evidence", "%s.json" % self.prop), "w") as f:
            json.dump(ev, f, indent=1, default=str)
        return 1 if self.violations else 0


# ---------------------------------------------------------------- helpers
def tail_of(path, n):
    with open(path, errors="replace") as f:
        lines = f.readlines()
    return "".join(lines[-n:])


def cfg_header(path):
    out = []
    try:
        for line in open(path):
            if line.startswith("\\*"):
                out.append(line[2:].strip())
            else:
                break
    except OSError:
        pass
    return " ".join(out)


_RE_FINAL = re.compile(r"^(\d+) states generated, (\d+) distinct states found, (\d+) states left")
_RE_DEPTH = re.compile(r"^The depth of the complete state graph search is (\d+)")
_RE_INV = re.compile(r"^Error: Invariant (\S+) is violated")
_RE_ACTPROP = re.compile(r"^Error: Action property (\S+) is violated")
_RE_TEMPORAL = re.compile(r"^Error: Temporal properties were violated")
_RE_COV = re.compile(r"^<(\w+) line \d+, col \d+ to line \d+, col \d+ of module (\w+)(?: \([\d ]+\))?>: (\d+):(\d+)")
_RE_SIM = re.compile(r"^The number of states generated: (\d+)")


def parse_tlc_output(path):
    r = TlcResult()
    r.out_path = path
    in_err = False
    cex = []
    with open(path, errors="replace") as f:
        for line in f:
            m = _RE_FINAL.match(line)
            if m:
                r.states, r.distinct = int(m.group(1)), int(m.group(2))
                continue
            m = _RE_SIM.match(line)
            if m:
                r.states = int(m.group(1))
                r.distinct = max(r.distinct, int(m.group(1)))
                continue
            m = _RE_DEPTH.match(line)
            if m:
                r.depth = int(m.group(1))
                continue
            m = _RE_COV.match(line)
            if m:
                name = m.group(1)
                d, t = int(m.group(3)), int(m.group(4))
                od, ot = r.coverage.get(name, (0, 0))
                r.coverage[name] = (od + d, ot + t)
                continue
            m = _RE_INV.match(line) or _RE_ACTPROP.match(line)
            if m:
                r.violated = m.group(1)
                in_err = True
                continue
            if _RE_TEMPORAL.match(line):
                r.violated = "TemporalProperty"
                in_err = True
                continue
            if line.startswith("Error: Deadlock reached"):
                r.violated = "Deadlock"
                in_err = True
                continue
            if line.startswith("Error: Postcondition"):
                r.violated = "Postcondition"
                continue
            if line.startswith("Error:") and r.violated is None:
                r.error_text += line
            if in_err and len(cex) < 400:
                cex.append(line.rstrip("\n"))
    r.counterexample = cex
    return r


def iter_printed(path, tag, keep=None):
    """Yield the JSON payload of every PrintT(<<tag, json>>) line in a TLC output file.
    keep(i) selects which of the matching lines (0-based) are wanted."""
    prefix = '<<"%s", "' % tag
    i = -1
    with open(path, errors="replace") as f:
        for line in f:
            if line.startswith(prefix):
                i += 1
                if keep is not None and not keep(i):
                    continue
                body = line.rstrip("\n")
                body = body[len(prefix):]
                if body.endswith('">>'):
                    body = body[:-3]
                # TLC prints the string with \" and \\ escapes
                yield unescape_tla(body)


_UNESC = re.compile(r"\\(.)")
_UNESC_MAP = {"n": "\n", "t": "\t"}


def unescape_tla(s):
    """Undo TLC's string printing (\\\" and \\\\ escapes)."""
    if "\\" not in s:
        return s
    return _UNESC.sub(lambda m: _UNESC_MAP.get(m.group(1), m.group(1)), s)


def iter_printed_raw(path, tag):
    """Yield the raw text after `<<"tag", ` of every matching line (for non-string payloads)."""
    prefix = '<<"%s", ' % tag
    with open(path, errors="replace") as f:
        for line in f:
            if line.startswith(prefix):
                yield line.rstrip("\n")[len(prefix):]


def extract_printed(tlc_out, tag, dest, keep=None):
    """Write all (or the kept) payloads with the tag to dest (ndjson); returns the count."""
    n = 0
    with open(dest, "w") as fo:
        for p in iter_printed(tlc_out, tag, keep):
            fo.write(p)
            fo.write("\n")
            n += 1
    return n


def cargo_env():
    e = dict(os.environ)
    e["CARGO_NET_OFFLINE"] = "true"
    e.pop("RUSTFLAGS", None)
    e["VERIF_REPO"] = REPO
    return e


_prepared = False


def prepare_harness():
    """Copy /repo's Cargo.lock into the harness workspace (offline resolution needs
    exactly the versions in the cargo cache)."""
    global _prepared
    if _prepared:
        return
    dst = os.path.join(HARNESS, "Cargo.lock")
    if not os.path.exists(dst):
        src = os.path.join(REPO, "Cargo.lock")
        if not os.path.exists(src):     # /repo ignores its lock file: a fresh checkout has none; use the copy pinned in /verif
            src = os.path.join(HARNESS, "Cargo.lock.pinned")
        shutil.copy(src, dst)
    _prepared = True


def load_known_findings():
    p = os.path.join(VERIF, "known_findings.json")
    try:
        with open(p) as f:
            return json.load(f).get("findings", [])
    except OSError:
        return []


def read_ndjson(path):
    out = []
    with open(path) as f:
        for line in f:
            line = line.strip()
            if line:
                out.append(json.loads(line))
    return out
