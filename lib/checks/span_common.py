"""Shared driver code of the C03 / C04 / C18 checks (spec/Ctxt.tla, Span.tla, Traceparent.tla,
harness crate vh_span): run TLC on a list of configurations, turn the REPLAY lines into
programs, drop programs that are a proper prefix of another one (every step of the longer
program is checked anyway), run the harness binary on them and report mismatches.
"""
import json
import os

import vlib


def extract_replay(tlc_out, dest, maximal_only=False):
    """Write the payload of every REPLAY line of a TLC output file to dest (ndjson).
    TLC's string escapes (\\" \\\\ \\n \\t) are JSON's, so json.loads undoes them.
    maximal_only: drop programs whose text is a proper prefix (at a step boundary) of another
    program's - used for simulation output, where every behaviour prints all its prefixes.
    Returns (written, total)."""
    prefix = '<<"REPLAY", "'
    lines = []
    total = 0
    with open(tlc_out, errors="replace") as f, open(dest, "w") as fo:
        for line in f:
            if not line.startswith(prefix):
                continue
            body = line.rstrip("\n")[len(prefix):]
            if body.endswith('">>'):
                body = body[:-3]
            payload = json.loads('"' + body + '"')
            total += 1
            if maximal_only:
                lines.append(payload)
            else:
                fo.write(payload)
                fo.write("\n")
        if not maximal_only:
            return total, total
        # A program {"steps":[a,b]} is redundant iff another one starts with {"steps":[a,b,
        # In sorted order its extensions form a block directly before it ("," < "]").
        lines = sorted(set(lines))
        kept = 0
        for idx, ln in enumerate(lines):
            stem = ln[:-2] + ","          # strip "]}"
            if idx > 0 and lines[idx - 1].startswith(stem):
                continue
            fo.write(ln)
            fo.write("\n")
            kept += 1
        return kept, total


def run_configs(ctx, module, harness_bin, configs, actions, what_prefix, harness_args=None,
                const_tag=None):
    """configs: list of dicts {cfg, replay: bool, simulate: (num, depth) | None, workers}.
    harness_args(tlc_result, cfg) -> extra argv list placed between the case file and the
    report path."""
    rc = ctx.replay_case()
    bindir = ctx.cargo_build("vh_span", bins=[harness_bin])
    exe = os.path.join(bindir, harness_bin)
    if rc is not None:          # --replay: only the stored program, prediction included
        cases = os.path.join(ctx.out, "replay-case.ndjson")
        with open(cases, "w") as f:
            f.write(json.dumps(rc["case"]) + "\n")
        rep = run_harness(ctx, exe, cases, rc.get("args", []), "replay")
        report(ctx, rep, rc.get("cfg", "?"), rc.get("args", []), what_prefix)
        report_notes(ctx, rep, rc.get("cfg", "?"), rc.get("args", []))
        return
    for c in configs:
        cfg = c["cfg"]
        label = cfg.replace(".cfg", "")
        sim = c.get("simulate")
        r = ctx.tlc(module, cfg, workers=c.get("workers", 4), timeout=c.get("timeout", 3000 if ctx.quick else 14400),   # thorough: the widest exhaustive configs take well over an hour since session 3
                   
                    xmx=c.get("xmx", "8g"), simulate=sim[0] if sim else None,
                    depth=sim[1] if sim else None, label=label)
        if r.violated:
            ctx.spec_violation(r, "%s %s/%s: %s is violated by the specification itself" % (
                what_prefix, module, cfg, r.violated))
            return
        if not sim:
            ctx.require_actions(r, c.get("actions", actions), label)
        if not c.get("replay", True):
            continue
        args = harness_args(r, cfg) if harness_args else []
        cases = os.path.join(ctx.out, "cases-%s.ndjson" % label)
        kept, total = extract_replay(r.out_path, cases, maximal_only=bool(sim))
        if kept == 0:
            raise vlib.ToolError("TLC printed no REPLAY lines for %s" % cfg)
        try:
            os.remove(r.out_path)      # large; everything needed has been extracted
        except OSError:
            pass
        vlib.log("[cases] %s: %d REPLAY lines -> %d programs" % (cfg, total, kept))
        rep = run_harness(ctx, exe, cases, args, label)
        ctx.cov.setdefault("programs_by_config", {})[label] = {"transitions_printed": total,
                                                      "programs_replayed": kept,
                                                      "steps_compared": rep["checks"]}
        with open(cases) as f:         # a program from the middle of the file as sample
            line = ""
            for _ in range(kept // 2 + 1):
                line = f.readline()
            ctx.sample({"cfg": cfg, "program": json.loads(line)})
        report(ctx, rep, cfg, args, what_prefix)
        report_notes(ctx, rep, cfg, args)
        if ctx.violations:
            return
        try:
            os.remove(cases)           # hundreds of megabytes; failing programs are in replays/
        except OSError:
            pass


def run_harness(ctx, exe, cases, args, label):
    rep_path = os.path.join(ctx.out, "report-%s.json" % label)
    # Bounded three times over: every step / shutdown of a model thread (VERIF_STEP_TIMEOUT, in the
    # harness: a reproducible hang is reported as data, a lost reply of the engine exits 2), the whole
    # harness (VERIF_HARNESS_LIMIT: exit 2 naming the programs in flight) and, last, this subprocess.
    limit = 200 if ctx.quick else 2400
    ctx.run_harness(exe, [cases] + list(args) + [rep_path], timeout=limit + 60,
                    env={"VERIF_WORKERS": "8", "VERIF_HARNESS_LIMIT": str(limit),
                         "VERIF_STEP_TIMEOUT": "20"})
    with open(rep_path) as f:
        rep = json.load(f)
    ctx.cov["traces_validated_against_impl"] += rep["cases"]
    noise = rep.get("extra", {}).get("flaky_hangs", 0)
    if noise:
        ctx.cov["hangs_not_reproduced"] = ctx.cov.get("hangs_not_reproduced", 0) + noise
        vlib.log("[harness] %d program(s) hung once and ran normally when repeated (platform noise, not a verdict)" % noise)
    ctx.cov["impl_steps_compared"] = ctx.cov.get("impl_steps_compared", 0) + rep["checks"]
    return rep


def report_notes(ctx, rep, cfg, args):
    """Deviations the harness classifies without ending the program (an open known finding has
    its own signature): each distinct one is passed to ctx.violation, which prints VIOLATION unless
    known_findings.json lists it as open.  The signature starts with the note's `what`."""
    extra = rep.get("extra", {})
    total = extra.get("notes_total", 0)
    if total:
        ctx.cov["classified_deviations"] = ctx.cov.get("classified_deviations", 0) + total
    seen = set()
    for n in extra.get("notes", []):
        note = n["note"]
        sig = "%s; context form %s; dropped %s" % (n["what"], note.get("form"), note.get("where"))
        if sig in seen:
            continue
        seen.add(sig)
        case = {"steps": n["case"]["steps"], "no": n.get("no", 0)}
        ops = " ".join("%s@%s" % (s.get("op"), s.get("t")) for s in case["steps"])
        ctx.violation("%s (want %s, ambient %s, got %s; cfg %s; program: %s)" % (
            sig, json.dumps(note.get("want")), json.dumps(note.get("ambient")), note.get("got"), cfg, ops),
            {"cfg": cfg, "args": list(args), "case": case, "detail": note}, signature=sig)


def report(ctx, rep, cfg, args, what_prefix):
    # deterministic order: shortest failing program first
    ms = sorted(rep["mismatches"], key=lambda m: (len(m["case"]["steps"]), json.dumps(m, sort_keys=True)))
    for m in ms:
        d = m["detail"]
        step = d.get("step", -1)
        steps = m["case"]["steps"]
        upto = {"steps": steps[:step + 1] if step >= 0 else steps, "no": d.get("no", 0)}
        ops = " ".join("%s@%s" % (s.get("op"), s.get("t")) for s in upto["steps"])
        ctx.violation("%s %s: %s (cfg %s; program: %s)" % (
            what_prefix, m["what"], json.dumps(d.get("detail"))[:400], cfg, ops),
            {"cfg": cfg, "args": list(args), "case": upto, "detail": d},
            signature="%s|%s" % (m["what"], ops))
