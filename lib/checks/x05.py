"""X05 - assembly of OTLP export requests (beyond the listed properties).

M: spec/OtlpAsm.tla: for every signal / transport / resource / header list / batch sequence the
   transcription of OtlpBuilder::resource (HashMap::insert in turn) and EncodedScopeItems::push
   (level B) must give what the docs say a request carries (level A): OneResourceEntry,
   ResourceKeysExact, ResourceValueGiven, ScopePerModule, EveryEventOnce.
   OtlpAsm_firstwins.cfg states the rule of emit's `Props` (first value of a duplicated key) for
   the resource: it MUST be violated by the transcription of the code as it is (a doc/code
   disagreement that is reported, not judged).
G: every case runs a real emit_otlp emitter against a capturing loopback collector (HTTP/1 and
   gRPC over h2); a batch is made to go out as one request by holding the answer to a warm-up
   request; the decoded requests (prost types of the repository / serde_json) are compared with
   the statement: resource, scopes, headers, content type, path, compression (x_otlp_assembly).
"""
import json
import os

import vlib


def run(ctx):
    cfg = "OtlpAsm_quick.cfg" if ctx.quick else "OtlpAsm_thorough.cfg"
    bindir = ctx.cargo_build("vh_otlp", bins=["x_otlp_assembly"])

    # the Props rule against the code as it is: must fail
    rf = ctx.tlc("MCOtlpAsm", "OtlpAsm_firstwins.cfg", workers=2, timeout=600, xmx="2g", expect_violation=True,
                 count=False, coverage=False, label="firstwins")
    if rf.violated != "ResourceFirstWins":
        raise vlib.ToolError("OtlpAsm_firstwins.cfg: expected ResourceFirstWins to be violated by the transcription of "
                             "OtlpBuilder::resource, got %r (has the code changed? then update level B)" % rf.violated)
    ctx.cov["doc_code_disagreement"] = (
        "OtlpBuilder::resource keeps the LAST value of a duplicated key (HashMap::insert), emit's Props says the first "
        "is the one to use (and event attributes are de-duplicated first-wins); e.g. resource "
        "[service.name=svc-a, service.name=svc-b] is sent as svc-b")

    r = ctx.tlc("MCOtlpAsm", cfg, workers=4, timeout=900, xmx="4g")
    if r.violated:
        ctx.spec_violation(r, "OtlpAsm.tla: %s violated by the transcription of the code" % r.violated)
        return
    ctx.require_actions(r, ["Assemble"], "OtlpAsm")
    cases = os.path.join(ctx.out, "cases.ndjson")
    n = vlib.extract_printed(r.out_path, "REPLAY", cases)
    os.remove(r.out_path)
    rc = ctx.replay_case()
    if rc is not None:
        with open(cases, "w") as f:
            f.write(json.dumps(rc["case"]) + "\n")
        n = 1
    if n == 0:
        raise vlib.ToolError("TLC printed no cases")
    seen = set()
    with open(cases) as f:
        for i, line in enumerate(f):
            c = json.loads(line)
            seen.add((c["tr"]["sig"], c["tr"]["proto"]))
            if i in (10, 900):
                ctx.sample(c)
    if rc is None and len(seen) < 9:
        raise vlib.ToolError("vacuity: only %d of 9 signal x transport combinations occur" % len(seen))
    rep_path = os.path.join(ctx.out, "report.json")
    ctx.run_harness(os.path.join(bindir, "x_otlp_assembly"), [cases, rep_path], timeout=1500)
    rep = json.load(open(rep_path))
    if rep["cases"] != n:
        raise vlib.ToolError("harness decided %d of %d cases" % (rep["cases"], n))
    ctx.cov["traces_validated_against_impl"] += rep["cases"]
    ctx.cov["requests_decoded"] = rep["extra"].get("requests", 0)
    ctx.cov["split_batches"] = rep["extra"].get("split_batches", 0)
    ctx.cov["duplicate_resource_key"] = {
        "last_value_sent": rep["extra"].get("duplicate_resource_key_last_value_sent", 0),
        "first_value_sent": rep["extra"].get("duplicate_resource_key_first_value_sent", 0)}
    ctx.assumptions += [
        "which value of a duplicated resource key is sent is not judged (any configured one is accepted); the code sends the "
        "last, emit's Props rule names the first: see coverage.doc_code_disagreement",
        "the order of resource attributes and of scope entries inside a request is not part of the statement (HashMap order)",
        "a batch normally goes out as one request (the warm-up request is held while the batch is emitted); if the worker cuts "
        "it anyway, every piece is checked and the pieces must add up (coverage.split_batches)",
        "header names are compared case-insensitively; headers the transport adds itself (host, content-length, te, ...) are ignored",
        "delivery, retries, routing and size limits are C12 / C14",
        "bounded: " + vlib.cfg_header(os.path.join(vlib.SPEC, cfg)),
    ]
    for m in rep["mismatches"]:
        ctx.violation("X05 %s: %s" % (m["what"], json.dumps(m["detail"])[:500]), m, signature=m["what"])
