"""X07 - Timestamp / Duration arithmetic (beyond the listed properties).

M: spec/TimeArith.tla: exact arithmetic on base-10^9 digit sequences (level A) against the
   transcription of Duration::checked_add / checked_sub + the range check, to_parts' year cycles
   and from_parts' two paths (level B): FromUnixRule, CheckedOpsRule, AddSubInverse, SinceRule,
   Monotone, PartsRule (against the calendar of spec/Text.tla, read-only), OverflowRule.
   TimeArith_months.cfg states the documented "wrap into the next unit" for months beyond 12 and
   MUST be violated by the transcription of the code (doc/code disagreement, reported, not judged).
G: every case is replayed on the real Timestamp: checked forms, operators (a panic exactly where
   the checked form is None), assign operators, duration_since forms, order / Eq / Hash,
   to_parts / from_parts (harness x_time).
"""
import json
import os

import vlib


def run(ctx):
    cfg = "TimeArith_quick.cfg" if ctx.quick else "TimeArith_thorough.cfg"
    bindir = ctx.cargo_build("vh_core", bins=["x_time"])
    rm = ctx.tlc("MCTimeArith", "TimeArith_months.cfg", workers=2, timeout=600, xmx="2g", expect_violation=True,
                 count=False, coverage=False, label="months")
    if rm.violated != "OverflowMonths":
        raise vlib.ToolError("TimeArith_months.cfg: expected OverflowMonths to be violated by the transcription of "
                             "from_parts, got %r (has the code changed? then update level B)" % rm.violated)
    r = ctx.tlc("MCTimeArith", cfg, workers=4, timeout=900, xmx="4g")
    if r.violated:
        ctx.spec_violation(r, "TimeArith.tla: %s violated by the transcription of the code" % r.violated)
        return
    ctx.require_actions(r, ["Eval"], "TimeArith")
    cases = os.path.join(ctx.out, "cases.ndjson")
    n = vlib.extract_printed(r.out_path, "REPLAY", cases)
    os.remove(r.out_path)
    rc = ctx.replay_case()
    if rc is not None:
        with open(cases, "w") as f:
            f.write(json.dumps(rc["case"]) + "\n")
        n = 1
    if n == 0:
        raise vlib.ToolError("TLC printed no cases")
    kinds = {}
    with open(cases) as f:
        for line in f:
            c = json.loads(line)
            kinds[c["kind"]] = kinds.get(c["kind"], 0) + 1
            if kinds[c["kind"]] == 5:
                ctx.sample(c)
    if rc is None:
        missing = [k for k in ("unix", "arith", "since", "mono", "parts", "overflow") if not kinds.get(k)]
        if missing:
            raise vlib.ToolError("vacuity: no cases of kind %s" % missing)
    rep_path = os.path.join(ctx.out, "report.json")
    ctx.run_harness(os.path.join(bindir, "x_time"), [cases, rep_path])
    rep = json.load(open(rep_path))
    if rep["cases"] != n:
        raise vlib.ToolError("harness decided %d of %d cases" % (rep["cases"], n))
    ctx.cov["traces_validated_against_impl"] += rep["cases"]
    ctx.cov["impl_checks"] = rep["checks"]
    ctx.cov["cases_per_kind"] = kinds
    ctx.cov["month_beyond_12"] = rep["extra"]
    ctx.cov["doc_code_disagreement"] = (
        "Timestamp::from_parts: the docs say a field beyond its maximum wraps into the next unit; a month beyond 12 is "
        "indexed modulo 12 inside the SAME year and (being > 2) gets the leap day of a leap year: "
        "from_parts(2000-13-01T00:00:00) = 2000-01-02T00:00:00Z, the documented wrap is 2001-01-01T00:00:00Z")
    if rep["extra"].get("month_beyond_12_differs_from_transcription"):
        ctx.cov["drift"].append("from_parts for months beyond 12 no longer behaves like the transcription (level B)")
    ctx.assumptions += [
        "the operators + - += -= and Timestamp - Timestamp panic exactly where the checked forms give None (their expect()); "
        "that panic is the specified behaviour, any other panic is a violation",
        "months beyond 12 in from_parts are not judged (see coverage.doc_code_disagreement)",
        "the civil calendar is that of spec/Text.tla (C15), instantiated read-only",
        "bounded: " + vlib.cfg_header(os.path.join(vlib.SPEC, cfg)),
    ]
    for m in rep["mismatches"]:
        d = m["detail"]
        first = d[0].get("what", "") if isinstance(d, list) and d else ""
        ctx.violation("X07 %s: %s" % (m["what"], json.dumps(d)[:500]), m, signature="%s:%s" % (m["what"], first))
