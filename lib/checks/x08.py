"""X08 - ownership and borrowing of Str and Value (beyond the listed properties).

M: spec/StrOwn.tla: storage forms = a constructor followed by derivation steps.  Str: the
   documented kind (borrowed / static / owned / shared) and which steps keep the parent's buffer
   (level A) against the StrOwner tag and the match arms of by_ref / clone / to_owned / to_shared
   (level B): StrRefines, StaticRule, OwnedIsOwned.  Value: the class of a value (captured
   string, serialized string, formatted, number, null) is kept by every derivation: ValClassKept.
G: every form is built on the real types and every accessor compared: text, get_static, to_cow,
   buffer sharing step by step (address of the text), == / Ord / Hash / Borrow across forms,
   into_string, Str <-> Value, to_cow_str / to_borrowed_str / cast / parse / Display per class
   (harness x_strval).
"""
import json
import os

import vlib


def run(ctx):
    cfg = "StrOwn_quick.cfg" if ctx.quick else "StrOwn_thorough.cfg"
    bindir = ctx.cargo_build("vh_core", bins=["x_strval"])
    r = ctx.tlc("StrOwn", cfg, workers=4, timeout=1500, xmx="6g")
    if r.violated:
        ctx.spec_violation(r, "StrOwn.tla: %s violated by the transcription of the code" % r.violated)
        return
    ctx.require_actions(r, ["Eval"], "StrOwn")
    cases = os.path.join(ctx.out, "cases.ndjson")
    n = vlib.extract_printed(r.out_path, "REPLAY", cases)
    os.remove(r.out_path)
    rc = ctx.replay_case()
    if rc is not None:
        with open(cases, "w") as f:
            f.write(json.dumps(rc["case"]) + "\n")
        n = 1
    if n == 0:
        raise vlib.ToolError("TLC printed no cases")
    kinds = {}
    with open(cases) as f:
        for line in f:
            k = line[9:line.index('"', 9)] if line.startswith('{"kind":"') else "?"
            kinds[k] = kinds.get(k, 0) + 1
            if kinds[k] == 300:
                ctx.sample(json.loads(line))
    if rc is None:
        missing = [k for k in ("str", "val", "cmp") if not kinds.get(k)]
        if missing:
            raise vlib.ToolError("vacuity: no cases of kind %s" % missing)
    rep_path = os.path.join(ctx.out, "report.json")
    ctx.run_harness(os.path.join(bindir, "x_strval"), [cases, rep_path])
    rep = json.load(open(rep_path))
    if rep["cases"] != n:
        raise vlib.ToolError("harness decided %d of %d cases" % (rep["cases"], n))
    ctx.cov["traces_validated_against_impl"] += rep["cases"]
    ctx.cov["impl_checks"] = rep["checks"]
    ctx.cov["cases_per_kind"] = kinds
    ctx.assumptions += [
        "buffer sharing is observed through the address of the text; a constructor given an owned String may move or shrink "
        "it (not compared), one given a Box<str> / Arc<str> / &str must keep it",
        "Value's representation is value_bag's (outside the repository): level B keeps only its tag; what the docs do not say "
        "(to_borrowed_str and Display of a serialized string, Display of Debug / null, downcast_ref after buffering) is not compared",
        "a Str obtained from a Value is never static (it was not created from Str::new)",
        "bounded: " + vlib.cfg_header(os.path.join(vlib.SPEC, cfg)),
    ]
    for m in rep["mismatches"]:
        d = m["detail"]
        first = d[0].get("what", "") if isinstance(d, list) and d else ""
        ctx.violation("X08 %s: %s" % (m["what"], json.dumps(d)[:500]), m, signature="%s:%s" % (m["what"], first))
