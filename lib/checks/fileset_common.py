"""Shared driver of C10 and C11 (emit_file's rolling file worker).

M: TLC checks spec/FileWorker.tla (level B: Worker::on_batch call by call over an abstract
   filesystem; faults at every call, crashes at every call boundary, restarts, clock steps,
   configurations chosen in Init) against every clause of C10 and C11 (spec/FileSetBase.tla).
G: every transition that ends a call or crashes is printed (REPLAY: the history with the
   outcome of every filesystem call, the predicted calls / results / final directory) and
   replayed on the REAL worker through the emit_file::verif hook under three lexical
   configurations (prefix/ext/period, sibling files).  A run that reproduces the prediction
   call by call is a behaviour of level B, for which TLC has established the clauses.
T: a run that differs is not judged by the harness: its recorded trace is decided by TLC at
   level A (spec/FileSetTrace.tla, the effects and clauses of FileSetBase without the
   worker's control flow).  A clause of this property broken => VIOLATION; none broken =>
   MODEL-DRIFT (the property held; level B no longer transcribes the code).  A seeded sample
   of the conforming runs is sent through the same monitor (must be clean).
Production and end-to-end phases (the public emit path): entry points x template forms (with /
   without extension, without directory, invalid -> inert emitter, a directory that cannot exist)
   x separator (one byte, "\r\n") x the way the writer ends its output (spec/FileFraming.tla:
   what emit queues = the complete bytes E(e)); directories shared with hostile neighbours.
"""
import json
import os
import shutil

import vlib

C10 = {"Durable", "RecordsWellFormed", "RetryIsWhole", "AckOnlyAfterSync", "NoGarbage"}
C11 = {"OneFilePerBatch", "RollOnlyWhen", "MustRoll", "NameIs", "NewestFirst", "Retained",
       "OldestFirst", "NoPanic", "OwnSetOnly"}
ACTIONS = ["Begin", "MkDir", "List", "OpenEx", "SyncDirReuse", "FileLen", "Decide", "OpenNew",
           "SyncDir", "WriteSep", "WriteEv", "PFlush", "PSync", "Flush", "Sync", "End"]


def verdicts(ctx, trace_path, label, module="MCFileSetTrace", cfg="FileSetTrace.cfg"):
    """Run the level-A monitor over a concatenation of scenarios; {sid: set(bad)}."""
    r = ctx.validate_trace(module, cfg, trace_path, label=label, timeout=1500, xmx="4g")
    if r.violated:
        raise vlib.ToolError("level-A monitor did not accept the recorded trace %s (%s):\n%s" % (
            trace_path, r.violated, vlib.tail_of(r.out_path, 15)))
    out = {}
    for p in vlib.iter_printed(r.out_path, "VERDICT"):
        v = json.loads(p)
        out[v["sid"]] = set(v["bad"])
    return out


def shards(path, prefix, max_lines):
    """Split a concatenation of scenarios at reset boundaries; every shard ends with fin."""
    out, n, k, fo = [], 0, 0, None
    with open(path) as f:
        for line in f:
            if line.startswith('{"ev":"fin"'):
                continue
            if fo is None or (n >= max_lines and '"ev":"reset"' in line[:60]):
                if fo:
                    fo.write('{"ev":"fin"}\n')
                    fo.close()
                name = "%s-%d.ndjson" % (prefix, k)
                out.append(name)
                fo, n, k = open(name, "w"), 0, k + 1
            fo.write(line)
            n += 1
    if fo:
        fo.write('{"ev":"fin"}\n')
        fo.close()
    return out


def shape(case):
    """Structural signature of a failing case (for known findings): configuration + ops."""
    ops = []
    for h in case.get("hist", []):
        if h["op"] == "batch":
            faults = [c[0] + ":" + c[3] for c in h["calls"] if c[3] != "ok"]
            ops.append("batch(%d%s%s)->%s" % (len(h["evs"]), ",ph" if h.get("ph") else "",
                                               "," + "+".join(faults) if faults else "", h["res"]))
        elif h["op"] == "fmtfail":
            ops.append("fmtfail(%s)" % h["kind"])
        else:
            ops.append(h["op"])
    return "maxFiles=%s maxSize=%s reuse=%s %s" % (case.get("maxFiles"), case.get("maxSize"),
                                                  case.get("reuse"), " ".join(ops))


def random_histories(ctx, prop, mine, binpath, only=None, seed=None):
    """T on its own: seeded random long histories (faults, crashes, restarts, clock steps,
    random ids, all lexical configurations) on the real worker; TLC decides each trace."""
    n, nb = (2000, 14) if ctx.quick else (30000, 20)
    tr = os.path.join(ctx.out, "random.ndjson")
    idx = os.path.join(ctx.out, "random-index.json")
    args = ["random", n, nb, tr, idx] + ([only] if only is not None else [])
    ctx.run_harness(binpath, args, timeout=1500,
                    env={"VERIF_SEED": str(seed if seed is not None else ctx.seed)})
    meta = json.load(open(idx))
    vs = {}
    for i, shard in enumerate(shards(tr, os.path.join(ctx.out, "rnd"), 250000)):
        vs.update(verdicts(ctx, shard, "tv-random-%d" % i))
        os.remove(shard)
    if len(vs) != meta["scenarios"]:
        raise vlib.ToolError("monitor printed %d verdicts for %d random histories" % (
            len(vs), meta["scenarios"]))
    ctx.cov["traces_validated_against_impl"] += meta["scenarios"]
    ctx.cov["random_histories"] = {"scenarios": meta["scenarios"], "events": meta["events"],
                                   "batches_each": nb}
    conf = {m["sid"]: m["config"] for m in meta["index"]}
    for sid, bad in sorted(vs.items()):
        hit = sorted(bad & mine)
        if hit:
            c = conf[sid]
            what = "%s %s broken by the real worker in random history %d [%s]; maxFiles=%s maxSize=%s reuse=%s" % (
                prop, ",".join(hit), sid, c["lex"], c["maxFiles"], c["maxSize"], c["reuse"])
            ctx.violation(what, {"random": {"index": sid, "seed": seed if seed is not None else ctx.seed},
                                 "config": c, "clauses": hit},
                          signature="%s %s random lex=%s maxFiles=%s maxSize=%s reuse=%s" % (
                              prop, ",".join(hit), c["lex"], c["maxFiles"], c["maxSize"], c["reuse"]))


EMITTER_CLAUSES = {
    # C07 carried through: a successful flush means written and synced (or failed for good / truncated)
    "flush": {"FlushMeansProcessed", "Durable"},
    # C09 carried through: emit never blocks, the queue is bounded, overflow drops the oldest, counted
    "bounded": {"EmitNeverBlocks", "QueueBounded", "DropsOldestCounted"},
    # C10 at the level of the whole emitter: what reaches the files are whole events
    # (incl. the front half of emit: a failing writer discards the event as a whole)
    "records": C10 | {"FormatFailDiscarded", "FormatFailCounted"},
    # C11 at the level of the whole emitter (the size accounting of the batches emit hands over)
    "roll": C11,
}


def file_emitter_phase(ctx, prop, clauses=("records",), only=None, seed=None):
    """End-to-end binding of the rolling-file emitter (code -> spec): a REAL FileSet
    (emit_file::verif::spawn_with) over the fault-injecting, stallable in-memory filesystem,
    2-3 emitting threads, flushes at seeded moments; the environment of every scenario
    (capacity x configuration x fault x stall window) is enumerated by TLC from
    spec/FileEmitterScen.tla; every recorded trace is decided by TLC against
    spec/FileEmitterTrace.tla.  `clauses`: which groups of EMITTER_CLAUSES the calling
    property reports ("flush" for C07, "bounded" for C09, "records" for C10)."""
    import random
    from concurrent.futures import ThreadPoolExecutor
    mine = set()
    for c in clauses:
        mine |= EMITTER_CLAUSES[c]
    seed = ctx.seed if seed is None else seed
    r = ctx.tlc("FileEmitterScen", "FileEmitterScen.cfg", workers=1, timeout=300, xmx="1g",
                label="FileEmitterScen", coverage=False)
    if r.violated:
        raise vlib.ToolError("FileEmitterScen.tla: %s" % r.violated)
    scen = sorted(vlib.iter_printed(r.out_path, "SCEN"))
    if len(scen) != r.distinct or not scen:
        raise vlib.ToolError("TLC printed %d scenario environments for %d states" % (len(scen), r.distinct))

    def flat(text):
        # the environment, with the separator's bytes and the framing table next to it
        d = json.loads(text)
        return dict(d["env"], sepBytes=d["sepBytes"], framing=d["framing"])
    # a seeded sample, stratified by the template form (an inert emitter's scenarios are few)
    by_tpl = {}
    for i, text in enumerate(scen):
        by_tpl.setdefault(json.loads(text)["env"].get("tpl", "full"), []).append(i)
    share = {"full": 0.64, "noext": 0.15, "nodir": 0.15, "invalid": 0.06}
    if only is not None:
        pick = [only]
    else:
        total = 100 if ctx.quick else min(len(scen), 4000)
        rnd = random.Random(seed)
        pick = []
        for t in sorted(by_tpl):
            k = min(len(by_tpl[t]), max(1, int(round(total * share.get(t, 0.1)))))
            pick += rnd.sample(by_tpl[t], k)
        pick = sorted(pick)
    nproc = 1 if only is not None else (4 if ctx.quick else 8)
    bindir = ctx.cargo_build("vh_file", bins=["c07_file_inj"])
    exe = os.path.join(bindir, "c07_file_inj")
    parts = []
    for k in range(nproc):
        sp = os.path.join(ctx.out, "inj-scen-%d.ndjson" % k)
        with open(sp, "w") as f:
            for i in pick[k::nproc]:
                f.write(json.dumps({"sid": i, "scen": flat(scen[i])}) + "\n")
        parts.append((sp, os.path.join(ctx.out, "inj-trace-%d.ndjson" % k),
                      os.path.join(ctx.out, "inj-index-%d.json" % k)))
    with ThreadPoolExecutor(nproc) as ex:
        list(ex.map(lambda a: ctx.run_harness(exe, list(a), timeout=2400,
                                              env={"VERIF_SEED": str(seed)}), parts))
    # the recorded scenarios, split by record size: the one-byte separator (records of 3 / 4
    # bytes) and the multi-byte ones (records of 8 bytes: MCFileEmitterTraceSep)
    traces = {"": os.path.join(ctx.out, "inj-trace.ndjson"), "Sep": os.path.join(ctx.out, "inj-trace-sep.ndjson")}
    meta = {"scenarios": 0, "events": 0, "emits": 0, "flushes": 0}
    scen_of = {}
    outs = {k: open(p, "w") for k, p in traces.items()}
    for _, tp, ip in parts:
        cur = outs[""]
        with open(tp) as f:
            for line in f:
                if line.startswith('{"ev":"fin"'):
                    continue
                if '"ev":"reset"' in line[:60]:
                    cur = outs["Sep" if json.loads(line).get("wide") else ""]
                cur.write(line)
        m = json.load(open(ip))
        for k in meta:
            meta[k] += m[k]
        for x in m["index"]:
            scen_of[x["sid"]] = x["scen"]
        os.remove(tp)
    for fo in outs.values():
        fo.write('{"ev":"fin"}\n')
        fo.close()
    vs = {}
    for kind, trace in traces.items():
        for i, shard in enumerate(shards(trace, os.path.join(ctx.out, "inj-shard%s" % kind), 250000)):
            rr = ctx.validate_trace("MCFileEmitterTrace" + kind, "FileEmitterTrace%s.cfg" % kind, shard,
                                    label="tv-emitter%s-%d" % (kind, i), timeout=1500, xmx="4g")
            if rr.violated:
                raise vlib.ToolError("FileEmitterTrace.tla did not accept the recorded trace (%s):\n%s" % (
                    rr.violated, vlib.tail_of(rr.out_path, 15)))
            for p in vlib.iter_printed(rr.out_path, "VERDICT"):
                v = json.loads(p)
                vs[v["sid"]] = v
            os.remove(shard)
    if len(vs) != meta["scenarios"]:
        raise vlib.ToolError("monitor printed %d verdicts for %d end-to-end scenarios" % (
            len(vs), meta["scenarios"]))
    ctx.cov["traces_validated_against_impl"] += meta["scenarios"]
    cov = {"scenarios": meta["scenarios"], "events": meta["events"], "emits": meta["emits"],
           "flushes": meta["flushes"], "environments_enumerated": len(scen),
           "with_emits_during_stall": sum(1 for v in vs.values() if v["stallEmits"] > 0),
           "with_truncation": sum(1 for v in vs.values() if v["ntrunc"] > 0),
           "with_permanent_failure": sum(1 for v in vs.values() if v["nfailed"] > 0),
           "events_reported_written": sum(v["nacked"] for v in vs.values()),
           "with_failing_writer": sum(1 for v in vs.values() if v["nfmt"] > 0),
           "with_inert_emitter": sum(1 for v in vs.values() if v.get("ndisc", 0) > 0),
           "template_forms": {t: sum(1 for x in scen_of.values() if x.get("tpl", "full") == t) for t in sorted(by_tpl)},
           "separators_with_events_written": sorted({scen_of[sid].get("sep", "nl") for sid, v in vs.items() if v["nacked"] > 0}),
           "template_forms_with_events_written": sorted({scen_of[sid].get("tpl", "full") for sid, v in vs.items() if v["nacked"] > 0})}
    ctx.cov["file_emitter_e2e"] = cov
    ndrift = 0
    nhit = 0
    for sid, v in sorted(vs.items()):
        bad = set(v["bad"])
        hit = sorted(bad & mine)
        sc = scen_of[sid]
        if hit:
            nhit += 1
            env_s = "cap=%s maxFiles=%s maxSize=%s reuse=%s fault=%s@%s stall=%s%s" % (
                sc["cap"], sc["maxFiles"], sc["maxSize"], sc["reuse"], sc["fault"]["kind"],
                sc["fault"]["at"], sc["stall"],
                (" tpl=%s" % sc["tpl"] if sc.get("tpl", "full") != "full" else "") +
                (" sep=%s" % sc["sep"] if sc.get("sep", "nl") != "nl" else ""))
            ctx.violation("%s %s broken by the real FileSet end to end; %s" % (prop, ",".join(hit), env_s),
                          {"inj": {"sid": sid, "seed": seed}, "scen": {k: v for k, v in sc.items() if k != "framing"}, "clauses": hit},
                          signature="%s e2e %s %s" % (prop, ",".join(hit), env_s))
            by_clause = ctx.cov.setdefault("violations_by_clause", {})
            for h in hit:
                by_clause[h] = by_clause.get(h, 0) + 1
        elif "QueueModel" in bad:
            ndrift += 1
    # vacuity guard (only meaningful when the implementation behaved: a broken emitter may
    # well make the scenarios degenerate, and then the violations above are the verdict)
    if only is None and not nhit and not (
            cov["with_emits_during_stall"] and cov["with_truncation"] and
            cov["with_permanent_failure"] and cov["events_reported_written"] and
            cov["with_failing_writer"] and
            (cov["with_inert_emitter"] or "invalid" not in by_tpl) and
            set(cov["template_forms_with_events_written"]) >= set(by_tpl) - {"invalid"} and
            len(cov["separators_with_events_written"]) >= 2):
        raise vlib.ToolError("vacuity: end-to-end scenarios without stall/truncation/failure: %s" % cov)
    if ndrift:
        vlib.log("MODEL-DRIFT: %d end-to-end scenarios in which the queue of FileEmitterTrace.tla "
                 "differs from the channel's own snapshot" % ndrift)
        ctx.cov["drift_runs"] = ctx.cov.get("drift_runs", 0) + ndrift
    ctx.assumptions += [
        "end to end: emit_file::verif::spawn_with repeats the 10 lines of FileSetBuilder::spawn_inner (channel, thread, worker) "
        "with an injected filesystem / clock / rng / capacity; event order comes from emit_batcher's verif hook events "
        "(sequence numbers taken under the channel lock) and the harness's own (before a request / after a return)",
        "end to end: channel delays scaled (1 ms -> 2 us); OS scheduling decides the interleavings (only adds accepted traces)",
    ]


PROD_OPS = ["mkdir", "list", "openex", "syncdir", "len", "remove", "opennew", "write-sep", "write",
            "flush", "sync", "restart", "fmtfail-partial", "fmtfail-empty"]


PROD_ENTRIES = ["set_with_writer", "set().writer()", "set() default JSON writer", "template without extension",
                "invalid template (no file name)", "invalid template (not UTF-8), default writer",
                "template without directory", "directory cannot exist (a file is in the way)"]


def production_phase(ctx, prop, mine, only=None, only_entry=None):
    """The production side of every trait the crate has a test double for (StdFilesystem,
    StdFile, SystemClock, RandRng) and the public entry points (set, set_with_writer,
    FileSetBuilder::writer; custom and default JSON writer, writers that fail midway):
    the fault-free cases TLC generates from spec/FileWorker.tla (FileWorker_prod_*.cfg: one
    event per batch, restarts and failing writers at every point) are run on the REAL FileSet
    over the REAL filesystem / clock / rng; the directory read back after every flush gives
    the level-A events, and TLC decides every run against spec/FileSetTrace.tla."""
    cfg = "FileWorker_prod_quick.cfg" if ctx.quick else "FileWorker_prod_thorough.cfg"
    label = cfg.replace(".cfg", "")
    cases = os.path.join(ctx.out, "cases-%s.ndjson" % label)
    if only is not None:
        with open(cases, "w") as f:
            f.write(json.dumps(only) + "\n")
    else:
        r = ctx.tlc("MCFileWorker", cfg, workers=4, timeout=1500, xmx="4g", label=label)
        if r.violated:
            ctx.spec_violation(r, "%s FileWorker.tla (%s): clause %s fails at design level" % (
                prop, cfg, r.violated))
            return
        ctx.require_actions(r, ["FmtFail", "Reopen", "OpenEx", "FileLen", "Remove", "OpenNew", "WriteSep"], cfg)
        lines = sorted(vlib.iter_printed(r.out_path, "REPLAY"))
        if not lines:
            raise vlib.ToolError("TLC printed no REPLAY lines for %s" % cfg)
        with open(cases, "w") as f:
            f.write("\n".join(lines) + "\n")
    bindir = ctx.cargo_build("vh_file", bins=["c10_file_prod"])
    tb = os.path.join(ctx.out, "prod-bytes.ndjson")
    tj = os.path.join(ctx.out, "prod-json.ndjson")
    rp = os.path.join(ctx.out, "prod-report.json")
    scratch = os.path.join(ctx.out, "prod-scratch")
    extra = [PROD_ENTRIES.index(only_entry)] if only_entry in PROD_ENTRIES else []
    ctx.run_harness(os.path.join(bindir, "c10_file_prod"), [cases, tb, tj, rp, scratch, 8] + extra, timeout=2400)
    shutil.rmtree(scratch, ignore_errors=True)
    rep = json.load(open(rp))
    if rep["entries"] != PROD_ENTRIES:
        raise vlib.ToolError("production run: the harness's entry points differ from PROD_ENTRIES")
    if rep["flush_failed"]:
        raise vlib.ToolError("production run: %d fault-free flushes did not complete" % rep["flush_failed"])
    vs = verdicts(ctx, tb, "tv-prod-bytes")
    vs.update(verdicts(ctx, tj, "tv-prod-json", module="MCFileSetTraceJson", cfg="FileSetTraceJson.cfg"))
    # runs with a multi-byte separator (8-byte records)
    vs.update(verdicts(ctx, tb + ".sep", "tv-prod-sep", module="MCFileSetTraceSep", cfg="FileSetTraceSep.cfg"))
    if len(vs) != rep["runs"]:
        raise vlib.ToolError("monitor printed %d verdicts for %d production runs" % (len(vs), rep["runs"]))
    ctx.cov["traces_validated_against_impl"] += rep["runs"]
    idx = {x["sid"]: x for x in rep["index"]}
    by_sep = {}
    for x in rep["index"]:
        by_sep[x.get("sepf") or "nl"] = by_sep.get(x.get("sepf") or "nl", 0) + 1
    ctx.cov["production_runs"] = {"runs": rep["runs"], "entry_points": rep["entries"], "ops": rep["ops"],
                                  "skipped_period_change": rep["skipped_period_change"], "by_separator": by_sep}
    case_lines = open(cases).read().splitlines()
    nhit = 0
    for sid, bad in sorted(vs.items()):
        hit = sorted(bad & mine)
        if hit:
            nhit += 1
            x = idx[sid]
            case = json.loads(case_lines[x["line"] - 1])
            sepf = x.get("sepf") or "nl"
            wends = "/".join(h.get("we", "sep") for h in case["hist"] if h["op"] == "batch")
            form = "" if sepf == "nl" and set(wends.split("/")) <= {"sep", "none"} else " separator=%s writer-ends=%s" % (sepf, wends)
            what = "%s %s broken by the real FileSet on the real filesystem [%s%s]; %s" % (
                prop, ",".join(hit), x["entry"], form, shape(case))
            ctx.violation(what, {"prod": {"entry": x["entry"]}, "case": case, "clauses": hit},
                          signature="%s production %s entry=%s%s %s" % (prop, ",".join(hit), x["entry"], form, shape(case)))
            by_clause = ctx.cov.setdefault("violations_by_clause", {})
            for h in hit:
                by_clause[h] = by_clause.get(h, 0) + 1
    if only is None and not nhit:
        missing = [o for o in PROD_OPS if not rep["ops"].get(o)]
        if missing:
            raise vlib.ToolError("vacuity: the production run never needed %s" % missing)
        if "crlf" not in by_sep or "nl" not in by_sep:
            raise vlib.ToolError("vacuity: the production run saw the separators %s only" % sorted(by_sep))
    if rep["prediction_mismatch"]:
        vlib.log("MODEL-DRIFT: %d production runs end in a directory that differs from spec/FileWorker.tla's"
                 % rep["prediction_mismatch"])
        ctx.cov["drift_runs"] = ctx.cov.get("drift_runs", 0) + rep["prediction_mismatch"]
    ctx.assumptions += [
        "production run: the filesystem calls of StdFilesystem / StdFile are not seen; the effect of each one-event batch "
        "is read back from the directory after a successful flush (synced-ness is not observable: every appended byte "
        "counts as synced); names are matched against the harness's own reading of the system clock before / after the batch",
    ]


def run(ctx, prop, mine, cfgs, extra_runs=None):
    """cfgs: list of (cfg file, workers).  mine: the clause names of this property."""
    bindir = None
    binname = "c10_fileset" if prop == "C10" else "c11_fileset"
    rc = ctx.replay_case()
    if rc is not None and "prod" in rc:
        production_phase(ctx, prop, mine, only=rc["case"], only_entry=rc["prod"].get("entry"))
        return
    if rc is not None and "inj" in rc:
        file_emitter_phase(ctx, prop, ("records",) if prop == "C10" else ("roll",), only=rc["inj"]["sid"], seed=rc["inj"]["seed"])
        return
    if rc is not None and "random" in rc:
        bindir = ctx.cargo_build("vh_file", bins=[binname])
        random_histories(ctx, prop, mine, os.path.join(bindir, binname),
                         only=rc["random"]["index"], seed=rc["random"]["seed"])
        return
    total_cases = 0
    taken = {}
    if rc is not None:
        cfgs = cfgs[:1]     # --replay: only the stored case, no exploration
    for cfg, workers in cfgs:
        label = cfg.replace(".cfg", "")
        cases = os.path.join(ctx.out, "cases-%s.ndjson" % label)
        if rc is not None:
            with open(cases, "w") as f:
                f.write(json.dumps(rc["case"]) + "\n")
            n = 1
        else:
            r = ctx.tlc("MCFileWorker", cfg, workers=workers, timeout=3000, xmx="8g", label=label)
            if r.violated:
                ctx.spec_violation(r, "%s FileWorker.tla (%s): clause %s fails at design level" % (
                    prop, cfg, r.violated))
                continue
            for a in ACTIONS:
                taken[a] = taken.get(a, 0) + r.coverage.get(a, (0, 0))[1]
            n = vlib.extract_printed(r.out_path, "REPLAY", cases)
            if n > 200000:
                os.remove(r.out_path)
        if n == 0 and "Emit = FALSE" in open(os.path.join(vlib.SPEC, cfg)).read():
            continue        # a design-level-only configuration
        if n == 0:
            raise vlib.ToolError("TLC printed no REPLAY lines for %s" % cfg)
        total_cases += n
        if bindir is None:
            bindir = ctx.cargo_build("vh_file", bins=[binname])
        rep_path = os.path.join(ctx.out, "report-%s.json" % label)
        div = os.path.join(ctx.out, "divergent-%s.ndjson" % label)
        smp = os.path.join(ctx.out, "sample-%s.ndjson" % label)
        every = max(1, (n * 3) // (300 if ctx.quick else 3000))
        every += (ctx.seed % 7)
        ctx.run_harness(os.path.join(bindir, binname), [cases, rep_path, div, smp, every, 400],
                        timeout=3000)
        rep = json.load(open(rep_path))
        ctx.cov["traces_validated_against_impl"] += rep["extra"]["runs"]
        ctx.cov["impl_calls_compared"] = ctx.cov.get("impl_calls_compared", 0) + rep["checks"]
        ctx.cov.setdefault("lexical_configs", rep["extra"]["lexes"])
        with open(cases) as f:
            first = f.readline()
            ctx.sample({"cfg": cfg, "case": json.loads(first)})
        # conforming sample through the level-A monitor: must be clean
        if rep["extra"]["sampled"]:
            vs = verdicts(ctx, smp, "tv-sample-" + label)
            ctx.cov["conforming_traces_through_monitor"] = \
                ctx.cov.get("conforming_traces_through_monitor", 0) + len(vs)
            dirty = {s: b for s, b in vs.items() if b - {"NewestFirstTie"}}
            if dirty:
                raise vlib.ToolError("level A rejects runs that conform to level B (%s): %s" % (
                    cfg, sorted(dirty.items())[:3]))
            if len(vs) != rep["extra"]["sampled"]:
                raise vlib.ToolError("monitor printed %d verdicts for %d sampled traces" % (
                    len(vs), rep["extra"]["sampled"]))
        # divergent runs: TLC decides every one of them at level A
        if rep["total_mismatches"]:
            vs = {}
            for i, shard in enumerate(shards(div, os.path.join(ctx.out, "div-%s" % label), 250000)):
                vs.update(verdicts(ctx, shard, "tv-divergent-%s-%d" % (label, i)))
                os.remove(shard)
            lex_names = rep["extra"]["lexes"]
            entries = [(m["sid"], m["line"], m["lex"], m) for m in rep["mismatches"]] + \
                      [(s_, ln, lex_names[li], None) for s_, ln, li in rep["extra"]["more_divergent"]]
            if len(vs) != len(entries):
                raise vlib.ToolError("monitor printed %d verdicts for %d divergent runs" % (
                    len(vs), len(entries)))
            need = {}
            ndrift = 0
            for sid, line, lex, m in entries:
                hit = sorted(vs[sid] & mine)
                if hit:
                    need.setdefault(line, []).append((sid, lex, hit, m))
                else:
                    ndrift += 1
                    if m and len(ctx.cov["drift"]) < 5:
                        ctx.cov["drift"].append({"lex": lex, "other_clauses": sorted(vs[sid]),
                                                 "difference": m["detail"]})
            if need:
                want = set(need)
                with open(cases) as f:
                    for ln, text in enumerate(f, 1):
                        if ln not in want:
                            continue
                        case = json.loads(text)
                        for sid, lex, hit, m in need[ln]:
                            what = "%s %s broken by the real worker [%s]; %s" % (
                                prop, ",".join(hit), lex, shape(case))
                            sig = "%s %s lex=%s %s" % (prop, ",".join(hit), lex, shape(case))
                            ctx.violation(what, {"case": case, "lex": lex, "clauses": hit,
                                                 "difference": m["detail"] if m else None,
                                                 "trace": m["trace"] if m else None},
                                          signature=sig)
                            by_clause = ctx.cov.setdefault("violations_by_clause", {})
                            for h in hit:
                                by_clause[h] = by_clause.get(h, 0) + 1
            if ndrift:
                vlib.log("MODEL-DRIFT: %d recorded runs (of %d differing) differ from "
                         "spec/FileWorker.tla but break no clause of %s" % (
                             ndrift, rep["total_mismatches"], prop))
                ctx.cov["drift_runs"] = ctx.cov.get("drift_runs", 0) + ndrift
    if rc is None and bindir is not None:
        random_histories(ctx, prop, mine, os.path.join(bindir, binname))
    if rc is None:
        production_phase(ctx, prop, mine)
    if rc is None:
        file_emitter_phase(ctx, prop, ("records",) if prop == "C10" else ("roll",))
    ctx.cov["cases"] = total_cases
    missing = [a for a in ACTIONS if taken and not taken.get(a)]
    if missing:
        raise vlib.ToolError("vacuity: actions never taken in any configuration: %s" % missing)
    ctx.assumptions += [
        "filesystem model: a write call appends whole / 1 byte / nothing; sync_all makes the file's content durable, "
        "sync_parent every directory entry; a crash keeps any prefix of the unsynced writes of each file (last one "
        "possibly torn to 1 byte) and may drop a file whose entry was never synced; a removal is durable at once",
        "the batcher is the environment: it feeds a returned remainder back as the next call (or drops it at a crash / restart)",
        "std::io::Write::write_all's contract (loops over write, stops at the first error)",
        "the hook adapters in emit_file::verif forward 1:1 to the injected filesystem",
        "torn writes keep 1 byte; event payloads contain no separator and are >= 3 bytes",
    ] + ["bounded: " + vlib.cfg_header(os.path.join(vlib.SPEC, c)) for c, _ in cfgs]
