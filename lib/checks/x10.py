"""X10 - the receiver's buffer pre-sizing (beyond the listed properties).

M: spec/CapWindow.tla: scripts of batch lengths; level A: hint = largest of the last 32 lengths plus
   a tenth (at least one), saturating at usize::MAX (sliding window on the script); level B: the
   code's circular array written at idx mod 32: WindowRefines, Covers, NotWasteful, Forgets,
   NoOverflow.  Lengths are exact naturals in base 10^9 (usize::MAX, the saturation edge).
G: every script is driven through a real bounded() pair and the real receiver (sync::spawn) with a
   channel type whose length is faked and which records every with_capacity(hint) call; the
   recorded hints are compared with the specification's (harness x_capacity).
"""
import json
import os

import vlib


def run(ctx):
    cfg = "CapWindow_quick.cfg" if ctx.quick else "CapWindow_thorough.cfg"
    bindir = ctx.cargo_build("vh_batcher", bins=["x_capacity"])
    r = ctx.tlc("MCCapWindow", cfg, workers=6, timeout=1500, xmx="6g", xss="256m")
    if r.violated:
        ctx.spec_violation(r, "CapWindow.tla: %s violated by the transcription of Capacity::next" % r.violated)
        return
    ctx.require_actions(r, ["Eval"], "CapWindow")
    cases = os.path.join(ctx.out, "cases.ndjson")
    n = vlib.extract_printed(r.out_path, "REPLAY", cases)
    os.remove(r.out_path)
    rc = ctx.replay_case()
    if rc is not None:
        with open(cases, "w") as f:
            f.write(json.dumps(rc["case"]) + "\n")
        n = 1
    if n == 0:
        raise vlib.ToolError("TLC printed no cases")
    with open(cases) as f:
        for i, line in enumerate(f):
            if i in (5, 200):
                c = json.loads(line)
                ctx.sample({"runs": c["runs"], "hints_first_last": [c["hints"][0], c["hints"][-1]], "batches": len(c["hints"])})
    rep_path = os.path.join(ctx.out, "report.json")
    ctx.run_harness(os.path.join(bindir, "x_capacity"), [cases, rep_path], timeout=1500)
    rep = json.load(open(rep_path))
    if rep["cases"] != n:
        raise vlib.ToolError("harness decided %d of %d cases" % (rep["cases"], n))
    ctx.cov["traces_validated_against_impl"] += rep["cases"]
    ctx.cov["batches_driven"] = rep["checks"]
    ctx.assumptions += [
        "64-bit usize; the channel's length is faked (the last pushed item says how long the batch is), one batch per item",
        "the receiver's idle polling delay is scaled down through emit_batcher's existing verif hook",
        "empty batches make no hint (the receiver does not process them) and are not scripted",
        "bounded: " + vlib.cfg_header(os.path.join(vlib.SPEC, cfg)),
    ]
    for m in rep["mismatches"]:
        ctx.violation("X10 %s: %s" % (m["what"], json.dumps(m["detail"])[:500]), m, signature=m["what"])
