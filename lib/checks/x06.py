"""X06 - the algebra of Path (beyond the listed properties).

M: spec/PathAlg.tla: a path is a non-empty sequence of identifier segments joined by `::`
   (validity = the grammar of spec/Text.tla, instantiated read-only); level B is the code's
   byte-level is_child_of / split("::") / append and Str's owner tag; invariants JoinsAreValid,
   FormRule (segments round-trip, static-ness), ChildRule, AppendRule, OrderLaws (is_child_of a
   partial order up to equality, == / Ord those of the texts), AppendAssociative.
G: every case (constructor text, storage form, pair, triple) is printed with the statement's
   answers and replayed on the real Path: every constructor, accessor, comparison, Value / serde
   conversion (harness x_path).
"""
import json
import os

import vlib


def run(ctx):
    cfg = "PathAlg_quick.cfg" if ctx.quick else "PathAlg_thorough.cfg"
    bindir = ctx.cargo_build("vh_core", bins=["x_path"])
    r = ctx.tlc("MCPathAlg", cfg, workers=6, timeout=1500, xmx="6g")
    if r.violated:
        ctx.spec_violation(r, "PathAlg.tla: %s violated by the transcription of the code" % r.violated)
        return
    ctx.require_actions(r, ["Eval"], "PathAlg")
    cases = os.path.join(ctx.out, "cases.ndjson")
    n = vlib.extract_printed(r.out_path, "REPLAY", cases)
    os.remove(r.out_path)
    rc = ctx.replay_case()
    if rc is not None:
        with open(cases, "w") as f:
            f.write(json.dumps(rc["case"]) + "\n")
        n = 1
    if n == 0:
        raise vlib.ToolError("TLC printed no cases")
    kinds = {}
    samples = {}
    with open(cases) as f:
        for line in f:
            k = line[9:line.index('"', 9)] if line.startswith('{"kind":"') else "?"
            kinds[k] = kinds.get(k, 0) + 1
            if kinds[k] == 40:
                samples[k] = json.loads(line)
    if rc is None:
        missing = [k for k in ("ctor", "form", "pair", "triple") if not kinds.get(k)]
        if missing:
            raise vlib.ToolError("vacuity: no cases of kind %s" % missing)
    rep_path = os.path.join(ctx.out, "report.json")
    ctx.run_harness(os.path.join(bindir, "x_path"), [cases, rep_path])
    rep = json.load(open(rep_path))
    if rep["cases"] != n:
        raise vlib.ToolError("harness decided %d of %d cases" % (rep["cases"], n))
    ctx.cov["traces_validated_against_impl"] += rep["cases"]
    ctx.cov["impl_checks"] = rep["checks"]
    ctx.cov["cases_per_kind"] = kinds
    for k in ("ctor", "form", "pair", "triple"):
        if k in samples:
            ctx.sample(samples[k])
    ctx.assumptions += [
        "is_child_of / segments on invalid paths are undefined by the docs: the relational cases use valid paths only",
        "a segment made of underscores only: the statement is silent (don't-care, as in C15)",
        "Ord is stated as the byte order of the UTF-8 texts (what Str / str give); Debug is that of the text",
        "non-ASCII texts are kept out of TLC's state (indices into constant tables): the disk state queue does not "
        "preserve them",
        "bounded: " + vlib.cfg_header(os.path.join(vlib.SPEC, cfg)),
    ]
    for m in rep["mismatches"]:
        d = m["detail"]
        first = d[0] if isinstance(d, list) and d else {}
        key = first.get("ctor") or first.get("accessor") or first.get("op") or first.get("law") or ""
        ctx.violation("X06 %s: %s" % (m["what"], json.dumps(d)[:500]), m, signature="%s:%s" % (m["what"], key))
