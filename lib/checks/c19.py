"""C19 - captured values keep their type and structure from call site to sink.

Claim level: exploration.  The specification (spec/Capture.tla) carries the MEANING TABLE
(which observations a capture mode promises for a type class) and the TRANSFORMATION PATHS
(by-ref, type erasure of props / events, owned and shared copies, buffering in a
ThreadLocalCtxt frame, moving to another thread, reading back) with the components each step
must preserve; concrete values come from the harness's seeded pool.

M: TLC enumerates every call site (capture mode x type class that compiles) x every path
   within the bound and checks the step-by-step bookkeeping against the declarative promise
   (Preserved) and the statement's clauses (PresenceNeverLost, TypedSurvivesBuffering,
   StructureSurvivesBuffering, DirectReadKeepsAll).
G: one REPLAY line per transition (= per path) with the promised components; the harness
   (harness/vh_enc/src/bin/c19_capture.rs) captures pool values at REAL macro call sites -
   one per (mode, Rust type), stamped by macro_rules! - applies the path to the resulting
   emit::Value and compares pull / to_string / {:?} / serde_json / sval_json / error chain
   with what the original value produces.
"""
import json
import os

import vlib


def run(ctx):
    ctx.level = "exploration"
    cfg = "Capture_quick.cfg" if ctx.quick else "Capture_thorough.cfg"
    r = ctx.tlc("MCCapture", cfg, workers=4 if ctx.quick else 6, timeout=3000, xmx="8g")
    if r.violated:
        ctx.spec_violation(r, "Capture.tla: %s violated" % r.violated)
        return
    ctx.require_actions(r, ["ByRef", "Erase", "EraseEvent", "ToOwned", "ToShared", "IntoCtxt", "PushFrame",
                            "MoveThread", "ReadBack", "Observe"], "Capture")
    cases = os.path.join(ctx.out, "cases.ndjson")
    n = vlib.extract_printed(r.out_path, "REPLAY", cases)
    st = list(vlib.iter_printed(r.out_path, "SITES"))
    if not st or n == 0:
        raise vlib.ToolError("TLC printed no cases / site table")
    sites = json.loads(st[0])
    rc = ctx.replay_case()
    if rc is not None and "case" in rc:
        with open(cases, "w") as f:
            f.write(json.dumps(rc["case"]) + "\n")
        n = 1
    with open(cases) as f:
        for i, line in enumerate(f):
            if i in (0, n // 2, n - 1):
                ctx.sample(json.loads(line))

    bindir = ctx.cargo_build("vh_enc", bins=["c19_capture"])
    rep_path = os.path.join(ctx.out, "report.json")
    ctx.run_harness(os.path.join(bindir, "c19_capture"), [cases, rep_path], timeout=3000,
                    env={"VERIF_PASSES": "1" if (ctx.quick or rc is not None) else "3"})
    rep = json.load(open(rep_path))
    ex = rep["extra"]
    ctx.cov["traces_validated_against_impl"] += ex["executions"]
    ctx.cov["evaluations"] = ex["executions"]
    ctx.cov["distinct_nontrivial"] = n if rc is None else 1
    ctx.cov["spec_call_sites"] = len(sites)
    ctx.cov["rule"] = (
        "every call site (capture mode incl. attribute argument and the macro-less conversion API x type class x macro wrap) x every "
        "transformation path of length <= MaxSteps x every read path of the final representation (incl. the typed ones "
        "as_f64 / to_borrowed_str / cast::<&str> / cast::<String> / cast::<&dyn Error> where the site promises the typed component), enumerated "
        "by TLC; each case executed once per Rust type of the class (one real macro call site per mode x type x "
        "wrap): on EVERY pool extreme of the type for paths of length <= ExhaustUpTo, on a seeded draw otherwise; "
        "evaluations = capture+path+read executions; distinct_nontrivial = distinct (site, path, reader) cases")
    ctx.cov["call_sites"] = ex["call_sites"]
    ctx.cov["call_sites_used"] = ex["call_sites_used"]
    ctx.cov["component_checks"] = rep["checks"]
    ctx.cov["total_mismatches"] = rep["total_mismatches"]
    ctx.cov["mismatch_categories"] = ex.get("mismatch_categories", {})
    ctx.assumptions += [
        "the original value's own Display / Debug / serde_json / sval_json output is the reference",
        "derived serde and sval impls of the pool's struct / enum denote the same data model",
        "not decided (statement silent): Display/Debug text and error identity after owned / shared / context "
        "buffering (except: a number / boolean / string captured typed must show the same Display text on every "
        "representation and read path); formatting of primitives and strings captured with `inspect: true`; "
        "whether as_debug of a &str shows its Debug or its own text (a String shows Debug); downcast fast paths",
        "value-bag / sval / serde bridges are exercised, not modelled",
        "Display / Debug components are compared under the plain formatter and under 8 formatter flag families ({:#} {:>10} "
        "{:*>6} {:.2} {:>8.2} {:+} {:06} and, Debug only, {:x?} / {:#06x?}) against the original Rust value formatted with the "
        "same format string, through Display and through Debug, plus three flagged template holes (#[emit::fmt(\"#?\")], "
        "\">8.2?\", \">8.2\") on the render path; text_stable compares the same flagged texts with those of the captured Value",
        "typed read paths: as_f64 of a number = its `as f64` conversion (of anything else: not decided); cast::<String> of a "
        "string = an owned copy; to_borrowed_str / cast::<&str> = the string itself while the value has only been passed by "
        "reference / type-erased, afterwards None is accepted (never a different string); hand-built properties "
        "(mode from_value: Value::from / to_value, no macro) promise what as_value promises, arrays their sequence",
        "bounded: %s" % vlib.cfg_header(os.path.join(vlib.SPEC, cfg)),
    ]
    witnessed = set()
    for m in rep["mismatches"]:
        witnessed.add(m["detail"]["sig"].split(" ty=")[0])
        ctx.violation("C19 %s: %s" % (m["what"], json.dumps(m["detail"])[:500]), m,
                      signature="C19:" + m["detail"]["sig"])
    # a category whose witnesses did not fit into the report is still a violation of its own
    # (a known finding must never hide a different one)
    for cat, n in sorted(ex.get("mismatch_categories", {}).items()):
        if cat not in witnessed:
            ctx.violation("C19 %s (%d executions; no witness kept in the report)" % (cat, n),
                          {"kind": "category-without-witness", "category": cat, "count": n},
                          signature="C19:" + cat + " ")
