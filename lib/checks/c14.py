"""C14 - each event goes to exactly one OTLP signal, chosen by kind, logs as fallback.

M: spec/OtlpRoute.tla.  Every abstract event (kind spelling x extent x metric value shape x
   aggregation) x every subset of configured signals is an initial state; the emit path of
   `OtlpInner::emit` (TryMetrics -> TryTraces -> TryLogs -> Discard, each step's decline
   condition transcribed from the encoders) runs as a state machine whose terminal state must
   be a route the statement permits (RouteRefines), count a discard exactly when nothing was
   sent (DiscardCounted), use configured signals only and send once.
G: TLC prints one REPLAY line per case with the permitted routes; the harness sends one
   tagged event per case through a real `emit_otlp::Otlp` (one per signal subset and
   transport) to the scripted loopback collector, and compares the endpoint that received the
   tag and the `event_discarded` delta with the permitted routes.
"""
import json
import os

import vlib


def count_phase(ctx, rc):
    """The accounting clause under concurrency (spec/OtlpCount.tla): every interleaving of threads emitting
    through one emitter counts every discarded event exactly once; the scripts are run on real threads."""
    r = ctx.tlc("MCOtlpCount", "OtlpCount_quick.cfg" if ctx.quick else "OtlpCount_thorough.cfg", workers=4,
                timeout=900, xmx="4g", label="OtlpCount")
    if r.violated:
        ctx.spec_violation(r, "OtlpCount.tla: %s violated by the atomic counter" % r.violated)
        return
    ctx.require_actions(r, ["SentA", "DiscardA"], "OtlpCount")
    cases = os.path.join(ctx.out, "count-cases.ndjson")
    n = vlib.extract_printed(r.out_path, "REPLAY", cases)
    with open(cases) as f:
        srt = sorted(set(f.readlines()))
    if rc is not None:
        srt = [json.dumps(rc["case"]) + "\n"]
    with open(cases, "w") as f:
        f.writelines(srt)
    if not srt:
        raise vlib.ToolError("OtlpCount printed no scripts")
    # the counter as a separate load and store loses updates: the specification must say so on every run
    bad = ctx.tlc("MCOtlpCount", "OtlpCount_split.cfg", workers=2, timeout=900, xmx="2g", count=False,
                  expect_violation=True, label="OtlpCount_split")
    if bad.violated != "CountExact":
        raise vlib.ToolError("OtlpCount_split.cfg: expected CountExact to be violated by the load/store counter, got %r" % bad.violated)
    bindir = ctx.cargo_build("vh_otlp", bins=["c14_count"])
    rep_path = os.path.join(ctx.out, "count-report.json")
    reps = ["50000", "40"] if ctx.quick else ["300000", "100"]
    ctx.run_harness(os.path.join(bindir, "c14_count"), [cases, rep_path] + reps)
    rep = json.load(open(rep_path))
    ctx.cov["traces_validated_against_impl"] += rep["cases"]
    ctx.cov["concurrent_accounting"] = {"scripts": rep["cases"], "checks": rep["checks"], "split_design_violates": bad.violated,
                                        **rep["extra"]}
    ctx.sample(json.loads(srt[len(srt) // 2]))
    ctx.assumptions.append("OtlpCount: the interleaving of the real threads is the operating system's (the specification decides that the "
                           "outcome does not depend on it); every model step is repeated %s / %s times back to back" % tuple(reps))
    for m in rep["mismatches"]:
        ctx.violation("C14 %s: %s" % (m["what"], json.dumps(m["detail"])[:300]), {"case": m["case"], "detail": m["detail"]},
                      signature="count " + m["what"])
    if not rep["mismatches"] and rc is None and not rep["extra"].get("scripts_with_concurrent_discards"):
        raise vlib.ToolError("vacuity: no script had two threads discarding concurrently")


def run(ctx):
    cfg = "OtlpRoute_quick.cfg" if ctx.quick else "OtlpRoute_thorough.cfg"
    r = ctx.tlc("OtlpRoute", cfg, workers=4, timeout=900, xmx="4g")
    if r.violated:
        ctx.spec_violation(r, "OtlpRoute.tla: %s violated by the transcription of the emit path"
                           % r.violated)
        return
    ctx.require_actions(r, ["TryMetrics", "TryTraces", "TryLogs", "Discard"], "OtlpRoute")
    cases = os.path.join(ctx.out, "cases.ndjson")
    n = vlib.extract_printed(r.out_path, "REPLAY", cases)
    with open(cases) as f:          # TLC's workers print in any order: fix it
        srt = sorted(f.readlines())
    with open(cases, "w") as f:
        f.writelines(srt)
    rc = ctx.replay_case()
    if rc is not None and rc.get("case", {}).get("threads"):
        count_phase(ctx, rc)
        return
    if rc is not None:
        with open(cases, "w") as f:
            f.write(json.dumps(rc["case"]) + "\n")
        n = 1
    if n == 0:
        raise vlib.ToolError("TLC printed no cases")
    transports = "http_proto:0,http_json:1,grpc:1" if ctx.quick else "http_proto:0,http_json:1,grpc:1,http_proto:1,http_json:0,grpc:0"
    if rc is not None and rc.get("detail", {}).get("transport"):
        t = rc["detail"]["transport"]
        transports = "%s:%d" % (t.replace("+gzip", ""), 1 if t.endswith("+gzip") else 0)
    bindir = ctx.cargo_build("vh_otlp", bins=["c14_route"])
    rep_path = os.path.join(ctx.out, "report.json")
    ctx.run_harness(os.path.join(bindir, "c14_route"), [cases, rep_path, transports])
    rep = json.load(open(rep_path))
    ctx.cov["traces_validated_against_impl"] += rep["checks"]
    ctx.cov["impl_checks"] = rep["checks"]
    ctx.cov["observed_routes"] = rep["extra"].get("observed_routes")
    ctx.cov["real_emitters"] = rep["extra"].get("emitters")
    ctx.cov["transports"] = transports
    routes = rep["extra"].get("observed_routes", {})
    with open(cases) as f:
        lines = f.readlines()
    for i in (0, len(lines) // 3, (2 * len(lines)) // 3, len(lines) - 1):
        ctx.sample(json.loads(lines[i]))
    ctx.assumptions += [
        "an event's abstract shape (kind spelling, extent, value shape, aggregation) is represented by one concrete value per class (see c14_route.rs emit_case)",
        "lenient kind spellings ('SPAN', ' metric ') and empty sequences are don't-cares: either reading is accepted",
        "the collector acknowledges every request; an event is observed where an acknowledged request of that endpoint carries its vid attribute",
        "bounded: %s" % vlib.cfg_header(os.path.join(vlib.SPEC, cfg)),
    ]
    for m in rep["mismatches"]:
        ev = m["case"].get("ev", {})
        sig = "route kind=%s ext=%s val=%s observed=%s" % (
            ev.get("kind"), ev.get("ext"), ev.get("val"), m["detail"].get("observed"))
        ctx.violation("C14 %s (transport %s, configured %s)" % (
            m["what"], m["detail"].get("transport"), m["case"].get("cfg")), m, signature=sig)
    if rc is None:
        count_phase(ctx, None)
    # vacuity guard (only meaningful when every case agreed)
    if rc is None and not ctx.violations:
        for want in ("logs", "traces", "metrics", "discard"):
            if not routes.get(want):
                raise vlib.ToolError("vacuity: no real event was observed on route %s" % want)
