"""C14 - each event goes to exactly one OTLP signal, chosen by kind, logs as fallback.

M: spec/OtlpRoute.tla.  Every abstract event (kind spelling x extent x metric value shape x
   aggregation) x every subset of configured signals is an initial state; the emit path of
   `OtlpInner::emit` (TryMetrics -> TryTraces -> TryLogs -> Discard, each step's decline
   condition transcribed from the encoders) runs as a state machine whose terminal state must
   be a route the statement permits (RouteRefines), count a discard exactly when nothing was
   sent (DiscardCounted), use configured signals only and send once.
G: TLC prints one REPLAY line per case with the permitted routes; the harness sends one
   tagged event per case through a real `emit_otlp::Otlp` (one per signal subset and
   transport) to the scripted loopback collector, and compares the endpoint that received the
   tag and the `event_discarded` delta with the permitted routes.
"""
import json
import os

import vlib


def run(ctx):
    cfg = "OtlpRoute_quick.cfg" if ctx.quick else "OtlpRoute_thorough.cfg"
    r = ctx.tlc("OtlpRoute", cfg, workers=4, timeout=900, xmx="4g")
    if r.violated:
        ctx.spec_violation(r, "OtlpRoute.tla: %s violated by the transcription of the emit path"
                           % r.violated)
        return
    ctx.require_actions(r, ["TryMetrics", "TryTraces", "TryLogs", "Discard"], "OtlpRoute")
    cases = os.path.join(ctx.out, "cases.ndjson")
    n = vlib.extract_printed(r.out_path, "REPLAY", cases)
    with open(cases) as f:          # TLC's workers print in any order: fix it
        srt = sorted(f.readlines())
    with open(cases, "w") as f:
        f.writelines(srt)
    rc = ctx.replay_case()
    if rc is not None:
        with open(cases, "w") as f:
            f.write(json.dumps(rc["case"]) + "\n")
        n = 1
    if n == 0:
        raise vlib.ToolError("TLC printed no cases")
    transports = "http_proto:0,http_json:1,grpc:1" if ctx.quick else "http_proto:0,http_json:1,grpc:1,http_proto:1,http_json:0,grpc:0"
    if rc is not None and rc.get("detail", {}).get("transport"):
        t = rc["detail"]["transport"]
        transports = "%s:%d" % (t.replace("+gzip", ""), 1 if t.endswith("+gzip") else 0)
    bindir = ctx.cargo_build("vh_otlp", bins=["c14_route"])
    rep_path = os.path.join(ctx.out, "report.json")
    ctx.run_harness(os.path.join(bindir, "c14_route"), [cases, rep_path, transports])
    rep = json.load(open(rep_path))
    ctx.cov["traces_validated_against_impl"] += rep["checks"]
    ctx.cov["impl_checks"] = rep["checks"]
    ctx.cov["observed_routes"] = rep["extra"].get("observed_routes")
    ctx.cov["real_emitters"] = rep["extra"].get("emitters")
    ctx.cov["transports"] = transports
    routes = rep["extra"].get("observed_routes", {})
    with open(cases) as f:
        lines = f.readlines()
    for i in (0, len(lines) // 3, (2 * len(lines)) // 3, len(lines) - 1):
        ctx.sample(json.loads(lines[i]))
    ctx.assumptions += [
        "an event's abstract shape (kind spelling, extent, value shape, aggregation) is represented by one concrete value per class (see c14_route.rs emit_case)",
        "lenient kind spellings ('SPAN', ' metric ') and empty sequences are don't-cares: either reading is accepted",
        "the collector acknowledges every request; an event is observed where an acknowledged request of that endpoint carries its vid attribute",
        "bounded: %s" % vlib.cfg_header(os.path.join(vlib.SPEC, cfg)),
    ]
    for m in rep["mismatches"]:
        ev = m["case"].get("ev", {})
        sig = "route kind=%s ext=%s val=%s observed=%s" % (
            ev.get("kind"), ev.get("ext"), ev.get("val"), m["detail"].get("observed"))
        ctx.violation("C14 %s (transport %s, configured %s)" % (
            m["what"], m["detail"].get("transport"), m["case"].get("cfg")), m, signature=sig)
    # vacuity guard (only meaningful when every case agreed)
    if rc is None and not ctx.violations:
        for want in ("logs", "traces", "metrics", "discard"):
            if not routes.get(want):
                raise vlib.ToolError("vacuity: no real event was observed on route %s" % want)
