"""C15 - text forms round-trip and every parser is total.

M: spec/Text.tla: the level-B transcriptions of the two hand-written automata
   (`is_valid_path`, the level `FromStr`/`parse`) run as state machines over every string of
   a bounded domain and must decide exactly the grammar (AutomataRefineGrammar).
   Self-test: the transcription of is_valid_path as found must violate it (F11).
G: TLC enumerates the texts (exhaustive short strings over character classes, near-misses of
   well-formed texts, level words) and prints each with the verdict of every acceptor
   (accept with value / reject / don't-care), and formatted values with the predicted text;
   the harness calls every entry point of every parser under catch_unwind and compares.
E: oracle-free sweeps in the harness (every day 1970..9999 both ways, order, random ids and
   strings): self-consistency and absence of panics only -> level "exploration".
"""
import json
import os

import vlib

TAGS = ("FORMS", "CASE", "FMT", "FLAG", "TPFMT", "LVLFMT", "KINDFMT")


def run(ctx):
    ctx.level = "exploration"
    cfg = "Text_quick.cfg" if ctx.quick else "Text_thorough.cfg"
    r0 = ctx.tlc("MCText", "Text_current.cfg", workers=2, timeout=600, xmx="2g", coverage=False,
                 count=False, expect_violation=True)
    if r0.violated != "AutomataRefineGrammar":
        raise vlib.ToolError("self-test: Text_current.cfg did not violate AutomataRefineGrammar (F11)")
    ctx.cov["spec_selftest"] = "transcription of is_valid_path as found violates AutomataRefineGrammar (F11)"

    r = ctx.tlc("MCText", cfg, workers=6, timeout=3000, xmx="8g")
    if r.violated:
        ctx.spec_violation(r, "Text.tla: %s violated by the transcription of the automata" % r.violated)
        return
    ctx.require_actions(r, ["PathAct", "LevelAct"], "Text")
    cases = os.path.join(ctx.out, "cases.ndjson")
    counts = {}
    rc = ctx.replay_case()
    with open(cases, "w") as fo:
        if rc is not None and isinstance(rc.get("case"), dict) and "k" in rc["case"]:
            # --replay: only the stored line (after the FORMS line: the harness needs the names / rules)
            for p in vlib.iter_printed(r.out_path, "FORMS"):
                fo.write('{"k":"FORMS","c":%s}\n' % p)
            fo.write(json.dumps(rc["case"]) + "\n")
            counts[rc["case"]["k"]] = 1
        else:
            for tag in TAGS:
                n = 0
                for p in vlib.iter_printed(r.out_path, tag):
                    fo.write('{"k":"%s","c":%s}\n' % (tag, p))
                    n += 1
                counts[tag] = n
            if not counts["CASE"] or not counts["FMT"]:
                raise vlib.ToolError("TLC printed no cases")
    ctx.cov["generated"] = counts
    bindir = ctx.cargo_build("vh_text", bins=["c15_text"])
    rep_path = os.path.join(ctx.out, "report.json")
    sweep = "none" if (rc is not None and isinstance(rc.get("case"), dict)) else ctx.tier
    ctx.run_harness(os.path.join(bindir, "c15_text"), [cases, rep_path, sweep], timeout=2400)
    rep = json.load(open(rep_path))
    ex = rep["extra"]
    ctx.cov["traces_validated_against_impl"] += ex["decided_by_spec"]
    ctx.cov["evaluations"] = ex["sweep_evaluations"]
    ctx.cov["distinct_nontrivial"] = ex["distinct_accepted_values"]
    ctx.cov["rule"] = ("spec-decided: every entry point x every generated text must return the acceptor's "
                       "verdict/value (don't-care: no panic only); sweeps (oracle-free): from_parts(to_parts(t)) = t "
                       "and parse(format(t, p)) = truncate(t, p) for every day 1970..9999 at 00:00:00 and "
                       "23:59:59.999999999, every second of six days, text order = instant order on adjacent days and "
                       "seeded pairs, format->parse of seeded ids, no panic and agreement of all entry points on seeded "
                       "random strings of <= 64 characters of all UTF-8 widths; distinct_nontrivial = distinct accepted values")
    ctx.cov["decided_per_parser_and_verdict"] = ex["decided"]
    ctx.cov["findings_observed"] = ex.get("findings_observed", {})
    ctx.cov["errors_rendered"] = ex.get("errors_rendered", 0)
    ctx.cov["error_messages"] = ex.get("error_messages", [])
    if sweep != "none" and not ctx.cov["errors_rendered"]:
        raise vlib.ToolError("no error value was rendered")
    fo = ex.get("findings_observed", {}).get("counts", {})
    if any(k.endswith(":differs") for k in fo):
        vlib.log("  FINDING (don't-care in the spec, see Text.tla CastDontCare): ids do not cast from serde/sval-captured text: %s"
                 % json.dumps({k: v for k, v in fo.items() if k.endswith(":differs")}))
    with open(cases) as f:
        lines = f.readlines()
    for i in (len(lines) // 7, len(lines) // 2, len(lines) - 300):
        if 0 <= i < len(lines):
            c = json.loads(lines[i])
            if c["k"] == "CASE":
                ctx.sample({"text": "".join(c["c"]["t"]), "verdicts": {k: v["v"] for k, v in c["c"].items() if k != "t"}})
            else:
                ctx.sample(c)
    ctx.assumptions += [
        "one representative character per class (digit, hex lower/upper, other letter, separators, sign, space, tab as control, é/€/😀 for 2/3/4-byte UTF-8, _)",
        "tab is the control representative and is also white space (trimmed by level/kind)",
        "don't-care: well-shaped timestamps with out-of-range fields (month 00/13, second 60, year < 1970), t/z/space variants of RFC 3339, upper-case hex inside a traceparent, level texts containing characters LevelParse.tla does not classify",
        "identifier start = XID_Start or `_` (module_path!() yields `_x` segments); XID classes represented by a, é / 1 / _",
        "the full-range sweeps are oracle-free (self-consistency), see coverage.rule",
        "forms and channels: one verdict per text whatever CastForm carries it, one text per typed value whatever ValueChannel takes it out (serde_json / sval_json trusted to transport a string); CastDontCare pairs (ids from serde/sval-captured text) are a reported finding, not asserted",
        "errors: the error of every Result-returning entry point is rendered through every ErrorChannel: no panic, a non-empty message, the same message through every channel (Debug / padded Display: non-empty / contains it); the wording is not compared",
        "bounded: %s" % vlib.cfg_header(os.path.join(vlib.SPEC, cfg)),
    ]
    seen, first, rest = set(), [], []
    for m in rep["mismatches"]:
        (rest if m["what"] in seen else first).append(m)
        seen.add(m["what"])
    for m in first + rest:
        d = m["detail"]
        ctx.violation("C15 %s: %s" % (m["what"], json.dumps(d, ensure_ascii=False)[:300]),
                      {"case": m["case"], "detail": d, "what": m["what"]},
                      signature="C15 %s" % m["what"])
    if rep["total_mismatches"]:
        vlib.log("  mismatch kinds: %s" % json.dumps(ex["mismatch_kinds"]))
