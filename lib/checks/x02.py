"""X02 - extents and timers (beyond the listed properties).

M: spec/Extent.tla: every `ToExtent` source (Empty, Timestamp, Range<Timestamp>, Range<Option<..>>
   with every present/absent combination, Extent, None::<T>, under transparent wrappers) is
   converted by the transcription of the impls (level B) and every accessor must say what the
   documented statement says (level A): ConversionRule, PointXorRange, AsPointRule, AsRangeRule,
   LenRule, PropsRule, CarrierRule, LenSanity.
   spec/ExtentTimer.tla: Timer::start then sequences of queries, the environment choosing each
   clock reading (absent / forwards / equal / backwards): TimerRefines, TimerExtentIsRange,
   ElapsedDefined, StartStable.
G: every case / transition is printed with the statement's prediction and replayed on the real
   Extent / ToExtent impls / Event, Metric, Span carriers / Timer (harness x_extent).
"""
import json
import os

import vlib


def _replay(ctx, kind, module, cfg, actions, bindir, workers):
    r = ctx.tlc(module, cfg, workers=workers, timeout=1200, xmx="4g", label="%s-%s" % (kind, ctx.tier))
    if r.violated:
        ctx.spec_violation(r, "%s: %s violated by the transcription of the code" % (module, r.violated))
        return
    ctx.require_actions(r, actions, module)
    cases = os.path.join(ctx.out, "cases-%s.ndjson" % kind)
    n = vlib.extract_printed(r.out_path, "REPLAY", cases)
    os.remove(r.out_path)
    rc = ctx.replay_case()
    if rc is not None:
        if rc.get("kind") != kind:
            return
        with open(cases, "w") as f:
            f.write(json.dumps(rc["case"]) + "\n")
        n = 1
    if n == 0:
        raise vlib.ToolError("TLC printed no cases for %s" % module)
    rep_path = os.path.join(ctx.out, "report-%s.json" % kind)
    ctx.run_harness(os.path.join(bindir, "x_extent"), [kind, cases, rep_path])
    rep = json.load(open(rep_path))
    if rep["cases"] != n:
        raise vlib.ToolError("harness decided %d of %d cases" % (rep["cases"], n))
    ctx.cov["traces_validated_against_impl"] += rep["cases"]
    ctx.cov["impl_checks"] = ctx.cov.get("impl_checks", 0) + rep["checks"]
    with open(cases) as f:
        ctx.sample({kind: json.loads(f.readline())})
        for _ in range(min(n - 2, 3000)):
            f.readline()
        if n > 1:
            ctx.sample({kind: json.loads(f.readline())})
    for m in rep["mismatches"]:
        m = dict(m, kind=kind)
        ctx.violation("X02 %s: %s" % (m["what"], json.dumps(m["detail"])[:400]), m,
                      signature="%s:%s" % (kind, m["what"]))


def run(ctx):
    tier = "quick" if ctx.quick else "thorough"
    bindir = ctx.cargo_build("vh_core", bins=["x_extent"])
    _replay(ctx, "extent", "MCExtent", "Extent_%s.cfg" % tier, ["Convert"], bindir, 4)
    _replay(ctx, "timer", "MCExtentTimer", "ExtentTimer_%s.cfg" % tier, ["Start", "Query"], bindir, 4)
    ctx.assumptions += [
        "instants are <<secs, nanos>> with secs <= 10^9 (32-bit TLC integers): Timestamp::MAX itself is not among them",
        "the order in which an extent enumerates ts_start / ts is not part of the statement (compared as a set)",
        "Timestamp's own Display/Debug text is taken from the code (only the start..end shape is specified)",
        "bounded: " + vlib.cfg_header(os.path.join(vlib.SPEC, "Extent_%s.cfg" % tier)),
        "bounded: " + vlib.cfg_header(os.path.join(vlib.SPEC, "ExtentTimer_%s.cfg" % tier)),
    ]
