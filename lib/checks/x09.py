"""X09 - the configuration surface of emit_file (beyond the listed properties).

M: spec/FileConf.tla: templates -> (dir, prefix, ext): the documented split (level A) against
   std's parent / file_stem / extension and file_name / is_file_set_member (level B):
   TemplateRule, MembersRecognised, ForeignNotMember; the worker at the granularity of its
   counters with one injected fault at most: Conservation, FailuresCounted, RetentionBound,
   BatchesAccounted, CreatedWhenNeeded.
G: templates: verif::dir_prefix_ext and, end to end over an in-memory filesystem, where the first
   file goes, its exact name, and that a later run recognises it; templates without a file name
   through the real emit_file::set(..).spawn(); scenarios: a real FileSet (verif::spawn_with)
   whose invocations are lined up through the injected clock, counters of metric_source()
   compared with the specification's and with the filesystem's own operation counts
   (harness x_file_config).
"""
import json
import os

import vlib


def run(ctx):
    cfg = "FileConf_quick.cfg" if ctx.quick else "FileConf_thorough.cfg"
    bindir = ctx.cargo_build("vh_file", bins=["x_file_config"])
    r = ctx.tlc("MCFileConf", cfg, workers=4, timeout=900, xmx="4g")
    if r.violated:
        ctx.spec_violation(r, "FileConf.tla: %s violated by the transcription of the code" % r.violated)
        return
    ctx.require_actions(r, ["PickTpl", "PickInv", "PickScn", "Fresh", "Retry"], "FileConf")
    cases = os.path.join(ctx.out, "cases.ndjson")
    n = vlib.extract_printed(r.out_path, "REPLAY", cases)
    os.remove(r.out_path)
    rc = ctx.replay_case()
    if rc is not None:
        with open(cases, "w") as f:
            f.write(json.dumps(rc["case"]) + "\n")
        n = 1
    if n == 0:
        raise vlib.ToolError("TLC printed no cases")
    kinds = {}
    faults = set()
    with open(cases) as f:
        for line in f:
            c = json.loads(line)
            kinds[c["kind"]] = kinds.get(c["kind"], 0) + 1
            if c["kind"] == "scn":
                faults.update(s["fault"] for s in c["steps"])
            if kinds[c["kind"]] in (3, 400):
                ctx.sample(c)
    if rc is None:
        missing = [k for k in ("tpl", "inv", "scn") if not kinds.get(k)]
        missing += [f for f in ("none", "mkdir", "list", "create", "write", "delete", "sync") if f not in faults]
        if missing:
            raise vlib.ToolError("vacuity: never exercised: %s" % missing)
    rep_path = os.path.join(ctx.out, "report.json")
    ctx.run_harness(os.path.join(bindir, "x_file_config"), [cases, rep_path], timeout=1200)
    rep = json.load(open(rep_path))
    if rep["cases"] != n:
        raise vlib.ToolError("harness decided %d of %d cases" % (rep["cases"], n))
    ctx.cov["traces_validated_against_impl"] += rep["cases"]
    ctx.cov["impl_checks"] = rep["checks"]
    ctx.cov["cases_per_kind"] = kinds
    ctx.assumptions += [
        "a template name without an extension gets `log` and `name.` the empty extension: the crate docs show only "
        "dir/name.ext; these are the code's (std::path) and are stated as such",
        "the in-memory filesystem is the harness binary's own (vh_file's cannot be constructed from outside its crate); one "
        "injected fault per scenario; the first batch of a scenario is one event",
        "retry backoff is scaled down through emit_batcher's existing verif hook; invocations are lined up through the injected clock",
        "event_format_failed, file_open_failed (reuse_files) and the channel's full / panicked counters stay zero in these "
        "scenarios and are only checked to be zero; the IO protocol itself is C10 / C11",
        "bounded: " + vlib.cfg_header(os.path.join(vlib.SPEC, cfg)),
    ]
    for m in rep["mismatches"]:
        ctx.violation("X09 %s: %s" % (m["what"], json.dumps(m["detail"])[:500]), m, signature=m["what"])
