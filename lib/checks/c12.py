"""C12 - OTLP export delivers every accepted event however batches are split.

M: spec/Otlp.tla (level B, one signal): the Channel::push grouping rule, the send loop over a
   batch's requests, HttpConnection poison/reconnect, reply interpretation and the batcher's
   retry loop, against every interleaving of the emitting thread with the worker and every
   collector behaviour (ack | reject | stall | drop before/after reading, bounded faults).
   Invariants AtLeastOnce, ExactlyOnceWhenClean, ResendSame, FreshConnAfterBreak, NoSilentLoss.
   The send loop as found (F7, DoublePop) must violate AtLeastOnce (Otlp_f7.cfg).
G: TLC prints one REPLAY scenario per faulty request transition of the canonical schedule
   (event sizes, limit, the collector's decision script, predicted requests).  Scenarios are
   crossed with transport configurations (HTTP/JSON, HTTP/protobuf, gRPC x gzip x signal
   subsets), combined into multi-signal scenarios, and run against a REAL emit_otlp emitter
   pointed at the scripted loopback collector (harness c12_export).
T: every recorded trace (Emit, Connect, Req(signal, conn, ids, decision), Flush) is decided by
   TLC against spec/OtlpTrace.tla (level A): AtLeastOnce, ExactlyOnceWhenClean, ResendSame,
   FreshConnAfterBreak, SignalsIndependent, well-formed requests, bounded-liveness
   FlushCompletes.  This is the oracle (request splitting depends on byte sizes and on when
   the worker takes a batch, which level B abstracts); a difference between the level-B
   prediction and an accepted trace is reported as MODEL-DRIFT only.
   Also decided by the monitor: the channel's own overflow (operation sequences of
   spec/OtlpChan.tla run against a collector that holds its answers; `accepted` excludes what
   COUNTED truncations dropped: Trunc events from queue_full_truncated) and transport
   configurations as such (Built(inert): an emitter whose build failed accepts nothing; one that
   was built owes delivery; JSON over gRPC, not a valid OTLP configuration, is recorded only).
"""
import json
import os
import random
import re

import vlib

SIGS = ["logs", "traces", "metrics"]
TRANSPORTS = [("http_proto", False), ("http_json", True), ("grpc", True),
              ("http_proto", True), ("http_json", False), ("grpc", False)]
HTTP_REJECTS = ["s500", "s503", "s400", "s429", "s404", "s301"]
GRPC_REJECTS = ["g14", "g8", "s503", "h14", "g13", "s502", "h8"]
UNIT = 8192
BIG_UNIT = 160 * 1024
PADS = ["rep", "rnd"]
LATE_STALLS = ("stallbody", "stalltrail", "rstbody")


def concretise(decs, proto, rnd):
    out = []
    for d in decs:
        if d == "reject":
            out.append(rnd.choice(GRPC_REJECTS if proto == "grpc" else HTTP_REJECTS))
        elif d == "stallbody":        # head sent, then nothing / a cut-short message
            out.append(rnd.choice(["sth", "stm"]))
        elif d == "stalltrail":       # head and message sent, no grpc-status trailer
            out.append("stt")
        elif d == "rstbody":          # head sent, then the stream is reset
            out.append("rsb")
        else:
            out.append(d)
    return out


def subsets_with(sigs, rnd):
    """A configured-signal set containing `sigs` (any superset, chosen by the seed)."""
    extra = [s for s in SIGS if s not in sigs and rnd.random() < 0.4]
    return [s for s in SIGS if s in sigs or s in extra]


def build_scenario(n, lines_by_sig, proto, gzip, rnd, unit=UNIT, pad="rep", signals=None, short_flush_ms=None):
    """lines_by_sig: {signal: REPLAY line}; events of the signals are interleaved round-robin."""
    # a reply that stalls after its head only fails a transport that reads beyond the head:
    # those scripts run over gRPC (HTTP/1 judges by the status line alone)
    if any(d in LATE_STALLS for ln in lines_by_sig.values() for d in ln["decs"]):
        proto = "grpc"
    limit = None
    streams = {}
    for sig, ln in lines_by_sig.items():
        limit = ln["limit"]
        streams[sig] = [{"sig": sig, "k": k + 1, "size": sz} for k, sz in enumerate(ln["sizes"])]
    events = []
    i = 0
    while any(streams.values()):
        sig = list(lines_by_sig)[i % len(lines_by_sig)]
        if streams[sig]:
            events.append(streams[sig].pop(0))
        i += 1
    # leading "refuse" decisions: the endpoint refuses connections until that many connects
    # failed (the client's connect-failure counter is shared, so one refusing signal at most)
    refuse = {}
    scripts = {}
    for s, ln in lines_by_sig.items():
        k = 0
        while k < len(ln["decs"]) and ln["decs"][k] == "refuse":
            k += 1
        if k and not refuse:
            refuse[s] = k
        scripts[s] = concretise(ln["decs"][k:], proto, rnd)
    # flushes in the middle of the stream: single-signal scenarios without refusal only
    nev = len(events)
    flush_after = [nev]
    if len(lines_by_sig) == 1 and not refuse:
        flush_after = sorted(next(iter(lines_by_sig.values())).get("flushAt", [nev]))
    sc = {
        "sc": n, "proto": proto, "gzip": gzip,
        "signals": signals or subsets_with(list(lines_by_sig), rnd),
        "flush_after": flush_after,
        "limit": limit, "unit": unit, "pad": pad, "events": events,
        # configuration forms (delivery, splitting and acknowledgement do not depend on them)
        "resource": n % 2 == 1, "headers": (n // 2) % 2 == 1, "entry": "builder" if (n // 4) % 2 else "new",
        "scripts": scripts,
        "predict": {s: [{"ids": r["ids"], "dec": r["dec"]} for r in ln["reqs"]]
                    for s, ln in lines_by_sig.items()
                    if not refuse and (len(lines_by_sig) == 1 or set(ln.get("flushAt", [])) <= {len(ln["sizes"])})},
        "model": {s: {"sizes": ln["sizes"], "limit": ln["limit"], "decs": ln["decs"],
                      "flushAt": flush_after if len(lines_by_sig) == 1 else [len(ln["sizes"])]}
                  for s, ln in lines_by_sig.items()},
    }
    if refuse:
        sc["refuse"] = refuse
    if short_flush_ms is not None:
        sc["short_flush_ms"] = short_flush_ms
    return sc


def make_scenarios(ctx, lines):
    rnd = random.Random(ctx.seed * 7919 + 12)
    clean = [ln for ln in lines if all(d == "ack" for d in ln["decs"])]
    faulty = [ln for ln in lines if not all(d == "ack" for d in ln["decs"])]
    rnd.shuffle(faulty)
    n_single = 150 if ctx.quick else 3500
    n_multi = 40 if ctx.quick else 800
    n_real = 12 if ctx.quick else 120
    n_big = 12 if ctx.quick else 120
    n_indep = 4 if ctx.quick else 30
    n_short = 8 if ctx.quick else 36
    chosen = clean + faulty[:max(0, n_single - len(clean))]
    out = []
    for i, ln in enumerate(chosen):
        proto, gzip = TRANSPORTS[i % len(TRANSPORTS)]
        sig = SIGS[(i // len(TRANSPORTS)) % 3]
        # payload content alternates per block of transports: repeated / pseudo-random text
        out.append(build_scenario(len(out), {sig: ln}, proto, gzip, rnd, pad=PADS[(i // len(TRANSPORTS)) % 2]))
    # several signals at once, each with its own script
    by_limit = {}
    for ln in lines:
        by_limit.setdefault(ln["limit"], []).append(ln)
    for i in range(n_multi):
        proto, gzip = TRANSPORTS[i % len(TRANSPORTS)]
        pool = by_limit[rnd.choice(sorted(by_limit))]
        k = 2 + (i % 2)
        sigs = rnd.sample(SIGS, k)
        out.append(build_scenario(len(out), {s: rnd.choice(pool) for s in sigs}, proto, gzip, rnd,
                                  pad=PADS[(i // len(TRANSPORTS)) % 2]))
    # the emitter's real 1 MiB limit: no size override, payloads of 1 MiB / limit per unit
    multi_req = [ln for ln in lines if len({tuple(r["ids"]) for r in ln["reqs"]}) >= 2 and ln["limit"] >= 2] or lines
    for i in range(n_real):
        proto, gzip = TRANSPORTS[i % len(TRANSPORTS)]
        out.append(build_scenario(len(out), {SIGS[i % 3]: rnd.choice(multi_req)}, proto, gzip, rnd, unit=0,
                                  pad=PADS[(i // len(TRANSPORTS)) % 2]))
    # events of a few hundred KiB of hardly compressible text (one chunk compresses to far more
    # than a deflate buffer), every transport with and without gzip
    for i in range(n_big):
        proto, gzip = TRANSPORTS[i % len(TRANSPORTS)]
        out.append(build_scenario(len(out), {SIGS[(i // 2) % 3]: rnd.choice(lines)}, proto, gzip, rnd,
                                  unit=BIG_UNIT, pad="rnd"))
    # Flush with a timeout (400 / 0 / 50 ms) far below an outage: an earlier signal (flushed first: logs,
    # then traces, then metrics) stalls three requests in a row (>= 3 x the request timeout), the
    # later configured signals are healthy or idle (no events at all).  The short flush may
    # return false; true is only right once everything emitted was acknowledged.
    for i in range(n_short):
        proto, gzip = TRANSPORTS[i % len(TRANSPORTS)]
        down = SIGS[i % 3]
        later = SIGS[SIGS.index(down) + 1:] or SIGS[:2]      # (metrics is flushed last: earlier ones)
        later = later if i % 3 == 0 else later[-1:] if i % 3 == 1 else later[:1]
        base = rnd.choice(clean)
        ls = {down: dict(base, decs=["stall"] * 3, reqs=[], flushAt=[len(base["sizes"])])}
        if (i // 2) % 2 == 0:                                # the later signals also carry events
            for s in later:
                ls[s] = dict(rnd.choice(by_limit[base["limit"]]), decs=[], reqs=[])
        out.append(build_scenario(len(out), ls, proto, gzip, rnd, signals=[s for s in SIGS if s == down or s in later],
                                  short_flush_ms=[400, 0, 50][i % 3]))
    # one signal's endpoint is down for a long time; the others must be delivered meanwhile
    for i in range(n_indep):
        proto, gzip = TRANSPORTS[i % len(TRANSPORTS)]
        down = SIGS[i % 3]
        others = [s for s in SIGS if s != down][: 1 + (i % 2)]
        ls = {down: dict(rnd.choice(clean), decs=["reject"] * 8, reqs=[])}
        for s in others:
            ls[s] = dict(rnd.choice(by_limit[ls[down]["limit"]]), decs=[], reqs=[])
        out.append(build_scenario(len(out), ls, proto, gzip, rnd))
    for i, sc in enumerate(out):
        sc["sc"] = i
    return out


OVERFLOW_REGIMES = ["default", "mid"]
FORMS = [("grpc_json", True), ("grpc_json", False), ("grpc_proto", True), ("malformed_url", False)]
# forms that are transport configurations the statement quantifies over (HTTP/JSON, HTTP/protobuf,
# gRPC framing = protobuf over gRPC): spawn either refuses them (inert emitter) or the delivery rules
# apply.  JSON over gRPC is not a valid OTLP configuration: what the emitter does with it is recorded
# (a don't-care for delivery); only a panic, a hang or a malformed request would be a violation
FORMS_IN_SCOPE = {"grpc_proto"}
DELIVERY_CLAUSES = {"AtLeastOnce", "ExactlyOnceWhenClean", "NoPendingRetry"}


def _extra_base(n, proto, gzip, signals):
    # (the keys the generic bookkeeping reads)
    return {"sc": n, "proto": proto, "gzip": gzip, "signals": signals, "limit": 1, "unit": 1, "pad": "rep",
            "events": [], "scripts": {}, "flush_after": [], "model": {}, "predict": {},
            "resource": n % 2 == 0, "headers": n % 3 == 0, "entry": "builder" if n % 2 else "new"}


def make_overflow(ctx, n0):
    """The OTLP channel's own overflow inside the delivery accounting: the overflowing operation
    sequences of spec/OtlpChan.tla (sends / takes against capacity K; one model send is a burst
    of 10 000 / K real events), run against a collector that holds its answers."""
    r = ctx.tlc("OtlpChan", "OtlpChan_quick.cfg" if ctx.quick else "OtlpChan_thorough.cfg", workers=1, timeout=600,
                xmx="2g", label="OtlpChan-c12", coverage=False)
    if r.violated:
        raise vlib.ToolError("OtlpChan.tla: %s (reported by C09)" % r.violated)
    seqs = {}
    for p in vlib.iter_printed(r.out_path, "REPLAY"):
        d = json.loads(p)
        if d["lost"]:
            seqs["".join("s" if o["op"] == "send" else "t" for o in d["ops"])] = d
    if not seqs:
        raise vlib.ToolError("OtlpChan: no operation sequence overflows the capacity")
    rnd = random.Random(ctx.seed * 53 + 5)
    keys = sorted(seqs)
    # with and without a take after the first truncation
    def take_after_truncation(d):
        first = next(i for i, o in enumerate(d["ops"]) if o["trunc"] > 0)
        return any(o["op"] == "take" for o in d["ops"][first + 1:])
    with_take = [k for k in keys if take_after_truncation(seqs[k])]
    pick = rnd.sample(keys, min(len(keys), 3 if ctx.quick else 24))
    if with_take and not any(k in with_take for k in pick):
        pick[-1] = rnd.choice(with_take)
    out = []
    for i, k in enumerate(pick):
        for j, reg in enumerate(OVERFLOW_REGIMES if not ctx.quick or i == 0 else [OVERFLOW_REGIMES[i % 2]]):
            proto, gzip = TRANSPORTS[(i + j) % len(TRANSPORTS)]
            sig = SIGS[(i + j) % 3]
            sc = _extra_base(n0 + len(out), proto, gzip, subsets_with([sig], rnd))
            sc["overflow"] = {"sig": sig, "cap": seqs[k]["cap"], "regime": reg, "seq": k,
                              "ops": [o["op"] for o in seqs[k]["ops"]]}
            out.append(sc)
    return out


def make_forms(n0):
    out = []
    for i, (form, gzip) in enumerate(FORMS):
        sc = _extra_base(n0 + i, "grpc" if form != "malformed_url" else "http_proto", gzip, [SIGS[i % 3]])
        sc.update({"form": form, "nevents": 3, "resource": False, "headers": False})
        out.append(sc)
    return out


def split_trace(path):
    segs = {}
    cur = None
    with open(path) as f:
        for line in f:
            e = json.loads(line)
            if e["ev"] == "Reset":
                cur = e["sc"]
                segs[cur] = []
            segs[cur].append(e)
    return segs


def conf_segments(scenarios, segs):
    """One level-B conformance line per (scenario, signal): the recorded requests with the
    specification's event numbers and whether each travelled on the previous connection."""
    out = []
    for sc in scenarios:
        seg = segs.get(sc["sc"], [])
        for sig, model in sc.get("model", {}).items():
            vid2k = {vid: e["k"] for vid, e in enumerate(sc["events"]) if e["sig"] == sig}
            prev = None
            reqs = []
            for e in seg:
                if e["ev"] == "Req" and e["ep"] == sig:
                    reqs.append({"known": e["known"], "ids": [vid2k.get(i, 0) for i in e["ids"]],
                                 "dec": e["dec"], "reuse": prev is not None and prev == e["conn"]})
                    prev = e["conn"]
            out.append({"sc": sc["sc"], "sig": sig, "sizes": model["sizes"], "limit": model["limit"],
                        "flushAt": model["flushAt"],
                        "refused": sc.get("refuse", {}).get(sig, 0), "reqs": reqs})
    return out


def verdicts_of(r):
    v = list(vlib.iter_printed(r.out_path, "VERDICTS"))
    if r.violated or not v:
        raise vlib.ToolError("trace validation did not complete (%s): %s\n%s" % (
            r.violated, r.out_path, vlib.tail_of(r.out_path, 15)))
    return json.loads(v[0])


def run(ctx):
    cfg = "Otlp_quick.cfg" if ctx.quick else "Otlp_thorough.cfg"
    # one worker: the BFS order, hence the set of printed scenarios, is deterministic
    r = ctx.tlc("Otlp", cfg, workers=1, timeout=1500, xmx="6g")
    if r.violated:
        ctx.spec_violation(r, "Otlp.tla: %s violated by the transcription of the export path" % r.violated)
        return
    ctx.require_actions(r, ["HEmit", "HFlush", "HReturn", "WTake", "WTakeEmpty", "WSend", "WBackoff"], "Otlp")
    # the catalogued design counterexample: the send loop as found must lose requests
    rf = ctx.tlc("Otlp", "Otlp_f7.cfg", workers=2, timeout=300, xmx="2g", coverage=False,
                 expect_violation=True, count=False)
    if rf.violated != "AtLeastOnce":
        raise vlib.ToolError("Otlp_f7.cfg: the double pop no longer violates AtLeastOnce (%s)" % rf.violated)
    ctx.cov["spec_mutation_f7_detected"] = True
    # bounded faults: the flush completes (liveness, no VIEW / REPLAY)
    rl = ctx.tlc("Otlp", "Otlp_live.cfg", workers=4, timeout=900, xmx="4g", coverage=False)
    if rl.violated:
        ctx.spec_violation(rl, "Otlp.tla: FlushCompletes violated (%s)" % rl.violated)
        return

    lines_path = os.path.join(ctx.out, "replay.ndjson")
    n = vlib.extract_printed(r.out_path, "REPLAY", lines_path)
    if n == 0:
        raise vlib.ToolError("TLC printed no scenarios")
    lines = vlib.read_ndjson(lines_path)
    rc = ctx.replay_case()
    if rc is not None:
        scenarios = [dict(rc["scenario"], sc=0)]
    else:
        scenarios = make_scenarios(ctx, lines)
        scenarios += make_forms(len(scenarios))
        scenarios += make_overflow(ctx, len(scenarios))
    bindir = ctx.cargo_build("vh_otlp", bins=["c12_export", "c12_config"])

    # Configurations the statement is silent about (malformed / scheme-less URLs, JSON over
    # gRPC, https without TLS support): exploration - only a panic on the calling thread or a
    # call that does not return is a violation; what the emitter does is recorded.
    if rc is None:
        cfg_rep = os.path.join(ctx.out, "config-forms.json")
        ctx.run_harness(os.path.join(bindir, "c12_config"), [cfg_rep], timeout=300)
        cr = json.load(open(cfg_rep))
        ctx.cov["config_forms"] = cr["extra"].get("observations")
        for o in cr["extra"].get("observations", []):
            m = o.get("metrics", {})
            if any(k.endswith("queue_batch_panicked") for k in m):
                ctx.cov.setdefault("config_form_notes", []).append(
                    "configuration form '%s' is accepted by spawn (configuration_failed = %s) but every batch "
                    "panics on the worker; events dropped, flush = %s" % (o["form"], m.get("configuration_failed", 0), o.get("flush")))
        for m in cr["mismatches"]:
            ctx.violation("C12 %s: %s" % (m["what"], json.dumps(m["case"])), {"config_form": m["case"], "detail": m["detail"]},
                          signature="C12 config-form %s" % m["case"].get("form"))

    def run_pass(scens, tag, threads, env=None):
        sc_path = os.path.join(ctx.out, "scenarios%s.ndjson" % tag)
        with open(sc_path, "w") as f:
            for sc in scens:
                f.write(json.dumps(sc) + "\n")
        tr = os.path.join(ctx.out, "trace%s.ndjson" % tag)
        rp = os.path.join(ctx.out, "report%s.json" % tag)
        ctx.run_harness(os.path.join(bindir, "c12_export"), [sc_path, tr, rp, threads], timeout=2400, env=env)
        return split_trace(tr), json.load(open(rp))["summaries"]

    all_scenarios = scenarios
    timed = [sc for sc in all_scenarios if "overflow" not in sc]
    held = [sc for sc in all_scenarios if "overflow" in sc]
    segs, sums = run_pass(timed, "", 32) if timed else ({}, [])
    summ = {sc["sc"]: sm for sc, sm in zip(timed, sums)}
    if held:
        # the collector holds its answers for as long as the bursts take: no client timeout
        segs_h, sums_h = run_pass(held, "-overflow", 6, env={"VH_REQUEST_TIMEOUT_MS": "300000", "VH_FLUSH_TIMEOUT_S": "90"})
        segs.update(segs_h)
        summ.update({sc["sc"]: sm for sc, sm in zip(held, sums_h)})
    # Timing guard.  The request timeout is shortened to about a second; when the machine is so
    # loaded that the client times out on requests the collector did not stall (more client
    # timeouts than scripted stalls, or requests whose connection the client had already closed
    # when the collector got to them), the collector's log no longer shows the client's requests
    # in order and the retry budget can run out: such a run says nothing about the property.
    # It is run again with little parallelism; if it is slow again it is left undecided.
    def slow(sm):
        return sm["client_timeouts"] > sm["stalls"] or sm["abandoned"] > 0
    again = [sc for sc in all_scenarios if slow(summ[sc["sc"]]) and "overflow" not in sc]
    ctx.cov["rerun_for_timing"] = len(again)
    if again:
        segs2, sums2 = run_pass(again, "-again", 4)
        for sc, sm in zip(again, sums2):
            segs[sc["sc"]] = segs2.get(sc["sc"], [])
            summ[sc["sc"]] = sm
    undecided = [sc["sc"] for sc in all_scenarios if slow(summ[sc["sc"]])]
    ctx.cov["undecided_for_timing"] = len(undecided)
    if undecided:
        vlib.log("[c12] %d scenario(s) left undecided: the machine was too slow for the request timeout" % len(undecided))
    if len(undecided) > max(3, len(all_scenarios) // 50):
        raise vlib.ToolError("the machine is too loaded for the shortened request timeout: %d of %d scenarios "
                             "saw client timeouts the collector did not script (set VH_REQUEST_TIMEOUT_MS higher)"
                             % (len(undecided), len(all_scenarios)))
    scenarios = [sc for sc in all_scenarios if sc["sc"] not in undecided]
    by_id = {sc["sc"]: sc for sc in all_scenarios}
    rep = {"summaries": [summ[sc["sc"]] for sc in scenarios]}
    trace = os.path.join(ctx.out, "trace-decided.ndjson")
    nev = 0
    with open(trace, "w") as f:
        for sc in scenarios:
            for e in segs.get(sc["sc"], []):
                f.write(json.dumps(e) + "\n")
                nev += 1

    tv = ctx.validate_trace("OtlpTrace", "OtlpTrace.cfg", trace, timeout=1200, label="tv-trace")
    verdicts = verdicts_of(tv)
    ctx.cov["traces_validated_against_impl"] += len(scenarios)
    ctx.cov["trace_events"] = nev

    # what the real executions exercised (vacuity guards)
    st = {"multi_request_batches": 0, "clean_flushes": 0, "faulty": 0, "real_limit_runs": 0,
          "max_request_bytes": 0, "flush_failed": 0, "client_side_failures": 0, "drift": 0,
          "decisions": {}, "resends": 0, "reconnects": 0, "large_gzip_requests": 0, "random_payload_runs": 0,
          "short_flushes_timed_out": 0, "late_stalls": 0}
    for sc, sm in zip(scenarios, rep["summaries"]):
        seg = segs.get(sc["sc"], [])
        reqs = [e for e in seg if e["ev"] == "Req"]
        for e in reqs:
            st["decisions"][e["raw"]] = st["decisions"].get(e["raw"], 0) + 1
        per_ep = {}
        for e in reqs:
            if e["ack"]:
                per_ep.setdefault(e["ep"], set()).add(tuple(e["ids"]))
        if any(len(v) >= 2 for v in per_ep.values()):
            st["multi_request_batches"] += 1
        if all(e["ack"] for e in reqs) and sm["clientfails"] == 0 and sm["flush"]:
            st["clean_flushes"] += 1
        if any(not e["ack"] for e in reqs):
            st["faulty"] += 1
        st["resends"] += sum(1 for a, b in zip(reqs, reqs[1:]) if not a["ack"] and a["known"] and b["ids"] == a["ids"])
        st["reconnects"] += max(0, sum(1 for e in seg if e["ev"] == "Connect") - len({e["ep"] for e in reqs}))
        if sm.get("overflow"):
            ov = st.setdefault("overflow", {"runs": 0, "truncations": 0, "events": 0, "flushed": 0, "with_take_after_truncation": 0})
            ov["runs"] += 1
            ov["truncations"] += sm["overflow"]["truncations"]
            ov["events"] += sm["overflow"]["emitted"]
            ov["flushed"] += 1 if sm["flush"] and sm["overflow"]["truncations"] else 0
            tr_at = [i for i, e in enumerate(seg) if e["ev"] == "Trunc"]
            fl_at = [i for i, e in enumerate(seg) if e["ev"] == "Flush"]
            ov["with_take_after_truncation"] += 1 if tr_at and any(tr_at[0] < f < len(seg) - 1 for f in fl_at) else 0
        if sm.get("form"):
            st.setdefault("forms", []).append(dict(sm["form"], gzip=sc["gzip"], flush=sm["flush"], clientfails=sm["clientfails"]))
        if sc["unit"] == 0:
            st["real_limit_runs"] += 1
        if sc.get("pad") == "rnd":
            st["random_payload_runs"] += 1
        st["late_stalls"] += sum(1 for e in reqs if e["dec"] in LATE_STALLS)
        st["short_flushes_timed_out"] += sum(1 for e in seg if e["ev"] == "Flush" and e.get("short") and not e["ok"])
        # gzip bodies that stay large on the wire (hardly compressible payload)
        st["large_gzip_requests"] += sum(1 for e in reqs if e["ack"] and e.get("gz") and e.get("bytes", 0) > 64 * 1024)
        st["max_request_bytes"] = max(st["max_request_bytes"], sm["max_request_bytes"])
        st["flush_failed"] += 0 if sm["flush"] else 1
        st["client_side_failures"] += sm["clientfails"]
        if sm["drift"]:
            st["drift"] += 1
        if sm["panics"]:
            ctx.violation("C12 panic in the emitter: %s" % sm["panics"][:2],
                          {"scenario": sc, "trace": seg}, signature="C12 panic")
    st["canonical_schedule_runs"] = len(scenarios) - st.pop("drift")
    ctx.cov["impl_stats"] = st
    ctx.cov["drift"] = []

    # strict conformance at level B: every recorded request sequence must be a behaviour of
    # Otlp.tla for some interleaving of the emitting thread and the worker
    cs = conf_segments(scenarios, segs)
    cpath = os.path.join(ctx.out, "conf.ndjson")
    with open(cpath, "w") as f:
        for c in cs:
            f.write(json.dumps(c) + "\n")
    rcf = ctx.tlc("OtlpConf", "OtlpConf_quick.cfg" if ctx.quick else "OtlpConf_thorough.cfg",
                  workers=4 if ctx.quick else 8, timeout=1500, xmx="6g", env={"TRACE": cpath},
                  coverage=False, label="conf")
    if rcf.violated:
        raise vlib.ToolError("OtlpConf: %s violated while matching recorded requests: %s" % (rcf.violated, rcf.out_path))
    conforms = set()
    with open(rcf.out_path, errors="replace") as f:
        for line in f:
            m = re.match(r'^<<"CONFORMS", (\d+), "(\w+)">>', line)
            if m:
                conforms.add((int(m.group(1)), m.group(2)))
    drift = [c for c in cs if (c["sc"], c["sig"]) not in conforms]
    ctx.cov["level_b_conformance"] = {"segments": len(cs), "conform": len(cs) - len(drift)}
    for c in drift[:5]:
        ctx.cov["drift"].append(c)
    if drift:
        vlib.log("MODEL-DRIFT: %d of %d recorded request sequences are accepted at level A but are not "
                 "behaviours of Otlp.tla (first: %s)" % (len(drift), len(cs), json.dumps(drift[0])[:400]))
    # monitor sensitivity: drop one acknowledged request from an accepted trace -> AtLeastOnce
    if rc is None:
        bad_sc = {v["sc"] for v in verdicts["first"]}
        victim = next((s for s in scenarios if s["sc"] not in bad_sc and
                       any(e["ev"] == "Req" and e["ack"] for e in segs.get(s["sc"], []))), None)
        if victim is not None:
            seg = list(segs[victim["sc"]])
            idx = max(i for i, e in enumerate(seg) if e["ev"] == "Req" and e["ack"])
            del seg[idx]
            mp = os.path.join(ctx.out, "trace-corrupted.ndjson")
            with open(mp, "w") as f:
                for e in seg:
                    f.write(json.dumps(e) + "\n")
            tm = ctx.validate_trace("OtlpTrace", "OtlpTrace.cfg", mp, timeout=300, label="tv-corrupted")
            vm = verdicts_of(tm)
            if not any(v["clause"] == "AtLeastOnce" for v in vm["first"]):
                raise vlib.ToolError("monitor insensitive: dropping an acknowledged request was accepted")
            ctx.cov["monitor_selftest"] = "dropped ack rejected by AtLeastOnce"

    by_sc = {}
    for v in verdicts["first"]:
        by_sc.setdefault(v["sc"], []).append(v["clause"])
    ctx.cov["rejected_traces"] = len(by_sc)
    for scn, clauses in sorted(by_sc.items()):
        sc = by_id[scn]
        raws = sorted({e["raw"] for e in segs.get(scn, []) if e["ev"] == "Req"})
        cl = ",".join(sorted(set(clauses)))
        if "form" in sc:
            fm = summ[scn].get("form", {})
            what = ("C12 transport configuration %s%s: spawn accepted it (configuration_failed = 0), the emitter accepted %d events, "
                    "%d requests reached the collector (which acknowledges everything), %d batch attempts failed in the client, flush "
                    "returned %s: %s" % (sc["form"], "+gzip" if sc["gzip"] else "", sc["nevents"], fm.get("requests", 0),
                                          summ[scn]["clientfails"], summ[scn]["flush"], cl))
            judged = set(clauses) if sc["form"] in FORMS_IN_SCOPE else set(clauses) - DELIVERY_CLAUSES
            if judged:
                ctx.violation(what, {"scenario": sc, "clauses": clauses, "trace": segs.get(scn, [])},
                              signature="C12 config-form %s %s" % (sc["form"], ",".join(sorted(judged))))
            else:
                ctx.cov.setdefault("config_form_notes", []).append(what + " (not a configuration the statement covers: recorded only)")
            continue
        if "overflow" in sc:
            ov = sc["overflow"]
            ctx.violation("C12 with the channel's own overflow (signal %s, %s%s, operations %s, request-size regime %s): %s - an accepted "
                          "event that no counted truncation accounts for is in no acknowledged request (or a truncation dropped more "
                          "than the capacity)" % (ov["sig"], sc["proto"], "+gzip" if sc["gzip"] else "", ov["seq"], ov["regime"], cl),
                          {"scenario": sc, "clauses": clauses, "summary": summ[scn],
                           "trace": [e if e["ev"] != "Req" else dict(e, ids=len(e["ids"])) for e in segs.get(scn, [])]},
                          signature="C12 overflow %s sig=%s regime=%s" % (cl, ov["sig"], ov["regime"]))
            continue
        sig = "C12 %s proto=%s decisions=%s" % (cl, sc["proto"], ",".join(raws))
        ctx.violation("C12 trace rejected by OtlpTrace.tla: %s (scenario %d, %s%s, signals %s, scripts %s)" % (
            sorted(set(clauses)), scn, sc["proto"], "+gzip" if sc["gzip"] else "", sc["signals"], sc["scripts"]),
            {"scenario": sc, "clauses": clauses, "trace": segs.get(scn, [])}, signature=sig)

    # vacuity guards (only meaningful when every trace was accepted)
    if rc is None and not ctx.violations:
        for k in ("multi_request_batches", "clean_flushes", "faulty", "real_limit_runs", "resends", "reconnects",
                  "large_gzip_requests", "random_payload_runs", "short_flushes_timed_out", "late_stalls"):
            if not st[k]:
                raise vlib.ToolError("vacuity: no real execution with %s" % k)
        if st["max_request_bytes"] < 1024 * 1024:
            raise vlib.ToolError("vacuity: no request above 1 MiB was sent with the real limit")
        ov = st.get("overflow", {})
        if not (ov.get("truncations") and ov.get("flushed") and ov.get("with_take_after_truncation")):
            raise vlib.ToolError("vacuity: no overflow run with a counted truncation, a successful flush and a take after it: %s" % ov)
        fm = {f["form"]: f for f in st.get("forms", [])}
        if not (fm.get("malformed_url", {}).get("inert") and fm.get("grpc_proto", {}).get("requests")):
            raise vlib.ToolError("vacuity: the configuration-form controls (inert / delivered) did not behave: %s" % fm)

    for i in (0, len(scenarios) // 2, len(scenarios) - 1):
        s = dict(scenarios[i])
        s.pop("predict", None)
        ctx.sample(s)
    ctx.assumptions += [
        "level B models one signal; several signals are composed only in the real runs and judged by the level-A monitor (SignalsIndependent is not model-checked, it is structural in the design: one receiver future per signal)",
        "sizes are abstract units; the real grouping is judged by trace validation, the level-B prediction only softly (MODEL-DRIFT)",
        "verification hooks: emit_otlp::verif (per-thread request size limit, request timeout %s ms) and emit_batcher::verif::set_delay_scale (back-off scaled by 1/20); a subset of scenarios runs with the real 1 MiB limit and > 1 MiB payloads" % os.environ.get("VH_REQUEST_TIMEOUT_MS", "1200"),
        "FlushCompletes and SignalsIndependent (StreakK consecutive failures) are bounded-liveness readings that rely on wall-clock margins (flush timeout 30 s vs < 2 s of scaled back-off)",
        "the collector is the harness's own (HTTP/1 hand-rolled, gRPC over the h2 crate); ids are read from the decoded protobuf/JSON bodies (prost types generated by the repository, serde_json)",
        "retry budget exhaustion (10 retries) is outside the scenarios; level B checks it only as gaveUp",
        "overflow runs: the operation sequences come from spec/OtlpChan.tla (capacity 4; one model send = 2 500 real events against the emitter's 10 000); the worker is parked by a collector that reads requests but holds its answers (request timeout 300 s); queue_full_truncated is sampled after every 500 events, so an event emitted in the same 500 after a truncation counts as possibly dropped by it (bounded by capacity x count)",
        "configuration forms: the monitor decides every form (Built(inert): an emitter whose build failed accepts nothing); for JSON over gRPC (not a valid OTLP configuration) the delivery clauses are a don't-care - what happens is recorded in coverage.config_form_notes (accepted by spawn, every batch fails in the client with 'unsupported content type', nothing reaches the collector, flush true) and only a panic, a hang or a malformed request would be a violation; malformed / scheme-less URLs and https without TLS support stay recorded observations (coverage.config_forms)",
        "bounded: %s" % vlib.cfg_header(os.path.join(vlib.SPEC, cfg)),
    ]
