"""C02 - property lookup always agrees with enumeration: the first value for a key wins.

M: TLC checks, for every collection tree / macro call site within the bound, that the
   transcription of the real for_each / get / is_unique / dedup implementations (level B)
   agrees with the statement (level A): GetIsFirst, DedupOnceFirst, UniqueClaimSound,
   BreakStops, EnumIsSpec (spec/Props.tla).  The transcription of the macro lookup *as
   found* (binary search only) is run as well and must violate GetIsFirst (F1 at design
   level; guards the sensitivity of the specification).
G: every collection is printed with the statement's prediction and
   * interpreted into the real types by harness/vh_core/src/bin/c02_props.rs (type-erased
     nesting of any depth + ~1000 stamped statically typed shapes), once per key storage
     form (KeyForms of Props.tla), and
   * for macro call sites turned into a generated Rust program of real props!/evt!/emit!
     call sites (lib/gen_c02_sites.py -> harness/vh_core/src/gen/), compiled and run.
"""
import json
import os

import gen_c02_sites
import vlib


def textualize(obj, keys):
    """Keys are indices into the `keys` table in TLC's output (non-ASCII strings do not
    survive TLC's on-disk state queue); put the texts back."""
    if isinstance(obj, dict):
        out = {}
        for f, v in obj.items():
            if f in ("k", "key") and isinstance(v, int):
                out[f] = keys[v - 1]
            else:
                out[f] = textualize(v, keys)
        return out
    if isinstance(obj, list):
        return [textualize(x, keys) for x in obj]
    return obj


def extract_cases(tlc_out, dest):
    """REPLAY lines -> textual, sorted (deterministic order whatever the worker
    interleaving was) ndjson."""
    lines = []
    for p in vlib.iter_printed(tlc_out, "REPLAY"):
        c = json.loads(p)
        keys = c.pop("keys")
        enc = [k.encode("utf-8") for k in keys]
        if enc != sorted(enc) or len(set(enc)) != len(enc):
            raise vlib.ToolError("KeyOrder is not in byte order: %r" % (keys,))
        lines.append(json.dumps(textualize(c, keys), ensure_ascii=False, sort_keys=True))
    lines = sorted(set(lines))
    with open(dest, "w", encoding="utf-8") as f:
        for l in lines:
            f.write(l + "\n")
    return len(lines)


def merge_reports(reps):
    """Reports of the shards of one case file -> one report."""
    out = {"cases": 0, "checks": 0, "total_mismatches": 0, "mismatches": [], "extra": {}}
    for r in reps:
        out["cases"] += r["cases"]
        out["checks"] += r["checks"]
        out["total_mismatches"] += r.get("total_mismatches", len(r["mismatches"]))
        out["mismatches"] += r["mismatches"]
        for k, v in r["extra"].items():
            cur = out["extra"].get(k)
            if isinstance(v, dict):
                cur = cur or {}
                for kk, vv in v.items():
                    cur[kk] = cur.get(kk, 0) + vv
                out["extra"][k] = cur
            elif isinstance(v, list):
                out["extra"][k] = (cur or []) + v
            elif k == "static_shapes":
                out["extra"][k] = v
            else:
                out["extra"][k] = (cur or 0) + v
    return out


INVS = "GetIsFirst DedupOnceFirst UniqueClaimSound BreakStops EnumIsSpec"


def run(ctx):
    tier = "quick" if ctx.quick else "thorough"
    workers = 6 if ctx.quick else 10
    # ---- M: the specification
    runs = [("trees", "Props_%s.cfg" % tier, None)]
    if not ctx.quick:
        runs.append(("grow", "PropsGrow_thorough.cfg", 300))     # per worker
    runs.append(("views", "PropsViews.cfg", None))
    runs.append(("big", "PropsBig.cfg", None))
    runs.append(("sites", "PropsSites_%s.cfg" % tier, None))
    outs = {}

    def one(run):
        label, cfg, sim = run
        return label, cfg, sim, ctx.tlc("MCProps", cfg, workers=4, timeout=3000, xmx="6g",
                                        simulate=sim, depth=9 if sim else None, coverage=not sim,
                                        xss="256m" if label == "big" else None)

    # the runs are independent: side by side (4 workers each)
    from concurrent.futures import ThreadPoolExecutor
    with ThreadPoolExecutor(max_workers=len(runs)) as ex:
        results = list(ex.map(one, runs))
    for label, cfg, sim, r in results:
        if r.violated:
            ctx.spec_violation(r, "Props.tla (%s): %s violated by the transcription of the code"
                               % (cfg, r.violated))
            return
        if not sim:
            ctx.require_actions(r, ["Check"], cfg)
        outs[label] = r.out_path
    # the lookup as found must fail at design level (F1) - otherwise the specification
    # would not be able to see the defect class at all
    r = ctx.tlc("MCProps", "PropsSites_f1.cfg", workers=2, timeout=600, xmx="2g",
                expect_violation=True, count=False, coverage=False)
    if r.violated != "GetIsFirst":
        raise vlib.ToolError("PropsSites_f1.cfg: expected GetIsFirst to be violated by the "
                             "binary-search-only macro lookup, got %r" % (r.violated,))
    ctx.cov["design_level"] = ("macro lookup as found (binary search over the identifier-sorted "
                               "array) violates GetIsFirst in TLC; the repaired lookup (fall back "
                               "to a scan) satisfies it")

    # ---- G: cases
    trees = os.path.join(ctx.out, "cases-trees.ndjson")
    n_trees = extract_cases(outs["trees"], trees)
    for extra in ("views", "big", "grow"):
        if extra in outs:
            more = os.path.join(ctx.out, "cases-%s.ndjson" % extra)
            n_more = extract_cases(outs[extra], more)
            if n_more == 0:
                raise vlib.ToolError("TLC printed no %s cases" % extra)
            with open(trees, "a", encoding="utf-8") as f, open(more, encoding="utf-8") as g:
                for l in g:
                    f.write(l)
            n_trees += n_more
            ctx.cov["cases_%s" % extra] = n_more
    sites = os.path.join(ctx.out, "cases-sites.ndjson")
    n_sites = extract_cases(outs["sites"], sites)
    if n_trees == 0 or n_sites == 0:
        raise vlib.ToolError("TLC printed no cases")
    gen = os.path.join(vlib.HARNESS, "vh_core", "src", "gen", "c02_sites_%s.rs" % tier)
    gen_c02_sites.generate(sites, gen, tier)
    sites_bin = "c02_sites_%s" % tier

    only_site = None
    rc = ctx.replay_case()
    if rc is not None:
        case = rc["case"]
        if case["tree"].get("op") == "macro":
            with open(sites, encoding="utf-8") as f:
                idx = [i for i, l in enumerate(f) if json.loads(l)["tree"] == case["tree"]]
            if not idx:
                raise vlib.ToolError("the replayed call site is not among the generated sites of this tier")
            only_site = idx[0]
            n_trees = 0
        else:
            with open(trees, "w", encoding="utf-8") as f:
                f.write(json.dumps(case, ensure_ascii=False) + "\n")
            n_trees, n_sites = 1, 0

    bindir = ctx.cargo_build("vh_core", bins=["c02_props", sites_bin])
    reports = []
    if n_trees:
        # every collection is replayed under six key storage forms: four processes side by side
        # (round-robin shards; the large collections are spread evenly)
        nsh = 4 if n_trees >= 64 else 1
        with open(trees, encoding="utf-8") as f:
            lines = f.readlines()
        shards = []
        for i in range(nsh):
            sp = os.path.join(ctx.out, "cases-trees.%d.ndjson" % i)
            with open(sp, "w", encoding="utf-8") as g:
                g.writelines(lines[i::nsh])
            shards.append((sp, os.path.join(ctx.out, "report-trees.%d.json" % i)))
        with ThreadPoolExecutor(max_workers=nsh) as ex:
            list(ex.map(lambda a: ctx.run_harness(os.path.join(bindir, "c02_props"), [a[0], a[1]]), shards))
        reports.append(("trees", merge_reports([json.load(open(rp)) for _, rp in shards])))
    if n_sites:
        rp = os.path.join(ctx.out, "report-sites.json")
        args = [sites, rp] + ([only_site] if only_site is not None else [])
        ctx.run_harness(os.path.join(bindir, sites_bin), args)
        reports.append(("sites", json.load(open(rp))))

    ctx.cov["impl_checks"] = 0
    for label, rep in reports:
        # a tree is observed through up to two construction paths, a call site through
        # three macros x three views
        ctx.cov["traces_validated_against_impl"] += rep["cases"]
        ctx.cov["impl_checks"] += rep["checks"]
        for k in ("static_cases", "static_shapes", "ops_seen", "cases_of_another_ctxt_resolution", "key_forms_seen"):
            if k in rep["extra"]:
                ctx.cov[k] = rep["extra"][k]
        for d in rep["extra"].get("drift", []):
            vlib.log("MODEL-DRIFT C02 (%s): %s" % (label, json.dumps(d, ensure_ascii=False)[:300]))
            ctx.cov["drift"].append(d)
        for m in rep["mismatches"]:
            first = (m["detail"].get("failures") or [{}])[0] if isinstance(m["detail"], dict) else {}
            sig = "%s:%s" % (label, m["what"])
            ctx.violation("C02 %s: %s %s" % (m["what"], json.dumps(m["case"]["tree"], ensure_ascii=False)[:400],
                                               json.dumps(first, ensure_ascii=False)[:300]),
                          m, signature=sig)
    if rc is None:
        ops = ctx.cov.get("ops_seen", {})
        missing = [o for o in ("and", "opt", "none", "ref", "box", "arc", "erased", "dedup", "asmap",
                               "pair", "arr2", "slice", "btree", "hash", "empty", "ctxt", "extent", "spanctxt", "span", "metric",
                               "span_with", "metric_with", "extentsrc",
                               # the extent by its source: every ToExtent impl / carrier, every combination of bounds
                               "extent:ts:-x", "extent:range_ts:xx", "extent:optrange:xx", "extent:optrange:x-",
                               "extent:optrange:-x", "extent:optrange:--", "extent:opt:xx", "extent:ref:xx",
                               "extent:span:xx", "extent:span_with:xx", "extent:metric:xx", "extent:metric_with:xx",
                               "extent:event:xx", "extent:event_with:xx")
                   if not ops.get(o)]
        if missing:
            raise vlib.ToolError("vacuity: node kinds never built: %s" % missing)
        forms = ctx.cov.get("key_forms_seen", {})
        missing = [f for f in ("Literal", "StringKey", "SharedBuf", "StrRef", "StrOwned", "StrShared") if not forms.get(f)]
        if missing:
            raise vlib.ToolError("vacuity: key storage forms never used: %s" % missing)
    with open(trees, encoding="utf-8") as f:
        lines = f.readlines()
    if lines:
        ctx.sample(json.loads(lines[len(lines) // 3]))
        ctx.sample(json.loads(lines[-1]))
    with open(sites, encoding="utf-8") as f:
        lines = f.readlines()
    if lines:
        ctx.sample(json.loads(lines[len(lines) // 2]))
    ctx.assumptions += [
        "values are distinct integers (which duplicate was returned is always observable); value typing is C19's subject",
        "keys are compared by text; every collection is replayed under each key storage form of Props.tla (KeyForms: an allocation per "
        "key, owned Strings, slices of one shared buffer in which a key that is a prefix of another shares its start address and the "
        "empty key is the zero-length slice at offset 0, Str::new_ref over that buffer, Str::new_owned, Str::new_shared; lookup keys "
        "separate, from the same buffer, and - under every form, macro call sites included - every proper prefix cut from the front of "
        "each key enumeration hands out); the statically typed shapes use the two `&'static str` forms",
        "the order inside a HashMap, a de-duplicated collection and a macro-built collection is unspecified (any permutation accepted); "
        "lookup must agree with the enumeration actually observed",
        "std's BTreeMap/HashMap lookup and iteration are trusted; the transcription of core::slice::binary_search_by is only used for "
        "the design-level F1 demonstration (the repaired lookup does not depend on it)",
        "macro call sites: emit!/evt! with exactly one #[cfg]-gated key-value and template holes naming a raw identifier do not compile "
        "on the pinned tree; those forms are exercised through props! only / without the hole",
        "views: Extent, SpanCtxt, the property views of Span and Metric events (`to_event().props()`, user properties may repeat the "
        "well-known keys) and ThreadLocalCtxt snapshots (1 frame, 2-3 nested frames with overlapping keys) are modelled; which frame's "
        "value a snapshot keeps for a repeated key is C03's subject: every resolution is enumerated and the one the real snapshot shows "
        "is judged (get/enumeration agreement, dedup, unique claim)",
        "map views are also read through serde::Serialize (serde_json), sval::Value (sval_json), Display and Debug; each must yield "
        "the pairs for_each yields, in that order (Display / Debug: the keys), for p.as_map() and p.dedup().as_map() (every key once, "
        "first value)",
        "the Extent view is also built from every ToExtent source (Timestamp, Range<Timestamp>, Range<Option<Timestamp>> with every "
        "combination of bounds, Option / & of an Extent) and from what Span / Metric / Event carriers hand out (new / with_extent); "
        "which extent a half-open Range<Option<Timestamp>> converts to is X02's subject: `nothing` and `the given bound as a point` "
        "are both enumerated and the one the real conversion shows is judged; Extent::len is X02's subject",
        "large collections (PropsBig.cfg: 21..200 properties, duplicate-key patterns) are a chosen family, not a product with the "
        "other node kinds",
        "bounded: %s | %s" % (vlib.cfg_header(os.path.join(vlib.SPEC, "Props_%s.cfg" % tier)),
                              vlib.cfg_header(os.path.join(vlib.SPEC, "PropsSites_%s.cfg" % tier))),
    ]
