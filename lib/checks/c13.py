"""C13 - every sink encodes every event faithfully and never panics the caller.

Claim level: exploration.  The specification (spec/Encode.tla) carries the RECORD MAPPING
(which property goes to which field / attribute of each sink's record, once, first value,
unique keys, which abstract image every value shape has in JSON / OTLP AnyValue); the byte
level is decided by the decoders (serde_json + a strict duplicate-preserving JSON reader,
prost with the types generated from the official OTLP schema) and concrete fidelity by a
seeded value pool.

M: TLC enumerates every abstract event within the bounds as an initial state, runs the
   level-B transcription of the code's pipeline (Dedup, Lift, Attr) and checks it against
   the statement: AttrKeysUnique, EveryPropOnce, FirstWins, WellKnownLifted, Total, Refines.
   Three small configurations re-run the transcription of the code *as found* (without the
   repairs of F8 / F9, without the F17 carve-out): TLC must report the invariant (keeps the
   model honest, and is how F17 is reported at design level).
G: one REPLAY line per abstract event with the predicted abstract records; the harness
   (harness/vh_enc/src/bin/c13_encode.rs) instantiates the shapes from the pool, emits the
   real event through emit_file (default writer, real files), emit_otlp (logs / traces /
   metrics, protobuf and JSON, loopback HTTP collector) and emit_term (child process), and
   projects the output back onto the abstract record.
"""
import json
import os
import re
import shutil

import vlib


def _sig(m):
    s = m["detail"].get("sig", m["what"])
    if s.startswith("dup-attr-key") and "f17=true" in s:
        return "C13:F17:" + s
    # third-party sval_json writes unbalanced JSON for a map whose key is Some(_) and whose value holds a
    # Some(_) (`{"5":{"Some":2}`): the default file writer passes it on as a mangled line
    if s.startswith("file-invalid-json") and re.search(r"MapKey\.OptKey\.[^,\]]*(Some|Struct)", s):
        return "C13:SVALJSON-OPTKEY:" + s
    return "C13:" + s


def run(ctx):
    ctx.level = "exploration"
    cfg = "Encode_quick.cfg" if ctx.quick else "Encode_thorough.cfg"
    r = ctx.tlc("MCEncode", cfg, workers=4 if ctx.quick else 6, timeout=3000, xmx="8g")
    if r.violated:
        ctx.spec_violation(r, "Encode.tla: %s violated by the transcription of the sinks' record mapping" % r.violated)
        return
    ctx.require_actions(r, ["Dedup", "Lift", "AttrStep"], "Encode")
    cases = os.path.join(ctx.out, "cases.ndjson")
    n = vlib.extract_printed(r.out_path, "REPLAY", cases)
    tl = list(vlib.iter_printed(r.out_path, "TABLES"))
    if not tl or n == 0:
        raise vlib.ToolError("TLC printed no cases / tables")
    tables = os.path.join(ctx.out, "tables.json")
    with open(tables, "w") as f:
        f.write(tl[0])

    # design level: the transcription of the code as found must violate the statement
    for tag, inv, what in (
            ("f8", "Total", "non-text map keys have no image (todo!())"),
            ("f9", "AttrKeysUnique", "metric attributes are not de-duplicated"),
            ("andunique", "UniqueClaimSound", "a concatenation of two unique collections claims is_unique: dedup() is skipped"),
            ("f17", "AttrKeysUnique", "err plus a property named exception.message: duplicate attribute key in logs")):
        rr = ctx.tlc("MCEncode", "Encode_%s.cfg" % tag, workers=2, timeout=600, xmx="2g",
                     expect_violation=True, coverage=False, label="Encode_%s" % tag)
        if tag == "f17":
            if rr.violated:
                ctx.violation("C13 record mapping (design level): %s; %s violated" % (what, rr.violated),
                              {"kind": "tlc-counterexample", "invariant": rr.violated,
                               "tlc_output": rr.out_path, "counterexample": rr.counterexample[:40]},
                              signature="C13:F17:design AttrKeysUnique logs err+exception.message")
        elif rr.violated != inv:
            raise vlib.ToolError("self test: Encode_%s.cfg should violate %s (%s), got %s"
                                 % (tag, inv, what, rr.violated))
    ctx.cov["exhaustive"] = True

    rc = ctx.replay_case()
    if rc is not None and "case" in rc:
        with open(cases, "w") as f:
            f.write(json.dumps(rc["case"]) + "\n")
        n = 1

    # measured: distinct abstract events with at least one property
    distinct = set()
    with open(cases) as f:
        for i, line in enumerate(f):
            c = json.loads(line)
            ev = c["ev"]
            if ev["props"]:
                distinct.add(json.dumps(ev, sort_keys=True))
            if i in (0, n // 3, (2 * n) // 3):
                ctx.sample(c)

    bindir = ctx.cargo_build("vh_enc", bins=["c13_encode"])
    rep_path = os.path.join(ctx.out, "report.json")
    ctx.run_harness(os.path.join(bindir, "c13_encode"), ["run", cases, tables, ctx.out, rep_path],
                    timeout=3000, env={"VERIF_LONG": "4096" if ctx.quick else "65536",
                         "VERIF_PASSES": "1" if (ctx.quick or rc is not None) else "3"})
    rep = json.load(open(rep_path))
    if not any(k.startswith("file") or "file" in k.split("|")[0] for k in rep["extra"].get("mismatch_categories", {})):
        shutil.rmtree(os.path.join(ctx.out, "files"), ignore_errors=True)   # large with 64 KiB strings
    ctx.cov["traces_validated_against_impl"] += rep["extra"]["sinks_decided"]
    ctx.cov["evaluations"] = rep["extra"]["sinks_decided"]
    ctx.cov["distinct_nontrivial"] = len(distinct)
    ctx.cov["rule"] = (
        "abstract events enumerated by TLC from spec/MCEncode.tla (header per kind + every "
        "(key, shape) pair once + all ordered pairs%s over the core properties); one seeded pool "
        "value per shape occurrence; every event through 4 sinks (file JSON line, OTLP protobuf, "
        "OTLP JSON, terminal); evaluations = (event, sink) outputs decided; distinct_nontrivial "
        "= distinct abstract events with at least one property" % ("" if ctx.quick else " and triples"))
    ctx.cov["events"] = rep["cases"]
    ctx.cov["distinct_pool_values"] = rep["extra"]["distinct_values"]
    ctx.cov["otlp_records_decoded"] = rep["extra"]["otlp_records"]
    ctx.cov["file_lines"] = rep["extra"]["file_lines"]
    ctx.cov["file_events_refused_unencodable_key"] = rep["extra"].get("file_events_refused_unencodable_key", 0)
    ctx.cov["total_mismatches"] = rep["total_mismatches"]
    ctx.cov["mismatch_categories"] = rep["extra"].get("mismatch_categories", {})
    ctx.assumptions += [
        "prost + the generated types under emitter/otlp/src/data/generated are the official OTLP schema",
        "serde_json decides JSON well-formedness; a strict reader (duplicate members, number text) does the projection",
        "values come from a seeded pool (type extremes, -0.0, subnormals, control / non-BMP characters, "
        "empty and long strings, error chains, serde+sval derived struct/enum), not from TLC",
        "map keys: text, bool, i64, f64, byte strings (computed and borrowed), sequences, null / None, Option, a map, a "
        "compound key (null, bytes, bool, float, nested sequence, nested map); for every kind beyond text / bool / number "
        "the text form in OTLP is not decided (distinct, non-empty except for the null key, protobuf = JSON, every value "
        "found) and the file writer may refuse the event "
        "(sval_json cannot make a member name of them: no line, never a mangled one); well-known keys carry the "
        "shapes they are defined for; a metric_value that is no number / sequence of numbers (null, None, bool, text, "
        "sequence of texts, nested sequence, map, struct, unit variant) makes the sample a log record in OTLP (all its "
        "properties as attributes); 128-bit typed integers whose value fits 64 bits: the integer or its decimal text; "
        "timestamps within the range OTLP can carry (u64 nanoseconds)",
        "not decided (statement silent): attribute order, is_monotonic / temporality, span status without err, "
        "ids on metric samples, placement of metric points in a backwards range, which record a metric sample with an "
        "EMPTY sequence / map value becomes, enum variant wrapper, text form of non-text keys (must read back as the key), "
        "rendering of NaN/Inf in JSON, terminal layout / colours / local time of day (checked: module, level, kind, abbreviated ids, "
        "message with the hole's value, error text and every cause in chain order, and for an extent with a length a "
        "number + unit denoting that length truncated to the unit shown, whichever unit)",
        "bounded: %s" % vlib.cfg_header(os.path.join(vlib.SPEC, cfg)),
    ]
    if rep["extra"].get("unattributed_file_lines"):
        ctx.violation("C13 file: %d lines that are not JSON objects with a module" % rep["extra"]["unattributed_file_lines"],
                      {"kind": "unattributed-lines"}, signature="C13:file-unattributed-lines")
    witnessed = set()
    for m in rep["mismatches"]:
        witnessed.add("%s | %s" % (m["what"], m["detail"].get("sig", "").split(" ev=")[0]))
        ctx.violation("C13 %s: %s" % (m["what"], json.dumps(m["detail"])[:400]), m, signature=_sig(m))
    # a category whose witnesses did not fit into the (capped) report is still a violation of its own
    for cat, n in sorted(rep["extra"].get("mismatch_categories", {}).items()):
        if cat not in witnessed:
            ctx.violation("C13 %s (%d outputs; no witness kept in the report)" % (cat, n),
                          {"kind": "category-without-witness", "category": cat, "count": n},
                          signature=_sig({"what": cat, "detail": {"sig": cat.split(" | ", 1)[-1]}}))
