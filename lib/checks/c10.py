"""C10 - rolling files: acknowledged events are durable and no record is ever mangled.

See fileset_common.py for the method (M + G + T over spec/FileWorker.tla, FileSetBase.tla,
FileSetTrace.tla).  The C10 configurations concentrate on faults and crashes.
"""
import os
import sys

sys.path.insert(0, os.path.dirname(os.path.abspath(__file__)))
import fileset_common as fc  # noqa: E402


def run(ctx):
    if ctx.quick:
        cfgs = [("FileWorker_c10_quick.cfg", 6)]
    else:
        cfgs = [("FileWorker_c10a_thorough.cfg", 8), ("FileWorker_c10b_thorough.cfg", 8),
                ("FileWorker_c10c_thorough.cfg", 8)]
    fc.run(ctx, "C10", fc.C10, cfgs)
