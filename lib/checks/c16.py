"""C16 - templates render and compare by meaning, for any text.

M: spec/Template.tla: every ordered pair of templates of the bounded domain is an initial
   state; the level-B transcription of `impl PartialEq for Template` (repaired algorithm) runs
   as a state machine and must end with the answer of the level-A definition
   Equal(a,b) == Norm(a) = Norm(b), without panic (CursorRefinesEqual), always advancing
   (Progress); Equivalence on the <= 2-part domain; RenderIndependentOfSplit.
   Self-test: the transcription of the algorithm as found (Algo = "current", "skipfix") must
   violate CursorRefinesEqual (F13, F12).
G: TLC prints one TEMPLATE line per template (parts, normal form, predicted rendering and
   writer events per property set); the harness builds each template through every public
   constructor, renders it to every kind of writer, and compares `==` for every ordered pair
   (both argument orders are both ordered pairs) under catch_unwind with the specification's
   Norm(a) = Norm(b).
   Output channels: every rendering (and every template on its own) is also taken out through
   each channel the specification names (RenderChannels / TemplateChannels: Display, the writers,
   ToValue, serde, sval, Debug; AsLiteral) by vh_tpl/c16_channels; level A = the same text.
   Macro literals: TLC enumerates literals of the macro grammar (spec/TemplateMacro.tla);
   a generator turns them into `emit::tpl!` / `emit::emit!` call sites (vh_tpl crate).
"""
import json
import os

import vlib


def rust_str(s):
    return '"' + s.replace("\\", "\\\\").replace('"', '\\"') + '"'


def macro_literal(toks, tpl_only):
    """Concrete syntax of a literal of the macro grammar (token forms: see MCTemplate.tla)."""
    out = []
    for t in toks:
        if t["k"] == "c":
            out.append(t["c"])
        elif t["k"] == "eo":
            out.append("{{")
        elif t["k"] == "ec":
            out.append("}}")
        elif t["form"] == "id":
            out.append("{x}")
        elif t["form"] == "expr":
            out.append("{y}" if tpl_only else '{y: "Y1"}')
        elif t["form"] == "fmt":
            out.append('{#[emit::fmt("?")] x2}')
        elif t["form"] == "key":
            out.append('{#[emit::key("k \u00e9")] z}')
        elif t["form"] == "keyname":
            out.append('{#[emit::key(name: "k2")] z2}')
        elif t["form"] == "keyexpr":
            out.append('{#[emit::key(name: KEY3)] z3}')
        elif t["form"] == "fmtnamed":
            out.append('{#[emit::fmt(flags: "?")] x3}')
        else:
            raise vlib.ToolError("unknown token %r" % (t,))
    return "".join(out)


def hook_parts(toks, fmt_flags="?"):
    """The expansion of a literal's parts written out by hand with every hook call dispatched through
    its *trait* (`__PrivateFmtHook for Part`, `__PrivateKeyHook for Key`) instead of the inherent
    const fns the macros resolve to: level A is the same template."""
    out = []
    text = ""
    P = "emit::template::Part"
    key_default = lambda k: "<Key as __PrivateKeyHook>::__private_key_as_default(Key(%s))" % rust_str(k)
    key_as = lambda ident, name: "<Key as __PrivateKeyHook>::__private_key_as(Key(%s), %s)" % (rust_str(ident), name)
    fmt_default = lambda hole: "<%s as __PrivateFmtHook>::__private_fmt_as_default(%s::hole_str(%s))" % (P, P, hole)
    fmt_as = lambda hole, flags: ("<%s as __PrivateFmtHook>::__private_fmt_as(%s::hole_str(%s), emit::template::Formatter::new(|v, f| "
                                  "core::write!(f, \"{:%s}\", v)))" % (P, P, hole, flags))
    # `#[emit::fmt("")]`: the format string is "{}"
    fmt_as_plain = lambda hole: ("<%s as __PrivateFmtHook>::__private_fmt_as(%s::hole_str(%s), emit::template::Formatter::new(|v, f| "
                                 "core::write!(f, \"{}\", v)))" % (P, P, hole))
    def flush():
        nonlocal text
        if text:
            out.append("%s::text(%s)" % (P, rust_str(text)))
            text = ""
    for t in toks:
        if t["k"] == "c":
            # the macros emit one text part per maximal run of text
            text += t["c"]
        elif t["k"] == "eo":
            text += "{"
        elif t["k"] == "ec":
            text += "}"
        else:
            flush()
            f = t["form"]
            if f == "id":
                out.append(fmt_default(key_default("x")))
            elif f == "expr":
                out.append(fmt_default(key_default("y")))
            elif f == "fmt":
                out.append(fmt_as(key_default("x2"), fmt_flags))
            elif f == "key":
                out.append(fmt_default(key_as("z", rust_str("k \u00e9"))))
            elif f == "keyname":
                out.append(fmt_default(key_as("z2", rust_str("k2"))))
            elif f == "keyexpr":
                out.append(fmt_default(key_as("z3", "KEY3")))
            elif f == "fmtnamed":
                out.append(fmt_as(key_default("x3"), fmt_flags))
            elif f == "fmtsite":
                out.append(fmt_as(key_default("v"), fmt_flags) if fmt_flags else fmt_as_plain(key_default("v")))
            else:
                raise vlib.ToolError("unknown token %r" % (t,))
    flush()
    return "[%s]" % ", ".join(out)


def hook_parts_count(toks):
    """one item per part hook_parts() produces"""
    run = False
    for t in toks:
        if t["k"] == "h":
            run = False
            yield 1
        elif not run:
            run = True
            yield 1


HOOK_PROPS = '[("x", "X0"), ("y", "Y1"), ("x2", "Q"), ("k \u00e9", "Z2"), ("k2", "Z3"), ("k3", "Z4"), ("x3", "R")]'


def generate_macro_sites(lines, dest, fmt_lines=()):
    """One tpl!/evt!/emit! call site per MACRO line; returns True when the file changed."""
    sig = ["<E: emit::Emitter, F: emit::Filter, C: emit::Ctxt, T: emit::Clock, R: emit::Rng>(",
           "    rt: &emit::runtime::Runtime<E, F, C, T, R>,",
           "    chk: &mut dyn FnMut(usize, &str, &emit::Template, Option<String>),",
           "    last: &dyn Fn() -> Option<(emit::Template<'static>, String)>,",
           ") {"]
    o = ["// @generated by lib/checks/c16.py from the MACRO lines of spec/MCTemplate.tla - do not edit",
         "const KEY3: &str = \"k3\";",
         "#[allow(unused_imports)]",
         "use emit::__private::{Key, __PrivateFmtHook, __PrivateKeyHook};"]
    for i, m in enumerate(lines):
        lit_t = rust_str(macro_literal(m["toks"], True))
        lit_e = rust_str(macro_literal(m["toks"], False))
        o.append("fn site_%d%s" % (i, sig[0]))
        o += sig[1:]
        o.append('    let (x, y, x2, z, z2, z3, x3) = ("X0", "Y1", "Q", "Z2", "Z3", "Z4", "R");')
        o.append("    let _ = (x, y, x2, z, z2, z3, x3);")
        o.append("    chk(%d, \"tpl\", &emit::tpl!(%s), None);" % (i, lit_t))
        o.append("    let e = emit::evt!(%s);" % lit_e)
        o.append("    chk(%d, \"evt\", e.tpl(), Some(e.msg().to_string()));" % i)
        o.append("    emit::emit!(rt, %s);" % lit_e)
        o.append("    let (t, m) = last().expect(\"emit! did not reach the emitter\");")
        o.append("    chk(%d, \"emit\", &t, Some(m));" % i)
        o.append("    chk(%d, \"format\", &emit::tpl!(%s), Some(emit::format!(%s)));" % (i, lit_t, lit_e))
        o.append("    let hp: [emit::template::Part; %d] = %s;" % (sum(1 for _ in hook_parts_count(m["toks"])), hook_parts(m["toks"])))
        o.append("    let ht = emit::Template::new_ref(&hp);")
        o.append("    chk(%d, \"hooks\", &ht, Some(ht.render(%s).to_string()));" % (i, HOOK_PROPS))
        o.append("}")
    # format-flag sites: `[{#[emit::fmt("FLAGS")] v}]`; the std oracle is format! of the same flags
    fsig = list(sig)
    fsig[2] = "    chk: &mut dyn FnMut(usize, &str, &emit::Template, String, String),"
    for i, m in enumerate(fmt_lines):
        flags = m["flags"]
        if any(ch in flags for ch in '{}"\\'):
            raise vlib.ToolError("flags %r cannot be written into a literal" % flags)
        val = {"i": "%si64" % m["src"], "f": "%sf64" % m["src"], "s": rust_str(m["src"])}[m["ty"]]
        lit = rust_str(('[{#[emit::fmt(flags: "%s")] v}]' if m.get("arg") == "named" else '[{#[emit::fmt("%s")] v}]') % flags)
        o.append("fn fsite_%d%s" % (i, fsig[0]))
        o += fsig[1:]
        o.append("    let v = %s;" % val)
        o.append("    let oracle = format!(\"[{:%s}]\", v);" % flags)
        o.append("    let t = emit::tpl!(%s);" % lit)
        o.append("    chk(%d, \"tpl\", &t, t.render((\"v\", v)).to_string(), oracle.clone());" % i)
        o.append("    let e = emit::evt!(%s);" % lit)
        o.append("    chk(%d, \"evt\", e.tpl(), e.msg().to_string(), oracle.clone());" % i)
        o.append("    emit::emit!(rt, %s);" % lit)
        o.append("    let (t, m) = last().expect(\"emit! did not reach the emitter\");")
        o.append("    chk(%d, \"emit\", &t, m, oracle.clone());" % i)
        o.append("    let t = emit::tpl!(%s);" % lit)
        o.append("    chk(%d, \"format\", &t, emit::format!(%s), oracle.clone());" % (i, lit))
        o.append("    let hp: [emit::template::Part; 3] = %s;" % hook_parts(
            [{"k": "c", "c": "["}, {"k": "h", "form": "fmtsite"}, {"k": "c", "c": "]"}], flags))
        o.append("    let ht = emit::Template::new_ref(&hp);")
        o.append("    chk(%d, \"hooks\", &ht, ht.render((\"v\", v)).to_string(), oracle);" % i)
        o.append("}")
    o.append("pub fn run" + sig[0])
    o += sig[1:]
    for i in range(len(lines)):
        o.append("    site_%d(rt, chk, last);" % i)
    o.append("}")
    o.append("pub fn run_fmt" + fsig[0])
    o += fsig[1:]
    for i in range(len(fmt_lines)):
        o.append("    fsite_%d(rt, chk, last);" % i)
    o.append("}")
    text = "\n".join(o) + "\n"
    try:
        if open(dest).read() == text:
            return False
    except OSError:
        pass
    with open(dest, "w") as f:
        f.write(text)
    return True


def run_macros(ctx, tlc_out):
    mpath = os.path.join(ctx.out, "macros.ndjson")
    n = vlib.extract_printed(tlc_out, "MACRO", mpath)
    if n == 0:
        raise vlib.ToolError("TLC printed no macro literals")
    lines = vlib.read_ndjson(mpath)
    forms = [json.loads(x) for x in vlib.iter_printed(tlc_out, "MACROFORMS")]
    if not forms or sorted(forms[0]) != ["emit", "evt", "format", "hooks", "tpl"]:
        raise vlib.ToolError("the macro forms of the specification and of the generator differ: %r" % (forms[:1],))
    fpath = os.path.join(ctx.out, "fmtsites.ndjson")
    if vlib.extract_printed(tlc_out, "FMTSITE", fpath) == 0:
        raise vlib.ToolError("TLC printed no format-flag sites")
    fmt_lines = vlib.read_ndjson(fpath)
    generate_macro_sites(lines, os.path.join(vlib.HARNESS, "vh_tpl", "gen", "macros.rs"), fmt_lines)
    bindir = ctx.cargo_build("vh_tpl", bins=["c16_macros"])
    rep_path = os.path.join(ctx.out, "report-macros.json")
    ctx.run_harness(os.path.join(bindir, "c16_macros"), [mpath, rep_path, fpath], timeout=600)
    ctx.cov["macro_fmt_sites"] = len(fmt_lines)
    rep = json.load(open(rep_path))
    ctx.cov["traces_validated_against_impl"] += rep["checks"]
    ctx.cov["macro_literals"] = rep["cases"]
    ctx.sample({"macro_literal": macro_literal(lines[len(lines) // 2]["toks"], False),
                "msg": lines[len(lines) // 2]["msg"]})
    return rep


def run(ctx):
    quick = ctx.quick
    if ctx.replay:      # a stored case is replayed in the domain it came from
        with open(ctx.replay) as f:
            quick = json.load(f).get("tier", ctx.tier) == "quick"
    cfgs = ["Template_quick.cfg"] if quick else ["Template_thorough.cfg", "Template_thorough2.cfg", "Template_quick.cfg"]
    cfg = " + ".join(cfgs)
    # self-test of the refinement check: the unrepaired transcriptions must fail
    for st_cfg, defect in (("Template_current.cfg", "F13"), ("Template_skipfix.cfg", "F12")):
        r0 = ctx.tlc("MCTemplate", st_cfg, workers=2, timeout=600, xmx="2g", coverage=False,
                     count=False, expect_violation=True)
        if r0.violated != "CursorRefinesEqual":
            raise vlib.ToolError("self-test: %s did not violate CursorRefinesEqual (%s)" % (st_cfg, defect))
    ctx.cov["spec_selftest"] = "unrepaired transcriptions (current: F13, skipfix: F12) violate CursorRefinesEqual"

    cases = os.path.join(ctx.out, "templates.ndjson")
    seen_parts = set()
    n = 0
    pl = []
    with open(cases, "w") as fo:
        for c in cfgs:
            r = ctx.tlc("MCTemplate", c, workers=6, timeout=3000, xmx="8g")
            if r.violated:
                ctx.spec_violation(r, "Template.tla: %s violated by the transcription of Template::eq (%s)" % (r.violated, c))
                return
            ctx.require_actions(r, ["StartStep", "LoopStep"], "Template")
            # the union of the domains: the normal forms decide every pair, also across domains
            for p in vlib.iter_printed(r.out_path, "TEMPLATE"):
                k = json.dumps(json.loads(p)["parts"], sort_keys=True)
                if k not in seen_parts:
                    seen_parts.add(k)
                    fo.write(p + "\n")
                    n += 1
            pl = pl or list(vlib.iter_printed(r.out_path, "PROPS"))
    if n == 0 or not pl:
        raise vlib.ToolError("TLC printed no templates / property sets")
    props = os.path.join(ctx.out, "props.json")
    with open(props, "w") as f:
        f.write(pl[0])
    rc = ctx.replay_case()
    mcase = rc.get("case") if isinstance(rc, dict) else None
    if isinstance(mcase, dict):
        # --replay: only the templates of the stored case (a template, a pair, or a macro site)
        key = lambda parts: json.dumps(parts, sort_keys=True)
        want = [key(mcase[k]) for k in ("a", "b") if k in mcase]
        if "parts" in mcase and "macro" not in mcase:
            want.append(key(mcase["parts"]))
        keep = [t for t in vlib.read_ndjson(cases) if key(t["parts"]) in want]
        if want and not keep:
            raise vlib.ToolError("--replay: the stored templates are not in the domain of %s" % cfg)
        with open(cases, "w") as f:
            for t in keep:
                f.write(json.dumps(t) + "\n")
    bindir = ctx.cargo_build("vh_core", bins=["c16_templates"])
    rep_path = os.path.join(ctx.out, "report.json")
    ctx.run_harness(os.path.join(bindir, "c16_templates"), [cases, props, rep_path], timeout=1500)
    rep = json.load(open(rep_path))
    ctx.cov["traces_validated_against_impl"] += rep["checks"]
    ctx.cov["templates"] = rep["cases"]
    ctx.cov["impl"] = rep["extra"]
    with open(cases) as f:
        lines = f.readlines()
    for i in (0, len(lines) // 3, 2 * len(lines) // 3):
        if i < len(lines):
            t = json.loads(lines[i])
            ctx.sample({"parts": t["parts"], "render_with_props_3": t["renders"][2]["text"]})
    ctx.assumptions += [
        "characters a/é/😀 stand for the 1-, 2- and 4-byte UTF-8 classes; labels and values over a small pool",
        "hole formatters are not part of equality (the statement speaks of holes and text); the code ignores them too",
        "writer events are compared by meaning (consecutive text calls merged)",
        "output channels: level A is the same text for Display, the writers, ToValue, serde (serde_json) and sval (collecting Stream, sval_json) of Render and of Template; Debug = the text quoted (the model's characters need no escape); serde_json / sval_json are trusted to transport a string",
        "bounded: %s" % " | ".join(vlib.cfg_header(os.path.join(vlib.SPEC, c)) for c in cfgs),
    ]
    # every output channel (spec: RenderChannels / TemplateChannels / AsLiteral) on the real impls,
    # incl. the feature-gated serde and sval ones
    if not (isinstance(mcase, dict) and "macro" in mcase):
        cbin = ctx.cargo_build("vh_tpl", bins=["c16_channels"])
        crep_path = os.path.join(ctx.out, "report-channels.json")
        ctx.run_harness(os.path.join(cbin, "c16_channels"), [cases, props, crep_path], timeout=900)
        crep = json.load(open(crep_path))
        ctx.cov["traces_validated_against_impl"] += crep["checks"]
        ctx.cov["channel_checks"] = crep["checks"]
        obs = crep.get("extra", {}).get("debug_of_escapable_text", {})
        ctx.cov["debug_of_escapable_text"] = obs
        if obs.get("quoted-not-escaped") or obs.get("other"):
            vlib.log("  OBSERVATION (don't-care in the spec, Template.tla DebugDontCare): Debug of a Render / Template whose text has "
                     "a quote or a backslash: %s" % json.dumps(obs))
        rep["mismatches"] += crep["mismatches"]
        rep["total_mismatches"] += crep["total_mismatches"]
    if not isinstance(mcase, dict) or "macro" in mcase:
        mrep = run_macros(ctx, r.out_path)
    else:
        mrep = {"mismatches": [], "total_mismatches": 0}
    rep["mismatches"] += mrep["mismatches"]
    rep["total_mismatches"] += mrep["total_mismatches"]
    # one witness of every kind first
    seen, first, rest = set(), [], []
    for m in rep["mismatches"]:
        (rest if m["what"] in seen else first).append(m)
        seen.add(m["what"])
    for m in first + rest:
        ctx.violation("C16 %s: %s" % (m["what"], json.dumps(m["detail"], ensure_ascii=False)[:300]), m,
                      signature="C16 %s" % m["what"])
    if rep["total_mismatches"] > len(rep["mismatches"]):
        vlib.log("  (%d mismatches in total)" % rep["total_mismatches"])
