"""C11 - rolling files roll, retain and name as configured and stay inside their own set.

See fileset_common.py for the method (M + G + T over spec/FileWorker.tla, FileSetBase.tla,
FileSetTrace.tla).  The C11 configurations enumerate max_files x size limit x reuse, clock
steps (incl. backwards), overflow-truncated batches, restarts, the order of random ids; the
harness adds prefix / extension / period and sibling files sharing the directory.

NewestFirst is asserted for files created at different (period, counter); the tie case is
finding F15 (order decided by the random id): FileWorker_f15.cfg shows it at design level
and the real worker reproduces the counterexample; it is reported as a (known) finding.
"""
import json
import os
import sys

sys.path.insert(0, os.path.dirname(os.path.abspath(__file__)))
import fileset_common as fc  # noqa: E402
import vlib  # noqa: E402


def f15(ctx):
    r = ctx.tlc("MCFileWorker", "FileWorker_f15.cfg", workers=1, timeout=600, xmx="2g",
                label="FileWorker_f15", expect_violation=True)
    if r.violated is None:
        return      # the tie is gone from the design: nothing to report
    if r.violated != "NewestFirstStrict":
        ctx.spec_violation(r, "C11 FileWorker_f15.cfg: %s fails at design level" % r.violated)
        return
    # the counterexample on the real worker: two files in the same millisecond, ids descending
    case = {"maxFiles": 3, "maxSize": 1000, "reuse": False, "acked": [1, 2], "hist": [
        {"op": "batch", "evs": [1], "ph": 0, "tick": "same", "p": 1, "ms": 0, "res": "ok", "rest": [],
         "calls": [["mkdir", -100, 0, "ok"], ["list", -100, 0, "ok"], ["opennew", 105, 0, "ok"],
                   ["syncdir", -100, 0, "ok"], ["write", 105, 1, "ok"], ["flush", 105, 0, "ok"],
                   ["sync", 105, 0, "ok"]]},
        {"op": "restart"},
        {"op": "batch", "evs": [2], "ph": 0, "tick": "same", "p": 1, "ms": 0, "res": "ok", "rest": [],
         "calls": [["mkdir", -100, 0, "ok"], ["list", -100, 0, "ok"], ["opennew", 104, 0, "ok"],
                   ["syncdir", -100, 0, "ok"], ["write", 104, 2, "ok"], ["flush", 104, 0, "ok"],
                   ["sync", 104, 0, "ok"]]}],
        "files": [{"n": 105, "syn": [1], "uns": [], "ent": True},
                  {"n": 104, "syn": [2], "uns": [], "ent": True}]}
    cases = os.path.join(ctx.out, "cases-f15.ndjson")
    with open(cases, "w") as f:
        f.write(json.dumps(case) + "\n")
    bindir = ctx.cargo_build("vh_file", bins=["c11_fileset"])
    rep_path = os.path.join(ctx.out, "report-f15.json")
    smp = os.path.join(ctx.out, "sample-f15.ndjson")
    ctx.run_harness(os.path.join(bindir, "c11_fileset"),
                    [cases, rep_path, os.path.join(ctx.out, "divergent-f15.ndjson"), smp, 1, 10])
    rep = json.load(open(rep_path))
    ctx.cov["traces_validated_against_impl"] += rep["extra"]["runs"]
    if not rep["extra"]["sampled"]:
        return      # the real worker does not reproduce the counterexample; the main runs decide
    vs = fc.verdicts(ctx, smp, "tv-f15")
    if any("NewestFirstTie" in b for b in vs.values()):
        ctx.violation("C11 NewestFirst: two files created in the same millisecond of the same period are "
                      "ordered by their random id (older file sorts first with probability 1/2)",
                      {"case": case, "tlc_counterexample": r.counterexample[:40]},
                      signature="C11 NewestFirstTie equal period and counter, order decided by random id")


def run(ctx):
    if ctx.quick:
        cfgs = [("FileWorker_c11a_quick.cfg", 6), ("FileWorker_c11b_quick.cfg", 6)]
    else:
        cfgs = [("FileWorker_c11a_thorough.cfg", 8), ("FileWorker_c11b_thorough.cfg", 8)]
    rc = ctx.replay_case()
    if rc is None or "tlc_counterexample" not in rc:
        fc.run(ctx, "C11", fc.C11, cfgs)
    if rc is None or "tlc_counterexample" in rc:
        f15(ctx)
