"""C20 - a runtime slot is initialised at most once and is inert before that.

M: TLC explores all interleavings of spec/Slot.tla (3 racing initialisers, 2-3 observers):
   AtMostOneWinner, ExactlyOneWinner, LosersNeverReceive, AllFiveTogether,
   EnabledMeansInstalled, InertBefore, Stable.  The catalogued wrong designs (per-component
   reads, two-step publication, last writer wins) must each be rejected (sensitivity).
T: harness/vh_slot runs many rounds of real threads on a fresh AmbientSlot::new() per round
   (Setup::try_init_slot / init_slot under catch_unwind / AmbientSlot::init racing with
   is_enabled / emit! / span / flush / component probes; the configuration built in every
   public form: Setup::emit_to / and_emit_to / both / map_emitter, Runtime::build /
   Setup::init_runtime / Runtime::default + with_*; what a Setup form hands back is used -
   Init::get / blocking_flush / flush_on_drop, the guard dropped normally or by an unwinding
   panic - by the winner and guarded by a loser), logging call start and call end
   with numbers from one SeqCst counter; plus the process-global slot, one round per child
   process.  TLC decides with spec/SlotTrace.tla whether every round is a behaviour of
   Slot.tla (the unlogged TrySet / Read steps are placed by TLC between call and return).
"""
import concurrent.futures
import json
import os

import vlib

M_ACTIONS = ["DoInitCall", "DoTrySet", "DoInitRet", "DoObsCall", "DoRead", "DoObsReturn"]
HANDLE_ENTRY_POINTS = ["try_init_slot", "init_slot", "try_init", "init", "try_init_internal",
                       "init_internal"]
SETUP_FORMS = ["emit_to", "and_emit_to", "emit_to_and", "map_emitter"]
RUNTIME_FORMS = ["build", "init_runtime", "default_with", "init_runtime_and"]
HANDLE_OPS = ["h_probe", "h_flush", "h_guard_drop", "h_guard_unwind"]
ENTRY_POINTS = ["try_init_slot", "init_slot", "slot_init", "try_init", "init",
                "try_init_internal", "init_internal", "internal_slot_init"]


def _validate(ctx, trace, label):
    """Returns (accepted, last round reached, reason)."""
    out = os.path.join(ctx.out, "tlc-%s.out" % label)
    reason = None
    try:
        r = ctx.validate_trace("SlotTrace", "SlotTrace.cfg", trace, timeout=1500, xmx="3g",
                               label=label)
        if r.violated == "Postcondition":
            reason = "no behaviour of Slot.tla matches the recorded events"
        elif r.violated:
            reason = "invariant %s" % r.violated
    except vlib.ToolError:
        txt = open(out, errors="replace").read() if os.path.exists(out) else ""
        if "TRACE-REJECTED" not in txt:
            raise
        reason = "no behaviour of Slot.tla matches the recorded events"
    last = None
    with open(out, errors="replace") as f:
        for line in f:
            if line.startswith('<<"ROUND", '):
                last = int(line[len('<<"ROUND", '):].split(">>")[0])
    return reason is None, last, reason


def _rounds(path):
    """Split a trace file into {round number: [event lines]}."""
    out, cur = {}, None
    with open(path) as f:
        for line in f:
            line = line.strip()
            if not line:
                continue
            if line.startswith('{"e":"Reset"'):
                cur = json.loads(line)["n"]
                out[cur] = []
            out[cur].append(line)
    return out


def _report_rejection(ctx, trace, label, last, reason, origin):
    rounds = _rounds(trace)
    if last is None or last not in rounds:
        raise vlib.ToolError("trace %s rejected but the round cannot be located" % trace)
    events = rounds[last]
    # decide the round on its own (rounds are independent): this is what --replay re-runs
    single = os.path.join(ctx.out, "round-%s-%d.ndjson" % (label, last))
    with open(single, "w") as f:
        f.write("\n".join(events) + "\n")
    ok, _, reason1 = _validate(ctx, single, "single-%s-%d" % (label, last))
    if ok:
        raise vlib.ToolError("round %d of %s is rejected in context but accepted alone" % (last, trace))
    evs = [json.loads(e) for e in events]
    kinds = {e["i"]: "%s/%s" % (e["k"], e.get("f")) for e in evs if e["e"] == "InitCall"}
    inits = ["%d:%s=%s%s" % (e["i"], kinds.get(e["i"], "?"), e["r"], "" if e.get("own", True) else "(foreign refs)")
             for e in evs if e["e"] == "InitRet"]
    pending, obs = {}, []
    for e in evs:
        if e["e"] == "ObsCall":
            pending[e["o"]] = e
        elif e["e"] == "ObsRet":
            c = pending.pop(e["o"], {"op": "?"})
            if c["op"] == "flush":
                d = "flush(%s,%s)->%s/destinations %s answered %s budget %s" % (
                    c.get("via"), c.get("tmo"), e["fl"], e.get("fls"), e.get("fas"), e.get("fb"))
            elif c["op"] == "is_enabled":
                d = "is_enabled->%s" % e["en"]
            else:
                d = "%s->%s x%s" % (c["op"], [t for t in e["tags"] if t != 99], e.get("ne"))
            obs.append("%d:%s%s" % (e["o"], d, " PANIC" if e["pan"] else ""))
    hcall = {}
    for e in evs:
        if e["e"] == "HCall":
            hcall[e["i"]] = e
        elif e["e"] == "HRet":
            c = hcall.pop(e["i"], {"op": "?"})
            obs.append("init%d:%s(%s)->tags %s x%s fl=%s destinations %s answered %s budget %s%s" % (
                e["i"], c["op"], c.get("tmo", ""), [t for t in e["tags"] if t != 99], e.get("ne"),
                e["fl"], e.get("fls"), e.get("fas"), e.get("fb"), " PANIC" if e["pan"] else ""))
    hangs = ["HANG in %s" % e["in"] for e in evs if e["e"] == "Hang"]
    sig = "C20 %s: round rejected (%s); results %s; observations %s" % (
        origin, reason1 or reason, ",".join(inits), ("; ".join(obs + hangs))[:500])
    ctx.violation(sig, {"origin": origin, "round": last, "events": evs},
                  signature="C20 %s round rejected: %s" % (origin, reason1 or reason))


def _report_hang(ctx, tdir, origin):
    """A round in which a call of the code under test never returned: the statement says
    nothing blocks or panics; the round (with its Hang event) is the replay."""
    path = os.path.join(tdir, "hang.ndjson")
    evs = [json.loads(l) for l in open(path) if l.strip()]
    ok, _, reason = _validate(ctx, path, "hang")
    if ok:
        raise vlib.ToolError("a round with a Hang event was accepted by SlotTrace.tla")
    hangs = [e for e in evs if e["e"] == "Hang"]
    ctx.violation("C20 %s: call never returned (watchdog): %s" % (
        origin, "; ".join(h["in"] for h in hangs)[:300]),
        {"origin": origin, "round": evs[0].get("n"), "events": evs},
        signature="C20 %s hang: %s" % (origin, ";".join(h["in"] for h in hangs)[:200]))


def run(ctx):
    rc = ctx.replay_case()
    if rc is not None:      # --replay: decide the stored round again
        single = os.path.join(ctx.out, "replay.ndjson")
        with open(single, "w") as f:
            for e in rc["events"]:
                f.write(json.dumps(e, separators=(",", ":")) + "\n")
        ok, _, reason = _validate(ctx, single, "replay")
        if not ok:
            ctx.violation("C20 %s: stored round rejected (%s)" % (rc.get("origin"), reason), rc,
                          signature="C20 %s round rejected: %s" % (rc.get("origin"), reason))
        else:
            ctx.cov["traces_validated_against_impl"] += 1
        return

    bindir = ctx.cargo_build("vh_slot", bins=["c20_slot"])
    exe = os.path.join(bindir, "c20_slot")

    # ---- M: the design
    cfgs = ["Slot_quick.cfg"] if ctx.quick else ["Slot_quick.cfg", "Slot_thorough3.cfg",
                                                 "Slot_thorough2.cfg"]
    for cfg in cfgs:
        r = ctx.tlc("Slot", cfg, workers=6 if ctx.quick else 8, timeout=2400, xmx="8g")
        if r.violated:
            ctx.spec_violation(r, "Slot.tla: %s violated by the once-cell design" % r.violated)
            return
        ctx.require_actions(r, M_ACTIONS, cfg)
    # the post-initialisation phase: operations of the winner through its Init handle
    r = ctx.tlc("Slot", "Slot_handle.cfg", workers=4, timeout=600, xmx="3g")
    if r.violated:
        ctx.spec_violation(r, "Slot.tla: %s violated (handle phase)" % r.violated)
        return
    ctx.require_actions(r, M_ACTIONS + ["HandleCall", "HandleReturn"], "Slot_handle.cfg")
    want = {"percomponent": "AllFiveTogether", "twostep": "Stable", "lastwins": "AtMostOneWinner"}
    for d, inv in want.items():
        r = ctx.tlc("Slot", "Slot_design_%s.cfg" % d, workers=2, count=False, coverage=False,
                    expect_violation=True)
        if r.violated != inv:
            raise vlib.ToolError("design %s should violate %s, TLC says %r" % (d, inv, r.violated))
    ctx.cov["wrong_designs_rejected"] = want

    # ---- T: real executions
    rounds = 3000 if ctx.quick else 50000
    shards = 3 if ctx.quick else 10
    children = 160 if ctx.quick else 400
    tdir = os.path.join(ctx.out, "traces")
    os.makedirs(tdir, exist_ok=True)
    # exit code 3: a call into the code under test did not return within the harness's
    # watchdog (10 s per round); the round so far is in traces/hang.ndjson
    p = ctx.run_harness(exe, ["rounds", tdir, rounds, shards, 3], timeout=900, ok_codes=(0, 3))
    if p.returncode == 3:
        return _report_hang(ctx, tdir, "fresh slot")
    gtrace = os.path.join(tdir, "global.ndjson")
    p = ctx.run_harness(exe, ["global", gtrace, children], timeout=900, ok_codes=(0, 3))
    if p.returncode == 3:
        return _report_hang(ctx, tdir, "global slot")
    jobs = [("shard%d" % k, os.path.join(tdir, "trace-%d.ndjson" % k), "fresh slot")
            for k in range(shards)]
    jobs.append(("global", gtrace, "global slot"))

    # binding self-test: one corrupted field of an accepted trace must be rejected
    bad = os.path.join(tdir, "corrupted.ndjson")
    n_bad = _corrupt(jobs[0][1], bad)
    if n_bad is not None:
        jobs.append(("corrupted", bad, "selftest"))

    results = {}
    with concurrent.futures.ThreadPoolExecutor(max_workers=4 if ctx.quick else 6) as ex:
        futs = {ex.submit(_validate, ctx, path, label): (label, path, origin)
                for (label, path, origin) in jobs}
        for fu in concurrent.futures.as_completed(futs):
            results[futs[fu][0]] = (futs[fu], fu.result())
    stats = {"rounds": 0, "events": 0, "rounds_observing_both_sides": 0, "init_panics": 0,
             "rounds_with_3_racers": 0, "entry_points": {}, "handle_ops": {}, "forms": {},
             "lost_guards": {}, "flush_answers": {}}
    for label, ((_, path, origin), (ok, last, reason)) in sorted(results.items()):
        if origin == "selftest":
            if not results[jobs[0][0]][1][0]:
                continue        # the source trace itself is rejected: nothing to show
            if ok or last != n_bad:
                raise vlib.ToolError("corrupted trace (round %s) not rejected there: ok=%s last=%s"
                                     % (n_bad, ok, last))
            ctx.cov["selftest_corrupted_field"] = "rejected at round %d (as required)" % n_bad
            continue
        if not ok:
            _report_rejection(ctx, path, label, last, reason, origin)
            continue
        _stats(path, stats, ctx)
    if n_bad is None and not ctx.violations:
        raise vlib.ToolError("no observation of an initialised slot to corrupt (selftest)")
    ctx.cov["traces_validated_against_impl"] += stats["rounds"]
    ctx.cov["trace_stats"] = stats
    if not ctx.violations and (
            stats["rounds_observing_both_sides"] == 0 or stats["init_panics"] == 0 or
            stats["rounds_with_3_racers"] == 0):
        raise vlib.ToolError("vacuous stress run: %s" % stats)
    # every public initialisation entry point must have been seen winning and losing, and
    # observed afterwards (vacuity guard over the entry points)
    missing = [k for k in ENTRY_POINTS
               if not all(stats["entry_points"].get(k, {}).get(f) for f in ("won", "lost", "observed"))]
    hmissing = ["%s/%s" % (k, op) for k in HANDLE_ENTRY_POINTS for op in HANDLE_OPS
                if not stats["handle_ops"].get("%s/%s" % (k, op))]
    # every form of building the configuration seen winning, losing and observed; every form's
    # handle flushed and its guard dropped both ways; a loser's guard dropped both ways; a
    # two-destination emitter seen answering (true, false) and (false, true) to one flush
    hmissing += ["form %s %s" % (f, w) for f in SETUP_FORMS + RUNTIME_FORMS
                 for w in ("won", "lost", "observed") if not stats["forms"].get(f, {}).get(w)]
    hmissing += ["form %s/%s" % (f, op) for f in SETUP_FORMS for op in HANDLE_OPS[1:]
                 if not stats["forms"].get(f, {}).get(op)]
    hmissing += ["lost/%s" % op for op in HANDLE_OPS[2:] if not stats["lost_guards"].get(op)]
    hmissing += ["flush answers %s" % a for a in ("TF", "FT", "TT", "FF", "T", "F")
                 if not stats["flush_answers"].get(a)]
    if not ctx.violations and hmissing:
        raise vlib.ToolError("Init handle operations / forms not exercised: %s" % hmissing)
    if not ctx.violations and missing:
        raise vlib.ToolError("initialisation entry points not exercised (won/lost/observed): %s; %s"
                             % (missing, stats["entry_points"]))
    ctx.cov["exhaustive"] = True
    ctx.assumptions += [
        "the interleavings of the real OnceLock are produced by the OS scheduler (barrier release "
        "+ seeded spin skew), not enumerated: a defect whose window is a few instructions wide is "
        "found with high probability over the rounds run, not with certainty",
        "call-start / call-end numbers come from one SeqCst AtomicU64 (start taken before the "
        "call, end after it returned), so the recorded order is consistent with real time",
        "components are test doubles tagged with the initialiser index; 'receiving an event' = "
        "any invocation of a tagged component (counted per tag, Tally)",
        "std::sync::OnceLock::set / get are linearizable (the TrySet / Read steps of the spec)",
        "initialisation goes through every public entry point: try_init_slot / init_slot / "
        "AmbientSlot::init on fresh slots, try_init / init on the shared slot, try_init_internal / "
        "init_internal / AmbientInternalSlot::init on the internal slot (global slots: one round "
        "per child process); each must be seen winning, losing and observed afterwards",
        "the winner of a Setup form uses its Init handle afterwards: Init::get (five probes), "
        "Init::blocking_flush, Init::flush_on_drop + InitGuard::inner + drop of the guard "
        "(normally, or by a harness panic unwinding through its scope), with the seeded timeouts; "
        "each must reach the caller's own = the installed configuration, a flush asking every "
        "destination of the emitter exactly once, in order, and returning the conjunction of their "
        "answers; a loser of a try_ form guards the None it was handed the same way: nothing is reached",
        "the configuration is built in every public form (Setup::emit_to / and_emit_to / emit_to + "
        "and_emit_to / map_emitter for the Setup entry points; Runtime::build / Setup::init_runtime / "
        "Runtime::default + with_* / init_runtime over two emitters for the slots' own init); the "
        "forms differ only in the number of destinations (1 or 2, each with a planned flush answer) "
        "and in whether the budget is split by an And: the sum of the budgets the destinations are "
        "handed must not exceed the caller's timeout, and equal it when nothing splits it",
        "each of the five tagged components answers with a non-default value (the filter rejects "
        "a marker module the empty filter accepts)",
        "flush observations use seeded timeouts {0, 1 ns, 1 ms, 1 s, Duration::MAX} through "
        "get().emitter(), the runtime as Emitter and (global slot) emit::blocking_flush; on an "
        "initialised slot the value returned must be the conjunction of the answers of the "
        "installed emitter's destinations",
        "panics of the code under test are caught per call and are the logged result; a call "
        "that does not return within 10 s (harness watchdog) is reported as a violation",
        "Slot.tla checked exhaustively only within: " + "; ".join(
            vlib.cfg_header(os.path.join(vlib.SPEC, c)) for c in cfgs),
    ]


def _corrupt(src, dst):
    """Copy the first ~150 rounds of an accepted trace and flip one observed component tag of
    the last full-probe observation on an initialised slot; returns the round."""
    lines, target, rnd, target_round = [], None, None, None
    with open(src) as f:
        for line in f:
            line = line.strip()
            if line.startswith('{"e":"Reset"'):
                rnd = json.loads(line)["n"]
                if rnd >= 150:
                    break
            lines.append(line)
            if '"e":"ObsRet"' in line:
                e = json.loads(line)
                if e["tags"][0] in (1, 2, 3) and e["tags"] == [e["tags"][0]] * 5:
                    target, target_round = len(lines) - 1, rnd
    if target is None:
        return None
    e = json.loads(lines[target])
    e["tags"][2] = 0        # the ctxt answers from the empty runtime
    lines[target] = json.dumps(e, separators=(",", ":"))
    with open(dst, "w") as f:
        f.write("\n".join(lines) + "\n")
    return target_round


def _stats(path, stats, ctx):
    cur = None
    with open(path) as f:
        for line in f:
            stats["events"] += 1
            if line.startswith('{"e":"Reset"'):
                if cur is not None:
                    _close(cur, stats, ctx)
                cur = {"sides": set(), "inits": 0, "lines": [], "kinds": {}, "winner": None,
                       "obs_installed": False, "forms": {}, "rets": {}, "wform": None}
                stats["rounds"] += 1
            elif line.startswith('{"e":"ObsRet"'):
                e = json.loads(line)
                t = [x for x in e["tags"] if x != 99]
                cur["sides"].add((t[0] != 0) if t else e["en"])
                if len(t) >= 4 and t[0] != 0:
                    # emit / span / probe on an installed configuration: all components
                    cur["obs_installed"] = True
            elif line.startswith('{"e":"HCall"'):
                e = json.loads(line)
                if cur["rets"].get(e["i"]) in ("some", "ok"):
                    k = "%s/%s" % (cur["kinds"].get(e["i"], "?"), e["op"])
                    stats["handle_ops"][k] = stats["handle_ops"].get(k, 0) + 1
                    fs = stats["forms"].setdefault(cur["forms"].get(e["i"], "?"), {})
                    fs[e["op"]] = fs.get(e["op"], 0) + 1
                else:
                    stats["lost_guards"][e["op"]] = stats["lost_guards"].get(e["op"], 0) + 1
            elif line.startswith('{"e":"HRet"'):
                e = json.loads(line)
                if e["fas"]:
                    a = "".join("T" if x else "F" for x in e["fas"])
                    stats["flush_answers"][a] = stats["flush_answers"].get(a, 0) + 1
            elif line.startswith('{"e":"InitCall"'):
                e = json.loads(line)
                cur["kinds"][e["i"]] = e["k"]
                cur["forms"][e["i"]] = e["f"]
            elif line.startswith('{"e":"InitRet"'):
                cur["inits"] += 1
                e = json.loads(line)
                k = cur["kinds"].get(e["i"], "?")
                cur["rets"][e["i"]] = e["r"]
                ep = stats["entry_points"].setdefault(k, {"won": 0, "lost": 0, "observed": 0})
                fs = stats["forms"].setdefault(cur["forms"].get(e["i"], "?"), {})
                if e["r"] in ("some", "ok"):
                    ep["won"] += 1
                    fs["won"] = fs.get("won", 0) + 1
                    cur["winner"] = k
                    cur["wform"] = cur["forms"].get(e["i"], "?")
                else:
                    ep["lost"] += 1
                    fs["lost"] = fs.get("lost", 0) + 1
                if '"r":"panic"' in line:
                    stats["init_panics"] += 1
            if len(cur["lines"]) < 60:
                cur["lines"].append(line.strip())
    if cur is not None:
        _close(cur, stats, ctx)


def _close(cur, stats, ctx):
    if cur["winner"] and cur["obs_installed"]:
        stats["entry_points"][cur["winner"]]["observed"] += 1
        fs = stats["forms"][cur["wform"]]
        fs["observed"] = fs.get("observed", 0) + 1
    if len(cur["sides"]) == 2:
        stats["rounds_observing_both_sides"] += 1
        if cur["inits"] == 3:
            ctx.sample([json.loads(x) for x in cur["lines"]])
    if cur["inits"] == 3:
        stats["rounds_with_3_racers"] += 1
