"""C20 - a runtime slot is initialised at most once and is inert before that.

M: TLC explores all interleavings of spec/Slot.tla (3 racing initialisers, 2-3 observers):
   AtMostOneWinner, ExactlyOneWinner, LosersNeverReceive, AllFiveTogether,
   EnabledMeansInstalled, InertBefore, Stable.  The catalogued wrong designs (per-component
   reads, two-step publication, last writer wins) must each be rejected (sensitivity).
T: harness/vh_slot runs many rounds of real threads on a fresh AmbientSlot::new() per round
   (Setup::try_init_slot / init_slot under catch_unwind / AmbientSlot::init racing with
   is_enabled / emit! / span / flush / component probes), logging call start and call end
   with numbers from one SeqCst counter; plus the process-global slot, one round per child
   process.  TLC decides with spec/SlotTrace.tla whether every round is a behaviour of
   Slot.tla (the unlogged TrySet / Read steps are placed by TLC between call and return).
"""
import concurrent.futures
import json
import os

import vlib

M_ACTIONS = ["InitCall", "TrySet", "InitRet", "ObsCall", "Read", "ObsReturn"]


def _validate(ctx, trace, label):
    """Returns (accepted, last round reached, reason)."""
    out = os.path.join(ctx.out, "tlc-%s.out" % label)
    reason = None
    try:
        r = ctx.validate_trace("SlotTrace", "SlotTrace.cfg", trace, timeout=1500, xmx="3g",
                               label=label)
        if r.violated == "Postcondition":
            reason = "no behaviour of Slot.tla matches the recorded events"
        elif r.violated:
            reason = "invariant %s" % r.violated
    except vlib.ToolError:
        txt = open(out, errors="replace").read() if os.path.exists(out) else ""
        if "TRACE-REJECTED" not in txt:
            raise
        reason = "no behaviour of Slot.tla matches the recorded events"
    last = None
    with open(out, errors="replace") as f:
        for line in f:
            if line.startswith('<<"ROUND", '):
                last = int(line[len('<<"ROUND", '):].split(">>")[0])
    return reason is None, last, reason


def _rounds(path):
    """Split a trace file into {round number: [event lines]}."""
    out, cur = {}, None
    with open(path) as f:
        for line in f:
            line = line.strip()
            if not line:
                continue
            if line.startswith('{"e":"Reset"'):
                cur = json.loads(line)["n"]
                out[cur] = []
            out[cur].append(line)
    return out


def _report_rejection(ctx, trace, label, last, reason, origin):
    rounds = _rounds(trace)
    if last is None or last not in rounds:
        raise vlib.ToolError("trace %s rejected but the round cannot be located" % trace)
    events = rounds[last]
    # decide the round on its own (rounds are independent): this is what --replay re-runs
    single = os.path.join(ctx.out, "round-%s-%d.ndjson" % (label, last))
    with open(single, "w") as f:
        f.write("\n".join(events) + "\n")
    ok, _, reason1 = _validate(ctx, single, "single-%s-%d" % (label, last))
    if ok:
        raise vlib.ToolError("round %d of %s is rejected in context but accepted alone" % (last, trace))
    evs = [json.loads(e) for e in events]
    inits = [e for e in evs if e["e"] == "InitRet"]
    obs = [e for e in evs if e["e"] == "ObsRet"]
    sig = "C20 %s: round rejected (%s); results %s; observations %s" % (
        origin, reason1 or reason,
        ",".join("%d:%s" % (e["i"], e["r"]) for e in inits),
        ";".join("%d:%s%s" % (e["o"], e["tags"], "!" if e["pan"] else "") for e in obs)[:300])
    ctx.violation(sig, {"origin": origin, "round": last, "events": evs},
                  signature="C20 %s round rejected: %s" % (origin, reason1 or reason))


def run(ctx):
    rc = ctx.replay_case()
    if rc is not None:      # --replay: decide the stored round again
        single = os.path.join(ctx.out, "replay.ndjson")
        with open(single, "w") as f:
            for e in rc["events"]:
                f.write(json.dumps(e, separators=(",", ":")) + "\n")
        ok, _, reason = _validate(ctx, single, "replay")
        if not ok:
            ctx.violation("C20 %s: stored round rejected (%s)" % (rc.get("origin"), reason), rc,
                          signature="C20 %s round rejected: %s" % (rc.get("origin"), reason))
        else:
            ctx.cov["traces_validated_against_impl"] += 1
        return

    bindir = ctx.cargo_build("vh_slot", bins=["c20_slot"])
    exe = os.path.join(bindir, "c20_slot")

    # ---- M: the design
    cfgs = ["Slot_quick.cfg"] if ctx.quick else ["Slot_quick.cfg", "Slot_thorough3.cfg",
                                                 "Slot_thorough2.cfg"]
    for cfg in cfgs:
        r = ctx.tlc("Slot", cfg, workers=6 if ctx.quick else 8, timeout=2400, xmx="8g")
        if r.violated:
            ctx.spec_violation(r, "Slot.tla: %s violated by the once-cell design" % r.violated)
            return
        ctx.require_actions(r, M_ACTIONS, cfg)
    want = {"percomponent": "AllFiveTogether", "twostep": "Stable", "lastwins": "AtMostOneWinner"}
    for d, inv in want.items():
        r = ctx.tlc("Slot", "Slot_design_%s.cfg" % d, workers=2, count=False, coverage=False,
                    expect_violation=True)
        if r.violated != inv:
            raise vlib.ToolError("design %s should violate %s, TLC says %r" % (d, inv, r.violated))
    ctx.cov["wrong_designs_rejected"] = want

    # ---- T: real executions
    rounds = 3000 if ctx.quick else 50000
    shards = 3 if ctx.quick else 10
    children = 60 if ctx.quick else 300
    tdir = os.path.join(ctx.out, "traces")
    os.makedirs(tdir, exist_ok=True)
    ctx.run_harness(exe, ["rounds", tdir, rounds, shards, 3], timeout=900)
    gtrace = os.path.join(tdir, "global.ndjson")
    ctx.run_harness(exe, ["global", gtrace, children], timeout=900)
    jobs = [("shard%d" % k, os.path.join(tdir, "trace-%d.ndjson" % k), "fresh slot")
            for k in range(shards)]
    jobs.append(("global", gtrace, "global slot"))

    # binding self-test: one corrupted field of an accepted trace must be rejected
    bad = os.path.join(tdir, "corrupted.ndjson")
    n_bad = _corrupt(jobs[0][1], bad)
    if n_bad is not None:
        jobs.append(("corrupted", bad, "selftest"))

    results = {}
    with concurrent.futures.ThreadPoolExecutor(max_workers=4 if ctx.quick else 6) as ex:
        futs = {ex.submit(_validate, ctx, path, label): (label, path, origin)
                for (label, path, origin) in jobs}
        for fu in concurrent.futures.as_completed(futs):
            results[futs[fu][0]] = (futs[fu], fu.result())
    stats = {"rounds": 0, "events": 0, "rounds_observing_both_sides": 0, "init_panics": 0,
             "rounds_with_3_racers": 0}
    for label, ((_, path, origin), (ok, last, reason)) in sorted(results.items()):
        if origin == "selftest":
            if not results[jobs[0][0]][1][0]:
                continue        # the source trace itself is rejected: nothing to show
            if ok or last != n_bad:
                raise vlib.ToolError("corrupted trace (round %s) not rejected there: ok=%s last=%s"
                                     % (n_bad, ok, last))
            ctx.cov["selftest_corrupted_field"] = "rejected at round %d (as required)" % n_bad
            continue
        if not ok:
            _report_rejection(ctx, path, label, last, reason, origin)
            continue
        _stats(path, stats, ctx)
    if n_bad is None and not ctx.violations:
        raise vlib.ToolError("no observation of an initialised slot to corrupt (selftest)")
    ctx.cov["traces_validated_against_impl"] += stats["rounds"]
    ctx.cov["trace_stats"] = stats
    if not ctx.violations and (
            stats["rounds_observing_both_sides"] == 0 or stats["init_panics"] == 0 or
            stats["rounds_with_3_racers"] == 0):
        raise vlib.ToolError("vacuous stress run: %s" % stats)
    ctx.cov["exhaustive"] = True
    ctx.assumptions += [
        "the interleavings of the real OnceLock are produced by the OS scheduler (barrier release "
        "+ seeded spin skew), not enumerated: a defect whose window is a few instructions wide is "
        "found with high probability over the rounds run, not with certainty",
        "call-start / call-end numbers come from one SeqCst AtomicU64 (start taken before the "
        "call, end after it returned), so the recorded order is consistent with real time",
        "components are test doubles tagged with the initialiser index; 'receiving an event' = "
        "any invocation of a tagged component (counted per tag, Tally)",
        "std::sync::OnceLock::set / get are linearizable (the TrySet / Read steps of the spec)",
        "Slot.tla checked exhaustively only within: " + "; ".join(
            vlib.cfg_header(os.path.join(vlib.SPEC, c)) for c in cfgs),
    ]


def _corrupt(src, dst):
    """Copy the first ~150 rounds of an accepted trace and flip one observed component tag of
    the last full-probe observation on an initialised slot; returns the round."""
    lines, target, rnd, target_round = [], None, None, None
    with open(src) as f:
        for line in f:
            line = line.strip()
            if line.startswith('{"e":"Reset"'):
                rnd = json.loads(line)["n"]
                if rnd >= 150:
                    break
            lines.append(line)
            if '"e":"ObsRet"' in line:
                e = json.loads(line)
                if e["tags"][0] in (1, 2, 3) and e["tags"] == [e["tags"][0]] * 5:
                    target, target_round = len(lines) - 1, rnd
    if target is None:
        return None
    e = json.loads(lines[target])
    e["tags"][2] = 0        # the ctxt answers from the empty runtime
    lines[target] = json.dumps(e, separators=(",", ":"))
    with open(dst, "w") as f:
        f.write("\n".join(lines) + "\n")
    return target_round


def _stats(path, stats, ctx):
    cur = None
    with open(path) as f:
        for line in f:
            stats["events"] += 1
            if line.startswith('{"e":"Reset"'):
                if cur is not None:
                    _close(cur, stats, ctx)
                cur = {"sides": set(), "inits": 0, "lines": []}
                stats["rounds"] += 1
            elif line.startswith('{"e":"ObsRet"'):
                e = json.loads(line)
                t = [x for x in e["tags"] if x != 99]
                cur["sides"].add((t[0] != 0) if t else e["en"])
            elif line.startswith('{"e":"InitRet"'):
                cur["inits"] += 1
                if '"r":"panic"' in line:
                    stats["init_panics"] += 1
            if len(cur["lines"]) < 60:
                cur["lines"].append(line.strip())
    if cur is not None:
        _close(cur, stats, ctx)


def _close(cur, stats, ctx):
    if len(cur["sides"]) == 2:
        stats["rounds_observing_both_sides"] += 1
        if cur["inits"] == 3:
            ctx.sample([json.loads(x) for x in cur["lines"]])
    if cur["inits"] == 3:
        stats["rounds_with_3_racers"] += 1
