"""X11 - the OTLP emitter's own counters and diagnostics (beyond the listed properties).

M: spec/OtlpMet.tla: scenarios of single-event batches against scripted collector answers; level B
   follows HttpConnection::send (poison / unpoison, connect), send_request and the response
   closures at the granularity of the counters; level A is what the docs of the counters say a
   scenario implies: EveryEventAccounted, RequestsAccounted, BatchesAccounted, ChannelAccounted,
   GzipAccounted, ConnectionsAccounted, DiagnosticsAccounted.
G: every transition is replayed on a real emit_otlp emitter against vh_otlp's scripted collector;
   Otlp::metric_source() (the emitter's and its channel's counters), the reports that reach
   emit::runtime::internal() and the requests the collector saw are compared after every batch
   (harness x_otlp_metrics).
"""
import json
import os

import vlib


def run(ctx):
    cfg = "OtlpMet_quick.cfg" if ctx.quick else "OtlpMet_thorough.cfg"
    bindir = ctx.cargo_build("vh_otlp", bins=["x_otlp_metrics"])
    r = ctx.tlc("MCOtlpMet", cfg, workers=4, timeout=900, xmx="4g")
    if r.violated:
        ctx.spec_violation(r, "OtlpMet.tla: %s violated by the transcription of the code" % r.violated)
        return
    ctx.require_actions(r, ["Next"], "OtlpMet")
    cases = os.path.join(ctx.out, "cases.ndjson")
    n = vlib.extract_printed(r.out_path, "REPLAY", cases)
    os.remove(r.out_path)
    rc = ctx.replay_case()
    if rc is not None:
        with open(cases, "w") as f:
            f.write(json.dumps(rc["case"]) + "\n")
        n = 1
    if n == 0:
        raise vlib.ToolError("TLC printed no cases")
    seen = set()
    with open(cases) as f:
        for i, line in enumerate(f):
            c = json.loads(line)
            for s in c["steps"]:
                seen.update(s["fails"])
                if s["discarded"]:
                    seen.add("discarded")
            if i in (40, 1500):
                ctx.sample(c)
    need = {"s500", "s404", "g14", "dropa", "discarded"}
    if rc is None and need - seen:
        raise vlib.ToolError("vacuity: never exercised: %s" % sorted(need - seen))
    rep_path = os.path.join(ctx.out, "report.json")
    ctx.run_harness(os.path.join(bindir, "x_otlp_metrics"), [cases, rep_path], timeout=1500)
    rep = json.load(open(rep_path))
    if rep["cases"] != n:
        raise vlib.ToolError("harness decided %d of %d cases" % (rep["cases"], n))
    ctx.cov["traces_validated_against_impl"] += rep["cases"]
    ctx.cov["batches_driven"] = rep["checks"]
    ctx.cov["doc_observation"] = ("internal_metrics.rs: the doc comments of http_batch_sent / http_batch_failed say 'A gRPC export request ...' and "
                                  "those of grpc_batch_sent / grpc_batch_failed say 'A HTTP export request ...' (swapped); the code counts under the "
                                  "transport's own name, which is what is specified here")
    ctx.assumptions += [
        "every batch is one event, flushed before the next, so attempts and requests line up; retry backoff is scaled down through "
        "emit_batcher's existing verif hook",
        "connection failures (refused / TLS) are not scripted: the harness waits for the collector's listener; their counters must stay zero",
        "that the emitter cannot be installed as its own internal runtime is a compile-time matter (InternalEmitter); here: its reports "
        "go to the internal runtime, one per attempt, and no request carries anything but emitted events",
        "bounded: " + vlib.cfg_header(os.path.join(vlib.SPEC, cfg)),
    ]
    for m in rep["mismatches"]:
        ctx.violation("X11 %s: %s" % (m["what"], json.dumps(m["detail"])[:500]), m, signature=m["what"])
