"""C03 - ambient context is a per-thread stack; frames leave no trace once exited.

M: TLC explores spec/Ctxt.tla exhaustively within the bounds of each configuration: level B
   (the swap design of ThreadLocalCtxt / Frame / EnterGuard / FrameFuture) against level A
   (the statement: Visible = logical properties of the innermost entered frame):
   InnermostWins, NoTrace, StackOK, ExitRestores, Isolation.
G: every transition of the state graph is printed as a program (BFS path + that edge) with
   the level-A prediction after every step; the harness (vh_span/c03_ctxt) executes each
   program on the real crate with one OS thread per model thread and compares, after every
   step and on every thread, Ctxt::with_current (enumeration, get/pull, properties attached
   to an emitted event) for every context instance with the prediction.
"""
import vlib
from checks import span_common

ACTIONS = ["Open", "Enter", "Exit", "With", "Spawn", "Poll", "Yield", "Complete", "Panic"]
DISCARD = ["Discard", "DropTask"]


def stores_arg(r, cfg):
    st = list(vlib.iter_printed(r.out_path, "STORES"))
    if not st:
        raise vlib.ToolError("TLC did not print the STORES table for %s" % cfg)
    return [st[0]]


def run(ctx):
    if ctx.quick:
        configs = [
            {"cfg": "Ctxt_quick.cfg", "workers": 4},
            {"cfg": "Ctxt_quick2.cfg", "workers": 4, "actions": ACTIONS + DISCARD},
            # contexts that store nothing (emit::Empty as a Ctxt, Option::None) next to a real one
            {"cfg": "Ctxt_quick3.cfg", "workers": 4, "actions": ACTIONS + DISCARD},
            # instances constructed during the program by either thread, then used on both
            {"cfg": "Ctxt_quick4.cfg", "workers": 4, "actions": ["Make", "Open", "Enter", "Exit", "With"]},
            # the wrapper TraceparentCtxt<ThreadLocalCtxt> as an instance; EMPTY property sets
            {"cfg": "Ctxt_quick5.cfg", "workers": 4, "actions": ACTIONS + DISCARD},
        ]
    else:
        configs = [
            {"cfg": "Ctxt_thorough.cfg", "workers": 10, "replay": False},
            {"cfg": "Ctxt_thorough_r1.cfg", "workers": 6},
            {"cfg": "Ctxt_thorough_r2.cfg", "workers": 6},
            # inert contexts and instances made during the program: the quick configurations (wider
            # bounds cost 5-10 min of TLC each: 3 frames / depth 3 with inert contexts is 5.0 M
            # transitions, three made instances with a task and panics 3.1 M - both hold, measured once)
            {"cfg": "Ctxt_quick3.cfg", "workers": 6, "actions": ACTIONS + DISCARD},
            {"cfg": "Ctxt_quick4.cfg", "workers": 6, "actions": ["Make", "Open", "Enter", "Exit", "With"]},
            {"cfg": "Ctxt_quick5.cfg", "workers": 6, "actions": ACTIONS + DISCARD},
            {"cfg": "Ctxt_thorough_sim.cfg", "workers": 4, "simulate": (20000, 14)},
        ]
    span_common.run_configs(ctx, "MCCtxt", "c03_ctxt", configs, ACTIONS, "C03",
                            harness_args=stores_arg)
    ctx.assumptions += [
        "programs are well nested and keys inside one property set are distinct (guards of the specification; the statement's quantifier)",
        "a disabled frame / Frame::current shows what was ambient where it was created (snapshot), as C04's hand-off clause requires",
        "ThreadLocalCtxt::shared() instances alias one storage by design; 'other context instances' means instances with distinct storage",
        "contexts that store nothing (emit::Empty as a Ctxt, Option::None, also behind dyn ErasedCtxt with inline and boxed frames) show nothing whatever is done through them (instance kinds empty / none)",
        "instance kind `tp` is emit_traceparent::TraceparentCtxt<ThreadLocalCtxt> (value, and behind dyn ErasedCtxt with inline / boxed frames): a wrapper must forward every frame operation; no span ids are pushed in C03 programs, so its own traceparent slot stays out of play",
        "property sets may be EMPTY at run time (an empty slice, or emit::Empty itself): a root frame of it hides everything (Frame::root(ctxt, Empty) detaches from the ambient context), a pushed one changes nothing; both must restore on exit",
        "instances of kind `made` are constructed during the program by a model thread (ThreadLocalCtxt::new() / default() in rotation; every model thread is a fresh OS thread per program); the others exist before the program (made by the harness's driver thread)",
        "harness: frames and tasks are handed between OS threads through a mutex-protected table; std mpsc channels order the steps",
        "panics are caught below everything the thread has entered (one catch level per thread)",
        "bounds: see coverage.tlc_runs[*].constants",
    ]
