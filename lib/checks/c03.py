"""C03 - ambient context is a per-thread stack; frames leave no trace once exited.

M: TLC explores spec/Ctxt.tla exhaustively within the bounds of each configuration: level B
   (the swap design of ThreadLocalCtxt / Frame / EnterGuard / FrameFuture) against level A
   (the statement: Visible = logical properties of the innermost entered frame):
   InnermostWins, NoTrace, StackOK, ExitRestores, Isolation.
G: every transition of the state graph is printed as a program (BFS path + that edge) with
   the level-A prediction after every step; the harness (vh_span/c03_ctxt) executes each
   program on the real crate with one OS thread per model thread and compares, after every
   step and on every thread, Ctxt::with_current (enumeration, get/pull, properties attached
   to an emitted event) for every context instance with the prediction.
"""
import vlib
from checks import span_common

ACTIONS = ["Open", "Enter", "Exit", "With", "Spawn", "Poll", "Yield", "Complete", "Panic"]
DISCARD = ["Discard", "DropTask"]


def stores_arg(r, cfg):
    st = list(vlib.iter_printed(r.out_path, "STORES"))
    if not st:
        raise vlib.ToolError("TLC did not print the STORES table for %s" % cfg)
    return [st[0]]


def run(ctx):
    if ctx.quick:
        configs = [
            {"cfg": "Ctxt_quick.cfg", "workers": 4},
            {"cfg": "Ctxt_quick2.cfg", "workers": 4, "actions": ACTIONS + DISCARD},
        ]
    else:
        configs = [
            {"cfg": "Ctxt_thorough.cfg", "workers": 10, "replay": False},
            {"cfg": "Ctxt_thorough_r1.cfg", "workers": 6},
            {"cfg": "Ctxt_thorough_r2.cfg", "workers": 6},
            {"cfg": "Ctxt_thorough_sim.cfg", "workers": 4, "simulate": (20000, 14)},
        ]
    span_common.run_configs(ctx, "MCCtxt", "c03_ctxt", configs, ACTIONS, "C03",
                            harness_args=stores_arg)
    ctx.assumptions += [
        "programs are well nested and keys inside one property set are distinct (guards of the specification; the statement's quantifier)",
        "a disabled frame / Frame::current shows what was ambient where it was created (snapshot), as C04's hand-off clause requires",
        "ThreadLocalCtxt::shared() instances alias one storage by design; 'other context instances' means instances with distinct storage",
        "harness: frames and tasks are handed between OS threads through a mutex-protected table; std mpsc channels order the steps",
        "panics are caught below everything the thread has entered (one catch level per thread)",
        "bounds: see coverage.tlc_runs[*].constants",
    ]
