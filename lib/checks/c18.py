"""C18 - a sampling decision is made once per trace and governs everything inside it.

M: TLC explores spec/Traceparent.tla exhaustively within the bounds of each configuration:
   level B (thread-local ACTIVE_TRACEPARENT, frame slot/active swapped on enter/exit,
   incoming_traceparent transcribed, TraceparentFilter / InSampledTraceFilter, ids synthesised
   only when sampled) against level A (logical trace context per frame; root = span begun where
   there is no trace): SamplerOncePerTrace, DecisionGoverns, UnsampledSilent, SampledConsistent,
   NoTraceNoParent, FrameCarries, Restored.  Traceparent_pinned.cfg (thorough) re-checks the
   model of the code as pinned (SnapshotOnPush = FALSE) and must produce the Frame::current
   hand-off counterexample (finding F23).
G: every transition is printed as a program with the level-A prediction after every step; the
   harness (vh_span/c18_tp) runs it on Runtime::build(recording emitter,
   TraceparentFilter::new_with_sampler(scripted)[.and_when(in_sampled_trace_filter(true))],
   TraceparentCtxt<ThreadLocalCtxt>, counter clock, counter rng), spans through real macro
   expansions and every completion path (drop, complete(), complete_with() by hand, ok_lvl /
   err_lvl on Ok and Err results, sync and async), headers through their text form, one OS thread per model thread, and compares
   after every step: the sampler invocation log, the records that reached the emitter, and
   Traceparent::current() (and its format/parse round trip) on every thread.
"""
import re

import vlib
from checks import span_common

ACTIONS = ["Begin", "New", "Enter", "End", "Exit", "Event", "Current", "Panic"]
TASKS = ["Spawn", "Poll", "Yield", "Complete"]
LAZY = ["Lazy", "PollLazy"]


def mode_arg(r, cfg):
    with open(vlib.os.path.join(vlib.SPEC, cfg)) as f:
        m = re.search(r"InSampled\s*=\s*(TRUE|FALSE)", f.read())
    if not m:
        raise vlib.ToolError("no InSampled constant in %s" % cfg)
    fs = list(vlib.iter_printed(r.out_path, "FORMS"))
    if not fs:
        raise vlib.ToolError("TLC did not print the context forms for %s" % cfg)
    return ["true" if m.group(1) == "TRUE" else "false", fs[0]]


def run(ctx):
    if ctx.quick:
        configs = [
            {"cfg": "Traceparent_quick.cfg", "workers": 4, "actions": ACTIONS + TASKS + LAZY},
            {"cfg": "Traceparent_quick2.cfg", "workers": 4, "actions": ACTIONS + ["Header"]},
            {"cfg": "Traceparent_quick3.cfg", "workers": 4, "actions": ACTIONS},
            {"cfg": "Traceparent_quick4.cfg", "workers": 4, "actions": ACTIONS + ["Header"]},
            # no sampler (emit_traceparent::setup(), TraceparentFilter::new()); frames made by
            # SpanCtxt::current().push(), Tracestate::push, Frame::root (open_root), across threads
            {"cfg": "Traceparent_quick5.cfg", "workers": 4,
             "actions": [a for a in ACTIONS if a != "Current"] + ["Header", "Carry"]},
            # the same frames with sampler + sampled-trace filter, entered and re-entered
            {"cfg": "Traceparent_quick6.cfg", "workers": 4,
             "actions": [a for a in ACTIONS if a != "Current"] + ["Header", "Carry"]},
        ]
    else:
        full = ACTIONS + TASKS + LAZY + ["Header"]
        configs = [
            {"cfg": "Traceparent_thorough.cfg", "workers": 10, "replay": False, "actions": ACTIONS + ["Header"]},
            {"cfg": "Traceparent_thorough2.cfg", "workers": 10, "replay": False, "actions": full},
            {"cfg": "Traceparent_thorough3.cfg", "workers": 10, "replay": False, "actions": full},
            {"cfg": "Traceparent_thorough4.cfg", "workers": 10, "replay": False,
             "actions": [a for a in ACTIONS if a != "Current"] + ["Header"]},
            {"cfg": "Traceparent_thorough_r1.cfg", "workers": 6, "actions": full},
            {"cfg": "Traceparent_thorough_r2.cfg", "workers": 6, "actions": ACTIONS + TASKS + LAZY},
            {"cfg": "Traceparent_thorough_r3.cfg", "workers": 6, "actions": ACTIONS + ["Header"]},
            {"cfg": "Traceparent_thorough_r4.cfg", "workers": 6, "actions": ACTIONS + ["Header"]},
            {"cfg": "Traceparent_thorough_r5.cfg", "workers": 6,
             "actions": [a for a in ACTIONS if a != "Current"] + ["Header", "Carry"]},
            {"cfg": "Traceparent_thorough_r6.cfg", "workers": 6, "actions": ACTIONS + TASKS + ["Header", "Carry"]},
            {"cfg": "Traceparent_thorough_sim.cfg", "workers": 4, "simulate": (20000, 18)},
        ]
        if ctx.replay_case() is None:
            # binding demonstration: the model of the pinned code must fail
            r = ctx.tlc("MCTraceparent", "Traceparent_pinned.cfg", workers=4, count=False,
                        expect_violation=True, label="Traceparent_pinned")
            if not r.violated:
                raise vlib.ToolError("the model of the pinned code (SnapshotOnPush = FALSE) shows no "
                                     "violation: the specification lost its sensitivity to F23")
            ctx.cov["pinned_code_model"] = {"cfg": "Traceparent_pinned.cfg", "violated": r.violated,
                                            "states": r.distinct}
    span_common.run_configs(ctx, "MCTraceparent", "c18_tp", configs, ACTIONS, "C18",
                            harness_args=mode_arg)
    ctx.assumptions += [
        "context forms (value, &C, Option<C>, Box<C>, Arc<C>, Box<dyn ErasedCtxt + Send + Sync>, the ambient runtime of setup_with_sampler(..).init_slot, TraceparentCtxt over a third-party stacking context on the trait defaults): every program runs through one form, the program number rotates through them; not every program through every form",
        "no call-site `when`, no other runtime filter than TraceparentFilter [and in_sampled_trace_filter(true)] (the statement's setting)",
        "the random source yields no zero and no repeat; ids are compared up to a bijection",
        "what the statement does not say is not compared: Traceparent::current() outside any trace and its ids inside an unsampled trace, events outside any trace, ids of events in unsampled traces",
        "an invalid header (no ids, span id only, trace id only; sampled or unsampled flag) is ignored: the next span is a root and the sampler decides; which trace id that root gets is not said (the code keeps a sampled trace-id-only header's), so its name is bound softly; with the sampled-trace filter installed only invalid headers with the sampled flag are generated (in_sampled_trace_filter reads the flag of an invalid active traceparent too and would drop a root the sampler accepted - reported, not asserted)",
        "entry points without a sampler (emit_traceparent::setup(), TraceparentFilter::new()): every new trace is sampled, nothing is consulted (spec constant Sampler = FALSE, forms setup / nosampler)",
        "other frames (spec constant FrameKinds): SpanCtxt::current(ctxt).push(ctxt) and Tracestate::push carry the trace context they were made in, like Frame::current; Frame::root(ctxt, user props) carries none (a root frame shows only its own properties) and, like every frame that carries no trace, is entered outside any trace only; the VALUE of Tracestate::current() is read at every step but not compared (the statement does not mention it)",
        "hand-off frames are Frame::current(rt.ctxt()) (the book's way), span frames and pushed headers; the specification models the repaired open_push/open_disabled (fix F23: capture the active traceparent)",
        "span guards are moved into their frame; a panic is caught below everything the thread has entered (one catch level per thread), the level / error of the record emitted while unwinding is C05's",
        "bounds: see coverage.tlc_runs[*].constants",
    ]
