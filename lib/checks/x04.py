"""X04 - the trace context API outside the span machinery (beyond the listed properties).

M: spec/TraceCtx.tla: push / enter / exit of traceparent + tracestate frames on 2 threads (frames
   travel); level B is the thread-local slot swapped by enter / exit, level A "the current context
   is that of the innermost entered frame": CurrentIsInnermost, FrameCarries, Restored,
   ThreadsApart, HeaderRoundTrip (through the grammar of spec/Text.tla, instantiated read-only).
   spec/TraceText.tla: TraceFlags (hex, &, |, !, parse), Traceparent text round trip, Tracestate:
   FlagsHexRule, FlagsOpsRule, FlagsParseRule, TpRoundTrip.
G: every transition / case is printed with the statement's observation and replayed on the real
   crate; the context programs run on real OS threads (vh_span engine, harness x_tracectx).
"""
import json
import os

import vlib


def _mismatches(ctx, rep, part):
    for m in rep["mismatches"]:
        what = m.get("what", "?")
        ctx.violation("X04 %s: %s" % (what, json.dumps(m.get("detail"))[:500]), dict(m, part=part),
                      signature="%s:%s" % (part, what))


def run(ctx):
    tier = "quick" if ctx.quick else "thorough"
    bindir = ctx.cargo_build("vh_span", bins=["x_tracectx"])
    exe = os.path.join(bindir, "x_tracectx")
    rc = ctx.replay_case()

    # ---- values and text forms
    r = ctx.tlc("MCTraceText", "TraceText_%s.cfg" % tier, workers=4, timeout=900, xmx="4g", label="text-" + tier)
    if r.violated:
        ctx.spec_violation(r, "TraceText.tla: %s violated" % r.violated)
        return
    ctx.require_actions(r, ["Eval"], "TraceText")
    cases = os.path.join(ctx.out, "cases-text.ndjson")
    n = vlib.extract_printed(r.out_path, "REPLAY", cases)
    os.remove(r.out_path)
    if rc is not None:
        n = 0
        if rc.get("part") == "text":
            with open(cases, "w") as f:
                f.write(json.dumps(rc["case"]) + "\n")
            n = 1
    elif n == 0:
        raise vlib.ToolError("TraceText printed no cases")
    if n:
        rep_path = os.path.join(ctx.out, "report-text.json")
        ctx.run_harness(exe, ["text", cases, rep_path])
        rep = json.load(open(rep_path))
        if rep["cases"] != n:
            raise vlib.ToolError("harness decided %d of %d text cases" % (rep["cases"], n))
        ctx.cov["traces_validated_against_impl"] += rep["cases"]
        ctx.cov["impl_checks"] = rep["checks"]
        with open(cases) as f:
            for i, line in enumerate(f):
                if i in (300, 1900):
                    ctx.sample(json.loads(line))
        _mismatches(ctx, rep, "text")

    # ---- the context on two threads
    r = ctx.tlc("MCTraceCtx", "TraceCtx_%s.cfg" % tier, workers=6 if ctx.quick else 8, timeout=1500, xmx="8g",
                label="ctx-" + tier)
    if r.violated:
        ctx.spec_violation(r, "TraceCtx.tla: %s violated by the transcription of the code" % r.violated)
        return
    ctx.require_actions(r, ["Make", "Enter", "Exit"], "TraceCtx")
    table = list(vlib.iter_printed(r.out_path, "TABLE"))
    if not table:
        raise vlib.ToolError("TraceCtx printed no table")
    table_path = os.path.join(ctx.out, "table.json")
    with open(table_path, "w") as f:
        f.write(table[0])
    cases = os.path.join(ctx.out, "cases-ctx.ndjson")
    n = vlib.extract_printed(r.out_path, "REPLAY", cases)
    os.remove(r.out_path)
    if rc is not None:
        n = 0
        if rc.get("part") == "ctx":
            with open(cases, "w") as f:
                f.write(json.dumps(rc["case"]) + "\n")
            n = 1
    elif n == 0:
        raise vlib.ToolError("TraceCtx printed no cases")
    if n:
        ops = set()
        with open(cases) as f:
            for i, line in enumerate(f):
                if i % 50 == 0:
                    ops.update(s["op"] for s in json.loads(line)["steps"])
                if i in (500, 40000):
                    ctx.sample(json.loads(line))
        need = {"push_tp", "push_ts", "push_both", "current", "enter", "exit"}
        if rc is None and need - ops:
            raise vlib.ToolError("vacuity: operations never performed: %s" % sorted(need - ops))
        rep_path = os.path.join(ctx.out, "report-ctx.json")
        ctx.run_harness(exe, ["ctx", cases, table_path, rep_path], timeout=1500)
        rep = json.load(open(rep_path))
        if rep["cases"] != n and not rep.get("extra", {}).get("stopped_early"):
            raise vlib.ToolError("harness decided %d of %d context programs" % (rep["cases"], n))
        ctx.cov["traces_validated_against_impl"] += rep["cases"]
        ctx.cov["impl_steps"] = rep["checks"]
        ctx.cov["flaky_hangs"] = rep.get("extra", {}).get("flaky_hangs", 0)
        _mismatches(ctx, rep, "ctx")
    ctx.assumptions += [
        "a frame's context is fixed when it is made (p.push() keeps the tracestate current at that moment, s.push() the "
        "traceparent): the docs say what is current while the frame is active, the capture moment is the code's",
        "span_parent bookkeeping and sampling are C18's (spec/Traceparent.tla) and not restated here",
        "upper-case hex in a traceparent text is a don't-care of the grammar (C15); flags accept [a-fA-F0-9] as documented",
        "bounded: " + vlib.cfg_header(os.path.join(vlib.SPEC, "TraceCtx_%s.cfg" % tier)),
        "bounded: " + vlib.cfg_header(os.path.join(vlib.SPEC, "TraceText_%s.cfg" % tier)),
    ]
