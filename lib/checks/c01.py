"""C01 - an event is emitted iff the effective filter accepts the fully built event.

M: TLC runs the pipeline state machine of spec/Emit.tla (snapshot ctxt -> resolve extent ->
   evaluate the effective filter -> dispatch per destination) over every configuration of
   the scenario products in spec/MCEmit.tla and checks ExactlyOnce, WrappersTransparent,
   DirectBypass, ShortCircuit against the logical definitions (Truth / InvA / Reach / Built).
G: every finished configuration is printed with the statement's prediction and executed on
   the real combinators by harness/vh_core/src/bin/c01_emit.rs: type-erased trees of any
   depth (incl. wrapping::from_fn, nested Runtime destinations, AssertInternal), plus stamped
   statically typed trees with user-defined generic leaves / wrappings; entries
   Runtime::emit, Emitter::emit on a Runtime, emit_core::emit, emit! (with / without
   `when`), emit!(evt: ..), Emitter::emit on the destination tree.
"""
import json
import os

import vlib


def run(ctx):
    tier = "quick" if ctx.quick else "thorough"
    cfg = "Emit_%s.cfg" % tier
    r = ctx.tlc("MCEmit", cfg, workers=6 if ctx.quick else 10, timeout=3000, xmx="8g")
    if r.violated:
        ctx.spec_violation(r, "Emit.tla: %s violated by the transcription of the pipeline" % r.violated)
        return
    ctx.require_actions(r, ["Pick", "Direct", "SnapshotCtxt", "ResolveExtent", "EvalFilter", "Dispatch"], cfg)
    cases = os.path.join(ctx.out, "cases.ndjson")
    n = vlib.extract_printed(r.out_path, "REPLAY", cases)
    rc = ctx.replay_case()
    if rc is not None:
        with open(cases, "w") as f:
            f.write(json.dumps(rc["case"]) + "\n")
        n = 1
    if n == 0:
        raise vlib.ToolError("TLC printed no cases")
    bindir = ctx.cargo_build("vh_core", bins=["c01_emit"])
    rp = os.path.join(ctx.out, "report.json")
    ctx.run_harness(os.path.join(bindir, "c01_emit"), [cases, rp])
    rep = json.load(open(rp))
    ctx.cov["traces_validated_against_impl"] += rep["cases"] + rep["extra"]["static_runs"]
    ctx.cov["configurations"] = rep["cases"]
    ctx.cov["impl_checks"] = rep["checks"]
    ctx.cov["static_runs"] = rep["extra"]["static_runs"]
    ctx.cov["static_shapes"] = rep["extra"]["static_shapes"]
    ctx.cov["seen"] = rep["extra"]["seen"]
    if rc is None:
        seen = rep["extra"]["seen"]
        need = ["entry:rt", "entry:rt_as_emitter", "entry:core", "entry:macro", "entry:macro_evt", "entry:direct",
                "entry:macro_lvl", "entry:evt_macro", "entry:span_evt", "entry:metric_evt", "entry:span_guard",
                "entry:span_macro", "entry:rt_with", "entry:rt_map", "f:fnleaf", "e:fnleaf", "f:always",
                "env:ref", "env:box", "env:arc", "env:opt", "env:erased", "env:assert", "env:optnone", "env:empty",
                "wf:wrap:ref", "wf:wrap:erased", "wf:wrap:erased_local", "wf:wrapfn:ref", "wf:wrapfn:erased",
                "wf:wrapfn:erased_local",
                "f:and", "f:or", "f:none", "f:opt", "f:ref", "f:box", "f:arc", "f:erased",
                "e:and", "e:wrap", "e:none", "e:opt", "e:ref", "e:box", "e:arc", "e:erased",
                "f:assert", "e:assert", "e:wrapfn", "e:rt"]
        missing = [k for k in need if not seen.get(k)]
        if missing or not rep["extra"]["static_runs"]:
            raise vlib.ToolError("vacuity: never exercised: %s" % missing)
    for d in rep["extra"].get("drift", []):
        vlib.log("MODEL-DRIFT C01: %s" % json.dumps(d)[:400])
        ctx.cov["drift"].append(d)
    with open(cases) as f:
        lines = f.readlines()
    for i in (0, len(lines) // 2, len(lines) - 1):
        c = json.loads(lines[i])
        c.pop("logB", None)
        ctx.sample(c)
    ctx.assumptions += [
        "leaf predicates {true, false, has_a, has_b, a_is_1 (own value), a_is_11 (ambient value), two_props, ext_none/point/range, "
        "ext_clock} stand for arbitrary filters: they distinguish own-before-ambient order, presence of ambient properties and "
        "the resolved extent",
        "the order in which an And destination reaches its sides and the number of clock reads are not specified (only recorded as drift)",
        "module and template are fixed; they do not take part in the pipeline decision",
        "the ambient context is a fixed Ctxt whose current properties are a slice (the thread-local context is C03's subject); "
        "the clock is scripted; the runtime holds them (and an Empty rng) by value, borrowed, boxed, shared, as Some(..), type-erased "
        "or inside AssertInternal (scenario V; `no clock, nothing ambient` also as Option::None / Empty); the stamped generic trees "
        "use the by-value form only",
        "blocking_flush: all model destinations flush at once, so only `a tree has flushed iff all of its destinations have` "
        "(= true) is decided; timeouts are not modelled",
        "the extent is an input class (absent, point, forward / empty / inverted range) crossed with every entry point; a span "
        "guard's extent is the range between two scripted clock readings (forward, equal, backwards, no clock); its filter is "
        "consulted at span start on the span without extent (documented), so span-guard configurations only use filters that "
        "do not look at the extent; the sample!/metric macros and #[span] attribute forms are not separate entries "
        "(Metric::new / SpanGuard::new + new_span! stand for them)",
        "a nested Runtime used as a destination is the statement applied again to that runtime (its filter must accept the event "
        "extended by its ambient properties / its clock's reading; its destinations receive that event)",
        "bounded: %s; scenario products, not the full product of all dimensions (see MCEmit.tla ScensFor)"
        % vlib.cfg_header(os.path.join(vlib.SPEC, cfg)),
    ]
    for m in rep["mismatches"]:
        first = (m["detail"].get("failures") or [{}])[0] if isinstance(m["detail"], dict) else {}
        ctx.violation("C01 %s: cfg=%s %s" % (m["what"], json.dumps(m["case"]["cfg"])[:500], json.dumps(first)[:300]),
                      m, signature=m["what"])
