"""C07 - see batcher_common.py (shared specification family Batcher.tla / ChannelTrace.tla)."""
from checks import batcher_common


def run(ctx):
    batcher_common.run(ctx, "C07")
