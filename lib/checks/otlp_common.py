"""Shared OTLP pieces for checks that are carried through to the OTLP emitter.

otlp_bounded_phase(ctx)  -  C09 carry-through: the `emit_batcher::Channel` contract for the
OTLP emitter's own Channel implementation (emitter/otlp/src/client.rs).

M: spec/OtlpChan.tla - the channel as the code keeps it (requests grouped by size limit,
   current_request_size_bytes, total_items) composed with Sender::send
   (`if len() >= capacity { clear(); truncated += 1 }; push`) and the receiver's take, against
   every sequence of sends / takes, event sizes and request limits: RequestsHoldPending,
   LenIsEvents (len = number of pending EVENTS, however grouped), PendingBounded, Conservation.
   OtlpChan_broken.cfg (len() counts requests) must violate PendingBounded.
G: every complete operation sequence is printed with the predicted pending count and
   truncation counter after each operation and the surviving events; harness c09_otlp_bounded
   replays it on a REAL emit_otlp::Otlp (capacity 10 000, hard-coded) against a collector that
   is up but does not answer, for each signal and for request-size regimes of 2 KiB (hundreds of
   requests per batch) / 32 KiB / the emitter's own 1 MiB (a few requests per batch), and compares queue_length, queue_full_truncated,
   emit latency and what the collector receives once it answers again.

A violation is reported for the calling property (C09):
`ctx.violation("C09 carry-through to OTLP: ...")`.
"""
import json
import os
import random

import vlib

SIGS = ["logs", "traces", "metrics"]
REGIMES = ["default", "small", "mid"]
TRANSPORTS = [("http_proto", False), ("grpc", True), ("http_json", True), ("http_proto", True),
              ("grpc", False), ("http_json", False)]


def otlp_bounded_phase(ctx, only=None):
    cfg = "OtlpChan_quick.cfg" if ctx.quick else "OtlpChan_thorough.cfg"
    r = ctx.tlc("OtlpChan", cfg, workers=1, timeout=600, xmx="2g", label="OtlpChan")
    if r.violated:
        ctx.spec_violation(r, "C09 carry-through to OTLP: OtlpChan.tla: %s violated by the transcription "
                              "of the OTLP channel" % r.violated)
        return
    ctx.require_actions(r, ["Send", "Take"], "OtlpChan")
    rb = ctx.tlc("OtlpChan", "OtlpChan_broken.cfg", workers=1, timeout=900, xmx="1g", coverage=False,
                 expect_violation=True, count=False, label="OtlpChan_broken")
    if rb.violated != "PendingBounded":
        raise vlib.ToolError("OtlpChan_broken.cfg: a channel whose len() counts requests no longer "
                             "violates PendingBounded (%s)" % rb.violated)
    # one scenario per operation sequence (the predictions do not depend on sizes / limits:
    # that is the contract)
    seqs = {}
    for p in vlib.iter_printed(r.out_path, "REPLAY"):
        d = json.loads(p)
        key = "".join("s" if o["op"] == "send" else "t" for o in d["ops"])
        prev = seqs.get(key)
        if prev is not None and (prev["ops"] != d["ops"] or sorted(prev["survive"]) != sorted(d["survive"])):
            raise vlib.ToolError("OtlpChan: the prediction for %s depends on sizes / limits" % key)
        seqs[key] = d
    if not seqs:
        raise vlib.ToolError("OtlpChan: TLC printed no operation sequences")
    keys = sorted(seqs)
    rnd = random.Random(ctx.seed * 31 + 9)
    scenarios = []

    def add(key, sig, regime, k):
        proto, gzip = TRANSPORTS[k % len(TRANSPORTS)]
        if regime == "small" and proto == "grpc":
            proto = "http_proto"      # hundreds of sequential gRPC calls per batch cost seconds
        d = seqs[key]
        others = [s for s in SIGS if s != sig and (k + SIGS.index(s)) % 2 == 0]
        scenarios.append({"sc": len(scenarios), "seq": key, "signal": sig, "signals": [s for s in SIGS if s == sig or s in others],
                          "proto": proto, "gzip": gzip, "regime": regime, "cap": d["cap"], "ops": d["ops"],
                          "survive": sorted(d["survive"]), "lost": sorted(d["lost"])})

    if only is not None:
        scenarios = [dict(only, sc=0)]
    else:
        trunc = [k for k in keys if seqs[k]["lost"]]
        if not trunc:
            raise vlib.ToolError("OtlpChan: no operation sequence overflows the capacity")
        if ctx.quick:
            # the overflowing sequences and a seeded sample of the others once (signal / regime /
            # transport rotate), and overflowing ones for every signal x regime
            rest = [k for k in keys if k not in trunc]
            for i, k in enumerate(trunc + rnd.sample(rest, min(4, len(rest)))):
                add(k, SIGS[i % 3], REGIMES[(i // 3) % 3], i)
            pick = rnd.sample(trunc, min(4, len(trunc)))
            n = 0
            for sig in SIGS:
                for reg in REGIMES:
                    add(pick[n % len(pick)], sig, reg, n)
                    n += 1
        else:
            n = 0
            for k in keys:
                for sig in SIGS:
                    for reg in (REGIMES if seqs[k]["lost"] else [REGIMES[n % 3]]):
                        add(k, sig, reg, n)
                        n += 1
    sc_path = os.path.join(ctx.out, "otlp-bounded-scenarios.ndjson")
    with open(sc_path, "w") as f:
        for sc in scenarios:
            f.write(json.dumps(sc) + "\n")
    bindir = ctx.cargo_build("vh_otlp", bins=["c09_otlp_bounded"])
    rep_path = os.path.join(ctx.out, "otlp-bounded-report.json")
    ctx.run_harness(os.path.join(bindir, "c09_otlp_bounded"), [sc_path, rep_path, 16], timeout=2400)
    rep = json.load(open(rep_path))
    ctx.cov["traces_validated_against_impl"] += rep["cases"]
    ctx.cov["otlp_bounded"] = {"scenarios": rep["cases"], "checks": rep["checks"],
                               "operation_sequences": len(keys),
                               "overflowing_sequences": sum(1 for k in keys if seqs[k]["lost"]),
                               "real_capacity": 10000}
    if scenarios:
        s0 = dict(scenarios[-1])
        ctx.sample({"otlp_bounded": {k: s0[k] for k in ("seq", "signal", "signals", "proto", "regime", "survive", "lost")}})
    ctx.assumptions += [
        "C09 carry-through to OTLP: the emitter's channel capacity is hard-coded (10 000 events per signal); one model event is a burst of 2 500 real events; the worker is parked by a collector that reads requests but does not answer (request timeout raised to 300 s through emit_otlp::verif), so no take happens between the recorded operations",
        "C09 carry-through to OTLP: one emitting thread; 'never blocks' is read as every emit call returning within 2 s while the collector does not answer",
        "bounded: %s" % vlib.cfg_header(os.path.join(vlib.SPEC, cfg)),
    ]
    for m in rep["mismatches"]:
        c = m["case"]
        sig = "otlp-bounded %s signal=%s regime=%s" % (m["what"], c.get("signal"), c.get("regime"))
        ctx.violation("C09 carry-through to OTLP: %s (signal %s, request-size regime %s, %s%s, operations %s): %s" % (
            m["what"], c.get("signal"), c.get("regime"), c.get("proto"), "+gzip" if c.get("gzip") else "",
            c.get("seq"), json.dumps(m["detail"])[:300]),
            {"otlp_bounded": c, "detail": m["detail"]}, signature=sig)


FLUSH_CLAUSES = {"AtLeastOnce", "NoPendingRetry"}


def otlp_flush_phase(ctx, only=None):
    """C07 carry-through: `Otlp::blocking_flush` returned true => every event whose emit returned
    before the flush call is in an acknowledged request (and no failed request is still waiting
    for its resend), for every configured signal.

    A modest subset of C12: scenarios from spec/Otlp.tla (REPLAY lines of the canonical schedule,
    incl. flushes in mid-stream) on 1-3 signals with faults on one endpoint, plus flushes whose
    timeout (0 / 50 / 400 ms) is far below an outage of an earlier-flushed signal while the later
    ones are healthy or idle; run by harness c12_export on a REAL emit_otlp emitter against the
    scripted collector; every recorded trace is decided by TLC against spec/OtlpTrace.tla and
    the clauses AtLeastOnce / NoPendingRetry are reported for the calling property (C07).
    A flush that returns false is always accepted here."""
    from checks import c12 as _c12
    r = ctx.tlc("Otlp", "Otlp_quick.cfg", workers=1, timeout=900, xmx="4g", label="Otlp-flush", coverage=False)
    if r.violated:
        raise vlib.ToolError("Otlp.tla: %s (reported by C12)" % r.violated)
    lines = [json.loads(p) for p in vlib.iter_printed(r.out_path, "REPLAY")]
    if not lines:
        raise vlib.ToolError("Otlp.tla printed no scenarios")
    rnd = random.Random(ctx.seed * 131 + 7)
    clean = [ln for ln in lines if all(d == "ack" for d in ln["decs"])]
    faulty = [ln for ln in lines if not all(d == "ack" for d in ln["decs"]) and "refuse" not in ln["decs"]]
    rnd.shuffle(faulty)
    by_limit = {}
    for ln in lines:
        if "refuse" not in ln["decs"]:
            by_limit.setdefault(ln["limit"], []).append(ln)
    n_single, n_multi, n_short = (10, 10, 12) if ctx.quick else (60, 60, 36)
    T = _c12.TRANSPORTS
    out = []
    if only is not None:
        out = [dict(only, sc=0)]
    else:
        for i, ln in enumerate(faulty[:n_single]):
            proto, gzip = T[i % len(T)]
            out.append(_c12.build_scenario(len(out), {SIGS[i % 3]: ln}, proto, gzip, rnd))
        # several signals, faults on one endpoint only
        for i in range(n_multi):
            proto, gzip = T[i % len(T)]
            bad = faulty[(n_single + i) % len(faulty)]
            sigs = rnd.sample(SIGS, 2 + i % 2)
            ls = {sigs[0]: bad}
            for s in sigs[1:]:
                ls[s] = dict(rnd.choice([c for c in clean if c["limit"] == bad["limit"]] or clean), reqs=[])
            out.append(_c12.build_scenario(len(out), ls, proto, gzip, rnd))
        # a flush timeout (incl. ZERO) far below the outage of an earlier-flushed signal
        for i in range(n_short):
            proto, gzip = T[i % len(T)]
            down = SIGS[i % 2]
            later = SIGS[SIGS.index(down) + 1:]
            later = later if i % 3 == 0 else later[-1:] if i % 3 == 1 else later[:1]
            base = rnd.choice(clean)
            ls = {down: dict(base, decs=["stall"] * 3, reqs=[], flushAt=[len(base["sizes"])])}
            if (i // 2) % 2 == 0:
                for s in later:
                    ls[s] = dict(rnd.choice(by_limit[base["limit"]]), decs=[], reqs=[])
            out.append(_c12.build_scenario(len(out), ls, proto, gzip, rnd, signals=[down] + later,
                                           short_flush_ms=[0, 50, 400][i % 3]))
        for i, sc in enumerate(out):
            sc["sc"] = i
    sc_path = os.path.join(ctx.out, "otlp-flush-scenarios.ndjson")
    with open(sc_path, "w") as f:
        for sc in out:
            f.write(json.dumps(sc) + "\n")
    bindir = ctx.cargo_build("vh_otlp", bins=["c12_export"])
    tr = os.path.join(ctx.out, "otlp-flush-trace.ndjson")
    rp = os.path.join(ctx.out, "otlp-flush-report.json")
    ctx.run_harness(os.path.join(bindir, "c12_export"), [sc_path, tr, rp, 24], timeout=1800)
    sums = json.load(open(rp))["summaries"]
    segs = _c12.split_trace(tr)
    # runs in which the client timed out on requests the collector did not stall say nothing
    slow = {sc["sc"] for sc, sm in zip(out, sums) if sm["client_timeouts"] > sm["stalls"] or sm["abandoned"] > 0}
    if len(slow) > max(2, len(out) // 5):
        raise vlib.ToolError("C07 carry-through to OTLP: the machine is too loaded for the shortened request "
                             "timeout (%d of %d scenarios undecided)" % (len(slow), len(out)))
    decided = [sc for sc in out if sc["sc"] not in slow]
    tdec = os.path.join(ctx.out, "otlp-flush-trace-decided.ndjson")
    with open(tdec, "w") as f:
        for sc in decided:
            for e in segs.get(sc["sc"], []):
                f.write(json.dumps(e) + "\n")
    tv = ctx.validate_trace("OtlpTrace", "OtlpTrace.cfg", tdec, timeout=600, label="tv-otlp-flush")
    verdicts = _c12.verdicts_of(tv)
    flushes = [e for sc in decided for e in segs.get(sc["sc"], []) if e["ev"] == "Flush"]
    stats = {"scenarios": len(decided), "undecided_for_timing": len(slow),
             "flushes": len(flushes), "flushes_true": sum(1 for e in flushes if e["ok"]),
             "short_flushes_false": sum(1 for e in flushes if e.get("short") and not e["ok"]),
             "multi_signal": sum(1 for sc in decided if len(sc["signals"]) > 1)}
    ctx.cov["traces_validated_against_impl"] += len(decided)
    ctx.cov["otlp_flush"] = stats
    by_sc = {}
    for v in verdicts["first"]:
        if v["clause"] in FLUSH_CLAUSES:
            by_sc.setdefault(v["sc"], set()).add(v["clause"])
    byid = {sc["sc"]: sc for sc in out}
    for scn, clauses in sorted(by_sc.items()):
        sc = byid[scn]
        ctx.violation("C07 carry-through to OTLP: blocking_flush returned true although an event emitted before it "
                      "is in no acknowledged request: %s (%s%s, signals %s, scripts %s, short flush %s ms)" % (
                          sorted(clauses), sc["proto"], "+gzip" if sc["gzip"] else "", sc["signals"], sc["scripts"],
                          sc.get("short_flush_ms")),
                      {"otlp_flush": sc, "clauses": sorted(clauses), "trace": segs.get(scn, [])},
                      signature="otlp-flush %s proto=%s" % (",".join(sorted(clauses)), sc["proto"]))
    if only is None and not ctx.violations:
        for k in ("flushes_true", "short_flushes_false", "multi_signal"):
            if not stats[k]:
                raise vlib.ToolError("C07 carry-through to OTLP: vacuity: no run with %s" % k)
    ctx.assumptions += [
        "C07 carry-through to OTLP: scenarios and oracle are C12's (spec/Otlp.tla REPLAY lines, spec/OtlpTrace.tla clauses AtLeastOnce / NoPendingRetry); hooks emit_otlp::verif (request timeout 1.2 s) and emit_batcher::verif::set_delay_scale; a flush that returns false is always accepted",
    ]
