"""X03 - the algebra of the Setup builder (beyond the listed properties).

M: spec/Setup.tla: every sequence of builder calls (emit_to / and_emit_to / map_emitter /
   emit_when / and_emit_when / with_ctxt / map_ctxt / with_clock / with_rng); level A is the
   fold that says what the calls denote (destinations with their guards, the conjunction of
   filters, the context, clock and rng), level B the values the code builds (And, wrappers)
   run through emit_core::emit: BuilderRefinesAlgebra, OncePerRegistration, FilterOnlyRemoves,
   LastEmitToWins.
G: every transition is printed with what the statement says each destination receives for each
   event (through the runtime and directly through its emitter) and replayed on the real
   builder: init_slot on a fresh AmbientSlot and init_runtime, twelve entry points (x_setup).
"""
import json
import os

import vlib


def run(ctx):
    cfg = "Setup_quick.cfg" if ctx.quick else "Setup_thorough.cfg"
    bindir = ctx.cargo_build("vh_core", bins=["x_setup"])
    r = ctx.tlc("MCSetup", cfg, workers=6 if ctx.quick else 8, timeout=1500, xmx="6g")
    if r.violated:
        ctx.spec_violation(r, "Setup.tla: %s violated by the transcription of the builder" % r.violated)
        return
    ctx.require_actions(r, ["Call"], "Setup")
    cases = os.path.join(ctx.out, "cases.ndjson")
    n = vlib.extract_printed(r.out_path, "REPLAY", cases)
    os.remove(r.out_path)
    rc = ctx.replay_case()
    if rc is not None:
        with open(cases, "w") as f:
            f.write(json.dumps(rc["case"]) + "\n")
        n = 1
    if n == 0:
        raise vlib.ToolError("TLC printed no cases")
    # vacuity: every kind of call occurs
    kinds = set()
    with open(cases) as f:
        for i, line in enumerate(f):
            if i > 20000:
                break
            for c in json.loads(line)["calls"]:
                kinds.add(c["c"])
    need = {"emit_to", "and_emit_to", "map_emitter", "emit_when", "and_emit_when", "with_ctxt", "map_ctxt",
            "with_clock", "with_rng"}
    if rc is None and need - kinds:
        raise vlib.ToolError("vacuity: calls never made: %s" % sorted(need - kinds))
    rep_path = os.path.join(ctx.out, "report.json")
    ctx.run_harness(os.path.join(bindir, "x_setup"), [cases, rep_path], timeout=1500)
    rep = json.load(open(rep_path))
    if rep["cases"] != n:
        raise vlib.ToolError("harness decided %d of %d cases" % (rep["cases"], n))
    ctx.cov["traces_validated_against_impl"] += rep["cases"]
    ctx.cov["impl_checks"] = rep["checks"]
    with open(cases) as f:
        for i, line in enumerate(f):
            if i in (40, 3000, 50000):
                ctx.sample(json.loads(line))
    ctx.assumptions += [
        "the order in which destinations receive one event is not part of the statement (compared as a multiset)",
        "the default clock's reading is compared relationally (between wall-clock readings around the call); the default rng's "
        "output is not compared",
        "the emitter's and the filter's types grow with and_emit_to / and_emit_when as in user code; the closures given to "
        "map_emitter / map_ctxt box their result (a transparent wrapper)",
        "merged by VIEW: two call sequences that build equal values (level A and level B) are continued once",
        "bounded: " + vlib.cfg_header(os.path.join(vlib.SPEC, cfg)),
    ]
    for m in rep["mismatches"]:
        d = m["detail"]
        first = (d.get("fails") or [{}])[0] if isinstance(d, dict) else {}
        ctx.violation("X03 %s: %s" % (m["what"], json.dumps(d)[:500]), m,
                      signature="%s:%s" % (m["what"], first.get("what", "")))
