"""X01 - metrics reporting (beyond the listed properties).

M: spec/Metrics.tla: a Reporter is built by add_source / normalize_with_clock /
   without_normalization and sampled; level B (TimeNormalizer samplers stacked by nested
   reporters, normalize_range with checked arithmetic) must produce the log the documented
   statement (level A) gives: RefinesA, EverySourceOnceInOrder, EverySampleOnce, NormalisedShape,
   Untouched, ClockReadOnce.
G: every transition that ends in a sample call is printed with the statement's log and replayed
   on the real Reporter through seven entry points (harness x_metrics).
"""
import json
import os

import vlib


def run(ctx):
    cfg = "Metrics_quick.cfg" if ctx.quick else "Metrics_thorough.cfg"
    bindir = ctx.cargo_build("vh_core", bins=["x_metrics"])
    r = ctx.tlc("MCMetrics", cfg, workers=6, timeout=1500, xmx="6g")
    if r.violated:
        ctx.spec_violation(r, "Metrics.tla: %s violated by the transcription of the reporter" % r.violated)
        return
    ctx.require_actions(r, ["AddAny", "ClockAny", "Sample"], "Metrics")
    cases = os.path.join(ctx.out, "cases.ndjson")
    n = 0
    scens = {}
    first = last = None
    with open(cases, "w") as fo:
        for p in vlib.iter_printed(r.out_path, "REPLAY"):
            # a transition that ends in add/clock is a prefix of one that ends in a sample
            c = json.loads(p)
            if c["ops"][-1]["op"] != "sample":
                continue
            fo.write(p + "\n")
            n += 1
            scens[c["scen"]] = scens.get(c["scen"], 0) + 1
            if first is None:
                first = c
            if c["scen"] == "compose" and n % 997 == 0:
                last = c
    os.remove(r.out_path)
    rc = ctx.replay_case()
    if rc is not None:
        with open(cases, "w") as f:
            f.write(json.dumps(rc["case"]) + "\n")
        n = 1
    if n == 0:
        raise vlib.ToolError("TLC printed no sample cases")
    missing = [s for s in ("order", "compose", "norm", "nested") if not scens.get(s)]
    if missing and rc is None:
        raise vlib.ToolError("vacuity: no sample case for scenarios %s" % missing)
    rep_path = os.path.join(ctx.out, "report.json")
    ctx.run_harness(os.path.join(bindir, "x_metrics"), [cases, rep_path])
    rep = json.load(open(rep_path))
    if rep["cases"] != n:
        raise vlib.ToolError("harness decided %d of %d cases" % (rep["cases"], n))
    ctx.cov["traces_validated_against_impl"] += rep["cases"]
    ctx.cov["impl_checks"] = rep["checks"]
    ctx.cov["cases_per_scenario"] = scens
    ctx.sample(first)
    if last is not None:
        ctx.sample(last)
    ctx.assumptions += [
        "instants are <<secs, nanos>> with secs <= 10^9 (32-bit TLC integers); the system clock's reading is compared "
        "relationally (between the wall-clock readings around the call; every derived instant shifted alike)",
        "where inside a call the configured clock is read is not part of the statement: the harness compares the number "
        "of reads per call and the sequence of source invocations and samples",
        "leaf sources answer the same script on every call",
        "bounded: " + vlib.cfg_header(os.path.join(vlib.SPEC, cfg)),
    ]
    for m in rep["mismatches"]:
        ctx.violation("X01 %s: %s" % (m["what"], json.dumps(m["detail"])[:500]), m,
                      signature="%s:%s" % (m["what"], json.dumps(m["detail"][0].get("what", ""))))
