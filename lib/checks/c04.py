"""C04 - nested spans always form one consistent trace tree.

M: TLC explores spec/Span.tla (EXTENDS Ctxt) exhaustively within the bounds of each
   configuration: level B (SpanCtxt::current / new_child / SpanGuard::new pushing ids or a
   disabled frame, completion re-reading the ambient map) against level A (logical span
   context per frame, nearest enabled ancestor): FrameIds, AmbientIds, OneTrace,
   ParentIsEnclosing, EventCarriesInnermost, IdsDistinct, Revert (+ Ctxt's InnermostWins,
   NoTrace, StackOK).
G: every transition is printed as a program with the level-A prediction after every step;
   the harness (vh_span/c04_span) runs each program on the real crate - every span node
   through a real macro expansion (#[emit::span] sync/async fn, with guard: and complete() /
   complete_with(), with ok_lvl: / err_lvl: on Ok and Err results, new_span!, SpanGuard::new,
   guards finished by drop / complete / complete_with, real panics unwinding through sync
   span bodies and async polls; incoming ids typed / &str hex / integer / SpanCtxt / Display-
   captured hex / owned String / owned typed value; span nodes whose ids are generated, all
   explicit (str / integers / typed / references / Options of them), drawn by the program from the
   runtime's random source (Rng::fill / gen_u128 / gen_u64 / TraceId::random through the wrapper
   form of the source), taken from SpanCtxt::new_root, or explicit in part (None = not given)) on a Runtime with recording emitter, scripted filter,
   ThreadLocalCtxt, counter clock and counter rng - and compares, after every step, the
   records that reached the emitter (kind, trace_id, span_id, span_parent) and
   SpanCtxt::current on every thread with the prediction, ids up to a bijection.
"""
import vlib
from checks import span_common

ACTIONS = ["Begin", "New", "SEnter", "End", "SExit", "Event", "Current", "SPanic"]
CANCEL = ["Cancel"]
TASKS = ["SSpawn", "SPoll", "SYield", "SComplete"]
LAZY = ["Lazy", "PollLazy"]


def forms_arg(r, cfg):
    import vlib
    fs = list(vlib.iter_printed(r.out_path, "FORMS"))
    if not fs:
        raise vlib.ToolError("TLC did not print the context forms for %s" % cfg)
    return [fs[0]]


def run(ctx):
    if ctx.quick:
        configs = [
            {"cfg": "Span_quick.cfg", "workers": 4, "actions": ACTIONS + TASKS + LAZY + CANCEL},
            {"cfg": "Span_quick2.cfg", "workers": 4, "actions": ACTIONS + ["Incoming"]},
            {"cfg": "Span_quick3.cfg", "workers": 4, "actions": ACTIONS + ["Incoming"]},
            {"cfg": "Span_quick4.cfg", "workers": 4, "actions": ACTIONS + TASKS + LAZY},
            # where ids come from: generated / drawn by hand from the random source / new_root / partly explicit
            {"cfg": "Span_quick5.cfg", "workers": 4, "actions": ACTIONS + ["Incoming"]},
        ]
    else:
        configs = [
            # (Span_thorough.cfg explores the widest bounds with Panics = FALSE: the panic action cannot be taken there)
            {"cfg": "Span_thorough.cfg", "workers": 10, "replay": False,
             "actions": [a for a in ACTIONS if a != "SPanic"] + TASKS + LAZY + ["Incoming"]},
            {"cfg": "Span_thorough2.cfg", "workers": 10, "replay": False, "actions": ACTIONS + ["Incoming"]},
            {"cfg": "Span_thorough_r1.cfg", "workers": 6, "actions": ACTIONS + TASKS + LAZY + ["Incoming"]},
            {"cfg": "Span_thorough_r2.cfg", "workers": 6, "actions": ACTIONS + ["Incoming"]},
            {"cfg": "Span_thorough_r3.cfg", "workers": 6, "actions": ACTIONS + TASKS + LAZY + ["Incoming"]},
            {"cfg": "Span_thorough_r4.cfg", "workers": 6, "actions": ACTIONS + ["Incoming"]},
            {"cfg": "Span_thorough_sim.cfg", "workers": 4, "simulate": (20000, 18)},
        ]
    if not ctx.quick and ctx.replay_case() is None:
        # finding F29 at model level: the model of the code as it is must fail CancelCarriesOwnIds
        r = ctx.tlc("MCSpan", "Span_f29.cfg", workers=4, count=False, expect_violation=True,
                    label="Span_f29")
        if r.violated != "CancelCarriesOwnIds":
            raise vlib.ToolError("Span_f29.cfg: expected CancelCarriesOwnIds to be violated by the "
                                 "model of the code as it is, got %s" % r.violated)
        ctx.cov["f29_model"] = {"cfg": "Span_f29.cfg", "violated": r.violated}
        r = ctx.tlc("MCSpan", "Span_f30.cfg", workers=4, count=False, expect_violation=True,
                    label="Span_f30")
        if r.violated != "ExplicitIdsWin":
            raise vlib.ToolError("Span_f30.cfg: expected ExplicitIdsWin to be violated by the model "
                                 "of the code before the repair of F30, got %s" % r.violated)
        ctx.cov["f30_model"] = {"cfg": "Span_f30.cfg", "violated": r.violated}
    span_common.run_configs(ctx, "MCSpan", "c04_span", configs, ACTIONS, "C04",
                            harness_args=forms_arg)
    ctx.assumptions += [
        "cancellation: a started, suspended async span dropped in its parent's frame, elsewhere in its own trace tree, or where no span is ambient (a span cancelled inside an unrelated trace is two trees: left out); level A: one event with its own id, its parent, its tree's trace id; the code uses the ambient ids there (open finding F29, classified by its own signature; any other wrong id or event count on that path is a violation)",
        "context forms (value, &C, Option<C>, Box<C>, Arc<C>, Box<dyn ErasedCtxt + Send + Sync>, the ambient runtime of emit::setup()..init_slot, and a third-party stacking context written on the public Ctxt trait with the default open_push / open_disabled - its current properties list inner pairs first and the shadowed outer ones after them): every program runs through one form, the program number rotates through them; not every program through every form",
        "the random source yields no zero and no repeat (the statement's condition); ids are compared up to a bijection, so the draw order is free",
        "id sources (ExplicitKinds): an explicit id given as None counts as not given (the generated id stands); ids the program draws itself from the runtime's source must be present and distinct from every id in use, like generated ones",
        "span guards are moved into the closure / async block of their frame, as the documentation of SpanGuard::new requires",
        "a panic is caught below everything the thread has entered (one catch level per thread); the level / error of the record a span emits while unwinding is C05's; no root frames between spans",
        "incoming ids are pushed outside any span (at the edge of the service): trace id + span id, a trace id alone (spans join it, no parent), a span id alone (spans take it as parent and start their own trace)",
        "a rejected span's frame carries the ids that were ambient where the span was created (snapshot), which is what 'children attach to the nearest enabled ancestor' needs after a hand-off",
        "bounds: see coverage.tlc_runs[*].constants",
    ]
