"""C05 - each enabled, started span completes exactly once; disabled spans never do.

M: TLC explores the complete (finite, cyclic) state graph of spec/SpanGuard.tla: every
   sequence, of any length, of the public SpanGuard operations (New with either filter
   verdict, Start, WithMdl, WithName, WithProps, MapProps, WithCompletion, Complete,
   CompleteWith, Drop, DropWhilePanicking) and the sequences the #[span] expansions perform
   (forms plain / result / guard).  Level B transcribes the (state, data, completion)
   take() triple; the invariants AtMostOnce, ExactlyOnceIffEnabledStarted,
   EnabledIsFilterVerdict, ReturnValueTruthful, ExtentIsStartToEnd, CarriesLatestData,
   PanicAddsErrAndLevel, RefinesStatement, SetupBracketsSpan tie it to level A (the statement).
   The same spec with F2Bug = TRUE (with_completion as found) must violate
   EnabledIsFilterVerdict: sensitivity of the invariants, run every time.
G: every transition of the graph is printed (operations + predicted is_enabled / return
   value / completion calls) and replayed on real SpanGuards (type-erased props and
   completion) and on functions carrying the real attribute macros (sync + async; forms
   plain / setup: / ok_lvl+err_lvl / err: mapper / guard: / new_span!).  A second, bounded
   configuration (SpanGuard_typed.cfg, history in the state) enumerates ALL sequences of <= 3
   non-terminal operations + terminal and runs each on the erased guard, on statically typed
   guards and on the guard new_span! returns.
   thorough: plus TLC -simulate behaviours of depth 40 (long sequences).
"""
import json
import os

import vlib

ACTIONS = ["New", "Start", "WithMdl", "WithName", "MapWith", "WithCompletion", "Complete",
           "CompleteWith", "CompleteWithResult", "Drop", "DropWhilePanicking"]


BLOCKS_TARGET = os.path.join(vlib.HARNESS, "target", "blocks")


def build_blocks(ctx):
    """The same harness once more with the fixtures that put #[emit::span] on block expressions
    (spec constant Carriers, "block").  They need the unstable features stmt_expr_attributes +
    proc_macro_hygiene: RUSTC_BOOTSTRAP=<crate name> switches them on for that one crate on the
    stable toolchain; a target dir of its own keeps the env change from invalidating the shared one."""
    import subprocess
    import time
    vlib.prepare_harness()
    env = vlib.cargo_env()
    env["RUSTC_BOOTSTRAP"] = "c05_spanguard"
    env["CARGO_TARGET_DIR"] = BLOCKS_TARGET
    t = time.time()
    p = subprocess.run(["cargo", "build", "--offline", "-j", "6", "-p", "vh_span", "--bin", "c05_spanguard",
                        "--features", "blocks"], cwd=vlib.HARNESS, stdout=subprocess.PIPE,
                       stderr=subprocess.STDOUT, text=True, env=env)
    if p.returncode != 0:
        raise vlib.ToolError("cargo build of the block-carrier harness failed:\n%s" % p.stdout[-6000:])
    vlib.log("[cargo] built vh_span/c05_spanguard with the block carrier in %.1fs" % (time.time() - t))
    return os.path.join(BLOCKS_TARGET, "debug")


def _replay(ctx, bindir, cases, label, mode="graph"):
    rep_path = os.path.join(ctx.out, "report-%s.json" % label)
    ctx.run_harness(os.path.join(bindir, "c05_spanguard"), [cases, rep_path, mode])
    rep = json.load(open(rep_path))
    if rep["extra"].get("drift_total"):
        # level B (what the code does where the statement is silent) no longer describes it
        vlib.log("MODEL-DRIFT C05: %d executions differ from level B in lvl/err of an explicit "
                 "completion made while unwinding" % rep["extra"]["drift_total"])
        ctx.cov["drift"] += [{"what": d["what"], "ops": d["case"]["ops"]}
                             for d in rep["extra"]["drift"][:3]]
    ctx.cov["traces_validated_against_impl"] += rep["checks"]
    ex = ctx.cov.setdefault("impl_executions", {})
    for k, v in rep["extra"].get("executions", {}).items():
        ex[k] = ex.get(k, 0) + v
    ctx.cov["impl_completions_observed"] = ctx.cov.get("impl_completions_observed", 0) + \
        rep["extra"].get("completions_observed", 0)
    seen = set()
    for m in rep["mismatches"]:
        # one witness per kind of mismatch
        if m["what"] in seen:
            continue
        seen.add(m["what"])
        ops = " ".join("%s(%s)" % (o["op"], o["a"]) if o["a"] else o["op"]
                       for o in m["case"]["ops"])
        ctx.violation("C05 %s; verdict=%s form=%s ops: %s" % (
            m["what"], m["case"]["verdict"], m["case"]["form"], ops), m,
            signature="C05 " + m["what"])
    return rep


def run(ctx):
    bindir = ctx.cargo_build("vh_span", bins=["c05_spanguard"])
    blocks_dir = build_blocks(ctx)

    rc = ctx.replay_case()
    if rc is not None:      # --replay: only the stored case
        cases = os.path.join(ctx.out, "cases.ndjson")
        with open(cases, "w") as f:
            f.write(json.dumps(rc["case"]) + "\n")
        _replay(ctx, bindir, cases, "replay")
        if "block" in rc["case"].get("carriers", []):
            _replay(ctx, blocks_dir, cases, "replay-blocks", "blocks")
        if rc["case"]["form"] == "none" and len(rc["case"]["ops"]) <= 5 and rc["case"]["done"]:
            _replay(ctx, bindir, cases, "replay-typed", "typed")
        return

    # sensitivity of the invariants: the unrepaired design must be rejected
    r = ctx.tlc("MCSpanGuard", "SpanGuard_f2.cfg", workers=2, count=False,
                expect_violation=True, coverage=False)
    if r.violated != "EnabledIsFilterVerdict":
        raise vlib.ToolError("SpanGuard.tla with F2Bug=TRUE should violate "
                             "EnabledIsFilterVerdict, got %r" % r.violated)
    ctx.cov["spec_mutation_F2Bug"] = "EnabledIsFilterVerdict violated (as required)"

    cfg = "SpanGuard_quick.cfg" if ctx.quick else "SpanGuard_thorough.cfg"
    r = ctx.tlc("MCSpanGuard", cfg, workers=4 if ctx.quick else 8, timeout=1500, xmx="6g")
    if r.violated:
        ctx.spec_violation(r, "SpanGuard.tla: %s violated by the transcription of the guard"
                           % r.violated)
        return
    ctx.require_actions(r, ACTIONS, "SpanGuard")
    cases = os.path.join(ctx.out, "cases.ndjson")
    n = vlib.extract_printed(r.out_path, "REPLAY", cases)
    if n == 0:
        raise vlib.ToolError("TLC printed no cases")
    os.remove(r.out_path)       # 80 MB (quick) .. 500 MB (thorough)
    rep = _replay(ctx, bindir, cases, "graph")
    if rep["cases"] != n:
        raise vlib.ToolError("harness decided %d of %d cases" % (rep["cases"], n))
    # carrier "block": the same cases through the attribute on block expressions
    repb = _replay(ctx, blocks_dir, cases, "blocks", "blocks")
    exb = repb["extra"].get("executions", {})
    if not exb.get("plain/macro-block") or not exb.get("guard/macro-block") or not exb.get("result/macro-block"):
        raise vlib.ToolError("block carrier not executed: %s" % exb)
    with open(cases) as f:
        done = 0
        for i, line in enumerate(f):
            c = json.loads(line)
            if c["done"] and c["expect"] and (i % 997 == 0 or done < 2):
                ctx.sample(c)
                done += 1
            if done >= 4:
                break

    # statically typed chains: all sequences of <= 3 operations + every terminal, on the
    # erased guard, on concrete types and on the guard new_span! returns
    rt = ctx.tlc("MCSpanGuard", "SpanGuard_typed.cfg", workers=4, timeout=900, xmx="4g")
    if rt.violated:
        ctx.spec_violation(rt, "SpanGuard.tla: %s violated (typed configuration)" % rt.violated)
        return
    typed = os.path.join(ctx.out, "cases-typed.ndjson")
    nt = vlib.extract_printed(rt.out_path, "REPLAY", typed)
    os.remove(rt.out_path)
    if nt == 0:
        raise vlib.ToolError("TLC printed no typed cases")
    rept = _replay(ctx, bindir, typed, "typed", "typed")
    ex = rept["extra"].get("executions", {})
    if not ex.get("none/typed") or not ex.get("none/typed-new_span!"):
        raise vlib.ToolError("typed chains not executed: %s" % ex)

    if not ctx.quick:
        # long sequences: random behaviours of depth 40
        rs = ctx.tlc("MCSpanGuard", "SpanGuard_sim.cfg", workers=4, simulate=3000, depth=40,
                     timeout=900, xmx="4g", label="SpanGuard_sim")
        if rs.violated:
            ctx.spec_violation(rs, "SpanGuard.tla: %s violated (simulation)" % rs.violated)
            return
        sim = os.path.join(ctx.out, "cases-sim.ndjson")
        ns = vlib.extract_printed(rs.out_path, "REPLAY", sim)
        os.remove(rs.out_path)
        if ns == 0:
            raise vlib.ToolError("TLC simulation printed no cases")
        _replay(ctx, bindir, sim, "sim")
        ctx.cov["exhaustive"] = True    # the graph run above is exhaustive; simulation is extra

    ctx.assumptions += [
        "std::thread::panicking() is what 'panic unwinding' means (DropWhilePanicking = drop "
        "during catch_unwind'ed unwinding)",
        "the type-erased guard (Box<dyn ErasedProps>, boxed dyn ErasedCompletion) stands for the "
        "statically typed ones: checked for every sequence of <= 3 operations + terminal "
        "(SpanGuard_typed.cfg: erased, concrete types and new_span! guard against one prediction); "
        "longer sequences run on the erased guard only",
        "the level of the completed span is a function of (exit path, lvl, ok_lvl, err_lvl, "
        "panic_lvl), each absent / present: default completions dflt/dfltl/dfltp/dfltL and result "
        "completions ok/okD/err/errD/errM/errMD, through with_lvl/with_panic_lvl, the attribute "
        "and new_span!; concrete levels are info / debug / warn (one value per parameter)",
        "macro forms are a fixed set of fixtures: {#[span], #[info_span]} x {panic_lvl absent, "
        "present} x {plain, setup:, ok_lvl+err_lvl, ok_lvl, err_lvl, +err: mapper, err: mapper "
        "alone, guard:} x {sync fn, async fn} with exits return / early "
        "return / ? / panic, and new_span!/new_info_span! with manual guard handling in "
        "Frame::call and Frame::in_future; carriers (spec constant Carriers): sync fn, async fn and a sync "
        "block expression (statement position and value of a let) - the block carrier needs the unstable "
        "features stmt_expr_attributes + proc_macro_hygiene and is built with RUSTC_BOOTSTRAP scoped to the "
        "harness crate; the attribute on an ASYNC block is not run: it parses its input as a statement, an "
        "async block is only a statement with a trailing `;`, i.e. where the future is dropped unpolled "
        "(as an expression the expansion fails: 'unexpected end of input, expected semicolon')",
        "explicit complete / complete_with made while the thread is unwinding: only the number of "
        "completions, return value, data, extent and ids are part of the verdict; lvl / err are "
        "level B's (the code's) and a difference is reported as MODEL-DRIFT",
        "result completions (ok/err) in direct guard use are built through the hidden "
        "emit::__private hooks the macro calls",
        "clock readings compared relationally (reading handed out during Start .. reading "
        "handed out during the terminal operation)",
        "bounded: %s" % vlib.cfg_header(os.path.join(vlib.SPEC, cfg)),
    ]
