"""C05 - each enabled, started span completes exactly once; disabled spans never do.

M: TLC explores the complete (finite, cyclic) state graph of spec/SpanGuard.tla: every
   sequence, of any length, of the public SpanGuard operations (New with either filter
   verdict, Start, WithMdl, WithName, WithProps, MapProps, WithCompletion, Complete,
   CompleteWith, Drop, DropWhilePanicking) and the sequences the #[span] expansions perform
   (forms plain / result / guard).  Level B transcribes the (state, data, completion)
   take() triple; the invariants AtMostOnce, ExactlyOnceIffEnabledStarted,
   EnabledIsFilterVerdict, ReturnValueTruthful, ExtentIsStartToEnd, CarriesLatestData,
   PanicAddsErrAndLevel, RefinesStatement tie it to level A (the statement).
   The same spec with F2Bug = TRUE (with_completion as found) must violate
   EnabledIsFilterVerdict: sensitivity of the invariants, run every time.
G: every transition of the graph is printed (operations + predicted is_enabled / return
   value / completion calls) and replayed on real SpanGuards (type-erased props and
   completion) and on functions carrying the real attribute macros (sync + async).
   thorough: plus TLC -simulate behaviours of depth 40 (long sequences).
"""
import json
import os

import vlib

ACTIONS = ["New", "Start", "WithMdl", "WithName", "MapWith", "WithCompletion", "Complete",
           "CompleteWith", "CompleteWithResult", "Drop", "DropWhilePanicking"]


def _replay(ctx, bindir, cases, label):
    rep_path = os.path.join(ctx.out, "report-%s.json" % label)
    ctx.run_harness(os.path.join(bindir, "c05_spanguard"), [cases, rep_path])
    rep = json.load(open(rep_path))
    ctx.cov["traces_validated_against_impl"] += rep["checks"]
    ex = ctx.cov.setdefault("impl_executions", {})
    for k, v in rep["extra"].get("executions", {}).items():
        ex[k] = ex.get(k, 0) + v
    ctx.cov["impl_completions_observed"] = ctx.cov.get("impl_completions_observed", 0) + \
        rep["extra"].get("completions_observed", 0)
    seen = set()
    for m in rep["mismatches"]:
        # one witness per kind of mismatch
        if m["what"] in seen:
            continue
        seen.add(m["what"])
        ops = " ".join("%s(%s)" % (o["op"], o["a"]) if o["a"] else o["op"]
                       for o in m["case"]["ops"])
        ctx.violation("C05 %s; verdict=%s form=%s ops: %s" % (
            m["what"], m["case"]["verdict"], m["case"]["form"], ops), m,
            signature="C05 " + m["what"])
    return rep


def run(ctx):
    bindir = ctx.cargo_build("vh_span", bins=["c05_spanguard"])

    rc = ctx.replay_case()
    if rc is not None:      # --replay: only the stored case
        cases = os.path.join(ctx.out, "cases.ndjson")
        with open(cases, "w") as f:
            f.write(json.dumps(rc["case"]) + "\n")
        _replay(ctx, bindir, cases, "replay")
        return

    # sensitivity of the invariants: the unrepaired design must be rejected
    r = ctx.tlc("MCSpanGuard", "SpanGuard_f2.cfg", workers=2, count=False,
                expect_violation=True, coverage=False)
    if r.violated != "EnabledIsFilterVerdict":
        raise vlib.ToolError("SpanGuard.tla with F2Bug=TRUE should violate "
                             "EnabledIsFilterVerdict, got %r" % r.violated)
    ctx.cov["spec_mutation_F2Bug"] = "EnabledIsFilterVerdict violated (as required)"

    cfg = "SpanGuard_quick.cfg" if ctx.quick else "SpanGuard_thorough.cfg"
    r = ctx.tlc("MCSpanGuard", cfg, workers=4 if ctx.quick else 8, timeout=1500, xmx="6g")
    if r.violated:
        ctx.spec_violation(r, "SpanGuard.tla: %s violated by the transcription of the guard"
                           % r.violated)
        return
    ctx.require_actions(r, ACTIONS, "SpanGuard")
    cases = os.path.join(ctx.out, "cases.ndjson")
    n = vlib.extract_printed(r.out_path, "REPLAY", cases)
    if n == 0:
        raise vlib.ToolError("TLC printed no cases")
    if not ctx.quick:
        os.remove(r.out_path)       # > 100 MB
    rep = _replay(ctx, bindir, cases, "graph")
    if rep["cases"] != n:
        raise vlib.ToolError("harness decided %d of %d cases" % (rep["cases"], n))
    with open(cases) as f:
        done = 0
        for i, line in enumerate(f):
            c = json.loads(line)
            if c["done"] and c["expect"] and (i % 997 == 0 or done < 2):
                ctx.sample(c)
                done += 1
            if done >= 4:
                break

    if not ctx.quick:
        # long sequences: random behaviours of depth 40
        rs = ctx.tlc("MCSpanGuard", "SpanGuard_sim.cfg", workers=4, simulate=3000, depth=40,
                     timeout=900, xmx="4g", label="SpanGuard_sim")
        if rs.violated:
            ctx.spec_violation(rs, "SpanGuard.tla: %s violated (simulation)" % rs.violated)
            return
        sim = os.path.join(ctx.out, "cases-sim.ndjson")
        ns = vlib.extract_printed(rs.out_path, "REPLAY", sim)
        os.remove(rs.out_path)
        if ns == 0:
            raise vlib.ToolError("TLC simulation printed no cases")
        _replay(ctx, bindir, sim, "sim")
        ctx.cov["exhaustive"] = True    # the graph run above is exhaustive; simulation is extra

    ctx.assumptions += [
        "std::thread::panicking() is what 'panic unwinding' means (DropWhilePanicking = drop "
        "during catch_unwind'ed unwinding)",
        "the type-erased guard (Box<dyn ErasedProps>, boxed dyn ErasedCompletion) behaves like "
        "the statically typed chains: SpanGuard's methods are generic and do not inspect P / F",
        "macro forms are a fixed set of fixtures: #[span]/#[info_span] x {no result levels, "
        "ok_lvl+err_lvl, guard:} x {sync fn, async fn} with exits return / early return / ? / "
        "panic; attribute on blocks, `err:` mapper and `setup:` are not exercised",
        "result completions (ok/err) in direct guard use are built through the hidden "
        "emit::__private hooks the macro calls",
        "clock readings compared relationally (reading handed out during Start .. reading "
        "handed out during the terminal operation)",
        "bounded: %s" % vlib.cfg_header(os.path.join(vlib.SPEC, cfg)),
    ]
