"""C17 - level filtering follows the most specific module rule.

M: TLC explores every sequence of <= N registrations / default settings of spec/Level.tla and
   checks that the trie (level B, the code's data structure) refines the map (level A, the
   statement): TrieRefinesMap, ChildrenSorted, RegisterLocal.
G: every transition of that state graph is printed (history + predicted minimum per module)
   and replayed on the real MinLevelPathMap / MinLevelFilter; `matches` is compared for every
   module x level token x construction path.  The lenient parse of the textual tokens is the
   specification's (spec/LevelParse.tla), printed by TLC.
   The documented matching rule (`Path::is_child_of`, doc of MinLevelPathMap): level B of the relation
   (byte offsets, is_char_boundary, split_at) must be the ancestor-or-self relation on every pair of
   paths (ChildOfIsSelfOrAncestor), and the trie must answer the level of the most specific registered
   path the module is_child_of (MapMatchesByIsChildOf); the CHILDOF table is replayed on the real
   is_child_of for every pair x path form, and every transition's governing path is found again by a
   linear scan with the real is_child_of.
"""
import json
import os

import vlib


def run(ctx):
    cfg = "Level_quick.cfg" if ctx.quick else "Level_thorough.cfg"
    r = ctx.tlc("MCLevel", cfg, workers=4 if ctx.quick else 6, timeout=3000, xmx="8g")
    if r.violated:
        ctx.spec_violation(r, "Level.tla: %s violated by the transcription of the trie" % r.violated)
        return
    ctx.require_actions(r, ["Register", "SetDefault"], "Level")
    cases = os.path.join(ctx.out, "cases.ndjson")
    n = vlib.extract_printed(r.out_path, "REPLAY", cases)
    rc = ctx.replay_case()
    only_row = None
    if rc is not None:      # --replay: only the stored case (a transition, or a row of the CHILDOF table)
        if isinstance(rc.get("case"), dict) and "childof" in rc["case"]:
            only_row = rc["case"]["childof"]
            open(cases, "w").close()
        else:
            with open(cases, "w") as f:
                f.write(json.dumps(rc["case"]) + "\n")
        n = 1
    toks = os.path.join(ctx.out, "tokens.json")
    tl = list(vlib.iter_printed(r.out_path, "TOKENS"))
    if not tl or n == 0:
        raise vlib.ToolError("TLC printed no cases / token table")
    with open(toks, "w") as f:
        f.write(tl[0])
    childof = os.path.join(ctx.out, "childof.json")
    cl = list(vlib.iter_printed(r.out_path, "CHILDOF"))
    if not cl:
        raise vlib.ToolError("TLC printed no CHILDOF table")
    with open(childof, "w") as f:
        f.write(json.dumps([only_row]) if only_row is not None else cl[0])
    bindir = ctx.cargo_build("vh_core", bins=["c17_level"])
    rep_path = os.path.join(ctx.out, "report.json")
    ctx.run_harness(os.path.join(bindir, "c17_level"), [cases, toks, rep_path, childof])
    rep = json.load(open(rep_path))
    ctx.cov["traces_validated_against_impl"] += rep["cases"]
    ctx.cov["impl_checks"] = rep["checks"]
    ctx.cov["childof_pairs"] = rep.get("extra", {}).get("childof_pairs", 0)
    if not ctx.cov["childof_pairs"]:
        raise vlib.ToolError("the harness did not replay the CHILDOF table")
    with open(cases) as f:
        first = f.readline()
        ctx.sample(json.loads(first) if first.strip() else {"childof": only_row})
        for _ in range(min(n - 2, 5000)):
            f.readline()
        if n > 1:
            ctx.sample(json.loads(f.readline()))
    ctx.assumptions += [
        "std's binary search contract on sorted, duplicate-free vectors",
        "is_child_of on valid paths only (its doc: undefined on invalid ones); é stands for the multi-byte characters",
        "segment order in the model = byte order of the segment texts (checked by construction of SegName)",
        "bounded: %s" % vlib.cfg_header(os.path.join(vlib.SPEC, cfg)),
    ]
    for m in rep["mismatches"]:
        ctx.violation("C17 %s: %s" % (m["what"], json.dumps(m["detail"])[:300]), m)
