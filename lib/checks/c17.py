"""C17 - level filtering follows the most specific module rule.

M: TLC explores every sequence of <= N registrations / default settings of spec/Level.tla and
   checks that the trie (level B, the code's data structure) refines the map (level A, the
   statement): TrieRefinesMap, ChildrenSorted, RegisterLocal.
G: every transition of that state graph is printed (history + predicted minimum per module)
   and replayed on the real MinLevelPathMap / MinLevelFilter; `matches` is compared for every
   module x level token x construction path.  The lenient parse of the textual tokens is the
   specification's (spec/LevelParse.tla), printed by TLC.
"""
import json
import os

import vlib


def run(ctx):
    cfg = "Level_quick.cfg" if ctx.quick else "Level_thorough.cfg"
    r = ctx.tlc("MCLevel", cfg, workers=4 if ctx.quick else 12, timeout=3000, xmx="8g")
    if r.violated:
        ctx.spec_violation(r, "Level.tla: %s violated by the transcription of the trie" % r.violated)
        return
    ctx.require_actions(r, ["Register", "SetDefault"], "Level")
    cases = os.path.join(ctx.out, "cases.ndjson")
    n = vlib.extract_printed(r.out_path, "REPLAY", cases)
    rc = ctx.replay_case()
    if rc is not None:      # --replay: only the stored case
        with open(cases, "w") as f:
            f.write(json.dumps(rc["case"]) + "\n")
        n = 1
    toks = os.path.join(ctx.out, "tokens.json")
    tl = list(vlib.iter_printed(r.out_path, "TOKENS"))
    if not tl or n == 0:
        raise vlib.ToolError("TLC printed no cases / token table")
    with open(toks, "w") as f:
        f.write(tl[0])
    bindir = ctx.cargo_build("vh_core", bins=["c17_level"])
    rep_path = os.path.join(ctx.out, "report.json")
    ctx.run_harness(os.path.join(bindir, "c17_level"), [cases, toks, rep_path])
    rep = json.load(open(rep_path))
    ctx.cov["traces_validated_against_impl"] += rep["cases"]
    ctx.cov["impl_checks"] = rep["checks"]
    with open(cases) as f:
        ctx.sample(json.loads(f.readline()))
        for _ in range(min(n - 2, 5000)):
            f.readline()
        if n > 1:
            ctx.sample(json.loads(f.readline()))
    ctx.assumptions += [
        "std's binary search contract on sorted, duplicate-free vectors",
        "segment order in the model = byte order of the segment texts (checked by construction of SegName)",
        "bounded: %s" % vlib.cfg_header(os.path.join(vlib.SPEC, cfg)),
    ]
    for m in rep["mismatches"]:
        ctx.violation("C17 %s: %s" % (m["what"], json.dumps(m["detail"])[:300]), m)
