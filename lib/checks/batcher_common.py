"""C06-C09: the batching channel (emit_batcher).

M  spec/Batcher.tla (level B, implementation-shaped) is checked exhaustively by TLC for several
   small configurations (safety invariants) and under fairness (liveness, C08).
S  every transition of those state graphs is printed as a schedule and forced on the real
   Sender / Receiver::exec / sync::blocking_* through the scheduling-point hook; the lock-held
   snapshots, on_batch arguments, delays, results and metrics are compared after every step.
T  the observable (level A) trace of every divergent replay, of a sample of the others and of
   OS-scheduled stress runs of the real sync/tokio workers is validated by TLC against
   spec/ChannelTrace.tla.  Only a level-A rejection (or a hang) is a VIOLATION; a replay that
   differs from level B but is accepted at level A is MODEL-DRIFT (reported, exit 0).
"""
import json
import os
import subprocess

import vlib

# which property a design-level invariant / a rejected level-A event belongs to
INV_PROP = {
    "Partition": "C06", "StatusConsistent": "C06", "TruncCounted": "C06",
    "FlushMeansDone": "C07", "FlushRetTruthful": "C07",
    "RetryBounded": "C08", "BackoffBounded": "C08", "CallbackOnce": "C08",
    "TemporalProperty": "C08", "Deadlock": "C08",
    "Bounded": "C09", "SendNeverWaits": "C09", "TypeOK": "C06",
}
EV_PROP = {
    "WaitBudget": "C08+C09", "SendCall": "C09", "Send": "C09", "TrySend": "C09", "SendRet": "C09",
    "Take": "C06", "TakeEmpty": "C06", "Call": "C06", "Ret": "C06",
    "FlushReq": "C07", "Fired": "C07", "FlushRet": "C07", "EmptyReq": "C08", "EmptyFired": "C08",
    "CallerPanicked": "C08", "RecvPanicked": "C08+C06", "Wait": "C08", "Exit": "C08+C06", "End": "C08+C06", "Closing": "C08", "Closed": "C08", "Reset": "C08",
}
ACTIONS = ["Send", "TrySend", "WhenEmpty", "SendWake", "WhenFlushed", "FlushRet", "DropSender",
           "RecvTake", "IdleWake", "AttemptEnd", "RetryWake"]

QUICK = ["q1", "q2", "q3", "q4", "q5", "q6", "q7", "q8", "kill"]
QUICK_EVERY = {"q1": 3, "q2": 8, "q3": 2, "q4": 3, "q5": 1, "q6": 4, "q7": 1, "q8": 2, "kill": 4}     # quick: seeded sample of the transitions
THOROUGH = ["q1", "q2", "q3", "q4", "q5", "q6", "q7", "q8", "kill", "t3", "t1", "t2", "t1sim", "t2sim"]
SIM_BEHAVIOURS = 6000     # per worker
NSHARDS = 12


def attribute(t, evn, idx, inv):
    """Which property a level-A rejection belongs to."""
    p = "C09" if inv in ("QueueBounded",) else "C06" if inv == "AccNoDup" else EV_PROP.get(evn.get("ev"), "C06")
    if (evn.get("ev") == "Send" and evn.get("pushed") and not evn.get("trunc")) or \
            (evn.get("ev") == "TrySend" and evn.get("code") == 0):
        # the queue length the hook saw under the lock does not continue the previous critical
        # section's: items vanished (or appeared) between two critical sections without a hand-over
        for prev in reversed(t["trace"][:idx]):
            if prev.get("ev") in ("Take", "TakeEmpty", "Reset"):
                break
            if prev.get("ev") in ("Send", "TrySend") and "qlen" in prev:
                if "qlen" in evn and evn["qlen"] != prev["qlen"] + 1:
                    p = "C06"
                break
    if evn.get("ev") == "TrySend":
        # a fallible-send critical section for an item that was handed to the PLAIN send: the plain send is no longer
        # its one critical section (e.g. a try_send fast path followed by a clear in a second one), which loses accepted
        # items when anything happens in between (C06) and breaks the overflow rule (C09)
        for prev in reversed(t["trace"][:idx]):
            if prev.get("ev") == "SendCall" and prev.get("item") == evn.get("item"):
                if prev.get("kind") == "send":
                    p = "C06+C09"
                break
    if evn.get("ev") == "SendRet" and evn.get("res") == "sent":
        p = "C06"          # a plain send returned without a critical section of its own: the item is lost silently
    if evn.get("ev") == "CallerPanicked" and evn.get("op") == "send":
        p = "C08+C09"
    if evn.get("ev") == "Ret":
        p = "C06+C08"      # retry policy: re-delivery of the remainder / per-batch budget
    if evn.get("ev") in ("Take", "TakeEmpty") and idx > 0 and t["trace"][idx - 1].get("ev") == "Ret":
        p = "C06+C08"      # the receiver moved on although the remainder had to be retried
    if evn.get("ev") == "Call" and idx > 1 and t["trace"][idx - 1].get("ev") == "Wait" \
            and t["trace"][idx - 2].get("ev") == "Ret":
        p = "C06+C08"      # a retry after a back-off that is not explainable (decreasing delay)
    if evn.get("ev") == "Fired" and sum(1 for e in t["trace"][:idx] if e.get("ev") == "Fired" and e.get("w") == evn.get("w")):
        p = "C08"          # fired twice
    return p


def monitor_selftest(ctx, traces):
    import copy
    done = {"corrupt": False, "drop": False}
    for t in traces:
        evs = t["trace"]
        takes = [i for i, e in enumerate(evs) if e.get("ev") == "Take"]
        sends = [i for i, e in enumerate(evs) if e.get("ev") == "Send"]
        if not takes or not sends or evs[-1].get("ev") != "End":
            continue
        variants = []
        if not done["corrupt"]:
            c = copy.deepcopy(evs)
            c[sends[0]]["trunc"] = not c[sends[0]]["trunc"]
            variants.append(("corrupt", c))
        if not done["drop"]:
            d = copy.deepcopy(evs)
            del d[takes[0]]
            variants.append(("drop", d))
        for kind, v in variants:
            path = os.path.join(ctx.out, "selftest-%s.ndjson" % kind)
            with open(path, "w") as f:
                for e in v:
                    f.write(json.dumps(e) + "\n")
            r = ctx.validate_trace("ChannelTrace", "ChannelTrace.cfg", path, label="selftest-" + kind)
            if r.violated is None:
                raise vlib.ToolError("monitor self-test: a trace with a %s event was accepted" % (
                    "corrupted Send.trunc" if kind == "corrupt" else "removed Take"))
            done[kind] = True
        if all(done.values()):
            break
    ctx.cov["monitor_selftest"] = done


def unbounded_bound(ctx):
    """C09's bound for every capacity and any number of items: TLAPS proves Spec => []Bounded on
    the distilled queue discipline spec/BatcherCore.tla; TLC checks that Batcher.tla implements
    BatcherCore (refinement).  The proof is an additional argument: if the prover is not
    available or times out, that is recorded, it does not change the verdict."""
    import shutil
    import subprocess
    import re
    r = ctx.tlc("MCBatcher", "Batcher_refine.cfg", workers=6, timeout=900, label="refine", coverage=False)
    if r.violated:
        ctx.spec_violation(r, "Batcher.tla does not implement BatcherCore.tla (%s)" % r.violated)
        return
    info = {"refinement_states": r.distinct, "prover": "tlapm", "status": "not run"}
    work = os.path.join(ctx.out, "tlaps")
    os.makedirs(work, exist_ok=True)
    shutil.copy(os.path.join(vlib.SPEC, "BatcherCore.tla"), work)
    try:
        p = subprocess.run(["tlapm", "--threads", "4", "BatcherCore.tla"], cwd=work, timeout=600,
                           stdout=subprocess.PIPE, stderr=subprocess.STDOUT, text=True)
        m = re.search(r"All (\d+) obligations? proved", p.stdout)
        if m:
            info.update(status="proved", obligations=int(m.group(1)), discharged=int(m.group(1)),
                        theorem="BatcherCore!Safety: Spec => []Bounded, for all Cap >= 1 and all item sets")
        else:
            info.update(status="not proved", output=p.stdout[-600:])
    except (OSError, subprocess.TimeoutExpired) as e:
        info.update(status="prover unavailable or timed out: %s" % e)
    ctx.cov["unbounded"] = info
    vlib.log("[tlaps] BatcherCore: %s" % info.get("status"))


def ledger_phase(ctx, prop):
    """The unbounded argument behind C06-C09: TLAPS proves BatcherLedger!Safety (NothingLost,
    NothingTwice, InOrder, FlushMeansDone, RetryBounded, Bounded for every capacity, retry budget,
    number of items and number of watchers); TLC checks that Batcher.tla - the specification the
    code is bound to - implements BatcherLedger under the mapping in MCBatcher.tla, for five
    constant sets.  A refinement failure is a design violation; an unavailable or timed-out prover
    is recorded and does not change the verdict."""
    import shutil
    import subprocess
    import re
    states = 0
    for k in (1, 2, 3, 4, 5):
        r = ctx.tlc("MCBatcher", "Batcher_ledger%d.cfg" % k, workers=6, timeout=900,
                    label="ledger%d" % k, coverage=False)
        if r.violated:
            ctx.spec_violation(r, "Batcher.tla does not implement BatcherLedger.tla (ledger%d: %s)" % (k, r.violated))
            return
        states += r.distinct or 0
    info = {"refinement_configs": 5, "refinement_states": states, "prover": "tlapm", "status": "not run"}
    work = os.path.join(ctx.out, "tlaps-ledger")
    os.makedirs(work, exist_ok=True)
    shutil.copy(os.path.join(vlib.SPEC, "BatcherLedger.tla"), work)
    try:
        p = subprocess.run(["tlapm", "--threads", "4", "BatcherLedger.tla"], cwd=work, timeout=900,
                           stdout=subprocess.PIPE, stderr=subprocess.STDOUT, text=True)
        m = re.search(r"All (\d+) obligations? proved", p.stdout)
        if m:
            info.update(status="proved", obligations=int(m.group(1)), discharged=int(m.group(1)),
                        theorem="BatcherLedger!Safety: Spec => []Safe, for all Cap >= 1, MaxRetry, items, watchers")
        else:
            info.update(status="not proved", output=p.stdout[-600:])
    except (OSError, subprocess.TimeoutExpired) as e:
        info.update(status="prover unavailable or timed out: %s" % e)
    ctx.cov["unbounded_ledger"] = info
    vlib.log("[tlaps] BatcherLedger: %s (%s obligations); refinement %d states" % (
        info.get("status"), info.get("obligations", "-"), states))


def repo_tests_phase(ctx, prop):
    """Existing tests, stronger oracle: the unmodified test suites of emit_batcher (and, in the
    thorough tier or for C08, emit_file and emit_otlp, whose workers run on the channel) are run
    with the hooks' file tracer on; every channel's recorded lock-held state must evolve by the
    rules of Batcher.tla's critical sections (spec/HookTrace.tla)."""
    import subprocess
    trace = os.path.join(ctx.out, "hook-trace.raw")
    if os.path.exists(trace):
        os.remove(trace)
    e = vlib.cargo_env()
    e["RUSTFLAGS"] = "--cfg emit_rs_emit_verif --check-cfg cfg(emit_rs_emit_verif)"
    e["CARGO_TARGET_DIR"] = os.path.join(vlib.HARNESS, "target", "repo-tests")
    e["EMIT_BATCHER_VERIF_TRACE"] = trace
    suites = [["-p", "emit_batcher", "--features", "tokio"], ["-p", "emit_file"]]
    if not ctx.quick:
        suites.append(["-p", "emit_otlp"])
    ran = []
    for sfx in suites:
        p = subprocess.run(["cargo", "test", "--offline"] + sfx, cwd=vlib.REPO, env=e, timeout=1500,
                           stdout=subprocess.PIPE, stderr=subprocess.STDOUT, text=True)
        ok = p.returncode == 0
        ran.append({"suite": " ".join(sfx), "passed": ok})
        if not ok:
            vlib.log("[repo-tests] %s did not pass with the hooks on (not a verdict):\n%s" % (sfx, p.stdout[-800:]))
    if not os.path.exists(trace):
        raise vlib.ToolError("the repository's tests produced no hook trace")
    evs, torn = [], 0
    for line in open(trace):
        try:
            evs.append(json.loads(line))
        except ValueError:
            torn += 1       # a test process exited while its worker thread was writing a line
    if torn > 5:
        raise vlib.ToolError("%d unparsable lines in the hook trace" % torn)
    evs.sort(key=lambda x: (x["pid"], x["seq"]))
    path = os.path.join(ctx.out, "hook-trace.ndjson")
    with open(path, "w") as f:
        for x in evs:
            f.write(json.dumps(x) + "\n")
    r = ctx.validate_trace("HookTrace", "HookTrace.cfg", path, label="tv-hooktrace")
    ctx.cov["repo_tests"] = {"suites": ran, "hook_events": len(evs),
                             "channels": len(set((x["pid"], x["chan"]) for x in evs if x["snap"]))}
    ctx.cov["traces_validated_against_impl"] += len(set(x["pid"] for x in evs))
    if r.violated:
        rej = list(vlib.iter_printed_raw(r.out_path, "REJECTED"))
        n = int(rej[0].split(",")[0]) if rej else 0
        bad = evs[n - 1] if n else {}
        pmap = {"send": "C09", "try_send": "C09", "when_flushed": "C07", "take": "C06", "take_empty": "C06",
                "attempt": "C06", "batch_end": "C08", "exec_return": "C08"}
        owner = pmap.get(bad.get("kind"), "C06")
        what = "HookTrace.tla rejects an execution of the repository's own tests at event %s" % json.dumps(bad)[:300]
        if owner == prop or owner not in ("C06", "C08"):
            ctx.violation(what, {"kind": "hook-trace", "events": [x for x in evs if x["pid"] == bad.get("pid")
                                                                   and x["chan"] == bad.get("chan")][:200]},
                          signature="hooktrace " + str(bad.get("kind")))
        else:
            ctx.cov.setdefault("violations_of_sibling_properties", []).append("%s: %s" % (owner, what[:200]))


def file_store_phase(ctx, only=None):
    """C09 carry-through, storage side: spec/FileChan.tla (emit_file's EventBatch as an emit_batcher::Channel, with
    the buffers it retains as state) and its eager behaviours replayed on a real FileSet whose worker is parked in an
    injected filesystem, the live heap measured by a counting allocator (harness c09_file_store)."""
    t = "quick" if ctx.quick else "thorough"
    r = ctx.tlc("FileChan", "FileChan_%s.cfg" % t, workers=2, timeout=600, xmx="2g", label="FileChan")
    if r.violated:
        ctx.spec_violation(r, "C09 carry-through to rolling files: FileChan.tla: %s violated by the transcription of EventBatch" % r.violated)
        return
    ctx.require_actions(r, ["Send", "Take", "Finish"], "FileChan")
    rb = ctx.tlc("FileChan", "FileChan_lazy.cfg", workers=1, timeout=900, xmx="1g", coverage=False,
                 expect_violation=True, count=False, label="FileChan_lazy")
    if rb.violated != "StoreBounded":
        raise vlib.ToolError("FileChan_lazy.cfg: a clear that only moves the cursor no longer violates StoreBounded (%s)" % rb.violated)
    rr = ctx.tlc("FileChan", "FileChan_replay_%s.cfg" % t, workers=1, timeout=600, xmx="2g", label="FileChan_replay")
    if rr.violated:
        ctx.spec_violation(rr, "FileChan.tla (eager behaviours): %s" % rr.violated)
        return
    cases = os.path.join(ctx.out, "filechan-cases.ndjson")
    lines = sorted(set(vlib.iter_printed(rr.out_path, "REPLAY")))
    if only is not None:
        lines = [json.dumps(only)]
    if not lines:
        raise vlib.ToolError("FileChan: TLC printed no behaviours")
    with open(cases, "w") as f:
        for l in lines:
            f.write(l + "\n")
    bindir = ctx.cargo_build("vh_file", bins=["c09_file_store"])
    rep_path = os.path.join(ctx.out, "filechan-report.json")
    ctx.run_harness(os.path.join(bindir, "c09_file_store"), [cases, rep_path])
    rep = json.load(open(rep_path))
    ctx.cov["traces_validated_against_impl"] += rep["cases"]
    ctx.cov["file_channel_storage"] = {"behaviours": rep["cases"], "steps_measured": rep["checks"], "lazy_design_violates": rb.violated,
                                       **rep["extra"]}
    ctx.assumptions.append("FileChan: one model event is one real event of 256 KiB; the live heap of the process above a warmed-up "
                           "baseline is compared with (pending + in flight) events after every step, slack half an event")
    for m in rep["mismatches"]:
        ctx.violation("C09 carry-through to rolling files: %s: %s" % (m["what"], json.dumps(m["detail"])[:300]),
                      {"file_store": m["case"]}, signature="filechan " + m["what"])
    if only is None and not rep["mismatches"] and not rep["extra"].get("cases_with_truncations"):
        raise vlib.ToolError("vacuity: no replayed behaviour of FileChan.tla had a truncation")


def flush_trees(ctx):
    """Carry-through of a flush through destination combinators: spec/Flush.tla (M) and its
    cases replayed on the real And/Option/Box/Arc/&/erased/wrap/Runtime (G)."""
    r = ctx.tlc("Flush", "Flush_quick.cfg" if ctx.quick else "Flush_thorough.cfg", workers=4,
                timeout=1800, label="flush")
    if r.violated:
        ctx.spec_violation(r, "Flush.tla: %s violated by the transcription of And::blocking_flush" % r.violated)
        return
    ctx.require_actions(r, ["DoFlush"], "Flush")
    cases = os.path.join(ctx.out, "flush-cases.ndjson")
    n = vlib.extract_printed(r.out_path, "REPLAY", cases)
    os.remove(r.out_path)
    bindir = ctx.cargo_build("vh_core", bins=["c07_flushtree"])
    rep = os.path.join(ctx.out, "flush-report.json")
    ctx.run_harness(os.path.join(bindir, "c07_flushtree"), [cases, rep])
    rj = json.load(open(rep))
    ctx.cov["traces_validated_against_impl"] += rj["checks"]
    ctx.cov["flush_tree_cases"] = n
    if rj["extra"].get("model_budget_differs"):
        ctx.cov["drift"].append({"config": "flush", "what": ["time budgets differ from the halving design (statement only bounds their sum)"]})
    for m in rj["mismatches"]:
        ctx.violation("C07 flush through combinators: %s: %s" % (m["what"], json.dumps(m["detail"])[:300]), m,
                      signature="flushtree " + m["what"])
    with open(cases) as f:
        for _ in range(min(n - 1, 5000)):
            f.readline()
        ctx.sample({"flush_tree_case": json.loads(f.readline())})


def file_e2e(ctx):
    """Carry-through to rolling files: a real FileSet on the real filesystem, emitting threads and
    flushes at seeded moments; the recorded trace is validated by TLC against spec/SinkFlush.tla."""
    bindir = ctx.cargo_build("vh_file", bins=["c07_file_e2e"])
    scratch = os.path.join(ctx.out, "e2e")
    os.makedirs(scratch, exist_ok=True)
    trace = os.path.join(ctx.out, "sinkflush.ndjson")
    rounds = 60 if ctx.quick else 600
    ctx.run_harness(os.path.join(bindir, "c07_file_e2e"), [scratch, trace, rounds], timeout=1200)
    r = ctx.validate_trace("SinkFlush", "SinkFlush.cfg", trace, label="tv-sinkflush")
    ctx.cov["traces_validated_against_impl"] += rounds
    ctx.cov["file_e2e_rounds"] = rounds
    if r.violated:
        rej = list(vlib.iter_printed_raw(r.out_path, "REJECTED"))
        n = int(rej[0].split(",")[0]) if rej else 0
        lines = open(trace).read().splitlines()
        start = max(i for i in range(n) if '"Reset"' in lines[i]) if n else 0
        ctx.violation("C07 carry-through to rolling files: SinkFlush.tla rejects event %d %s" % (
            n - start, lines[n - 1][:300] if n else ""),
            {"kind": "sinkflush-trace", "trace": [json.loads(x) for x in lines[start:n]]},
            signature="sinkflush")


def run(ctx, prop):
    other = []          # violations that belong to a sibling property (reported by its check)
    drift = ctx.cov["drift"]

    def report(p, what, replay, sig=None):
        if prop in p.split("+"):
            ctx.violation(what, replay, signature=sig)
        else:
            other.append("%s: %s" % (p, what[:200]))

    # ------------------------------------------------------------------ replay of an OTLP carry-through case
    rc0 = ctx.replay_case()
    if isinstance(rc0, dict) and ("otlp_flush" in rc0 or "otlp_bounded" in rc0):
        from checks import otlp_common
        if "otlp_flush" in rc0:
            otlp_common.otlp_flush_phase(ctx, only=rc0["otlp_flush"])
        else:
            otlp_common.otlp_bounded_phase(ctx, only=rc0["otlp_bounded"])
        return
    if isinstance(rc0, dict) and "file_store" in rc0:
        file_store_phase(ctx, only=rc0["file_store"])
        return

    # ------------------------------------------------------------------ C07: flush through combinators
    if prop == "C07" and ctx.replay_case() is None:
        flush_trees(ctx)
        file_e2e(ctx)
        # rolling files over an injected filesystem with faults and stalls (FileEmitterTrace.tla)
        from checks import fileset_common
        fileset_common.file_emitter_phase(ctx, "C07", clauses=("flush",))
        # ... and to OTLP: a flush that returned true => every event emitted before it is in an
        # acknowledged request (OtlpTrace.tla decides recorded runs)
        from checks import otlp_common
        otlp_common.otlp_flush_phase(ctx)
    if prop == "C09" and ctx.replay_case() is None:
        unbounded_bound(ctx)
        from checks import fileset_common
        fileset_common.file_emitter_phase(ctx, "C09", clauses=("bounded",))
        # the OTLP emitter's own Channel implementation obeys the same bound (OtlpChan.tla)
        from checks import otlp_common
        otlp_common.otlp_bounded_phase(ctx)
        # ... and what emit_file's channel keeps alive is what is pending (FileChan.tla)
        file_store_phase(ctx)

    # ------------------------------------------------------------------ the unbounded ledger
    if ctx.replay_case() is None:
        ledger_phase(ctx, prop)

    # ------------------------------------------------------------------ the repository's own tests
    if prop in ("C06", "C08") and ctx.replay_case() is None:
        repo_tests_phase(ctx, prop)

    # ------------------------------------------------------------------ M: liveness (C08)
    if prop == "C08" or not ctx.quick:
        for lc in ("live", "live2"):
            r = ctx.tlc("MCBatcher", "Batcher_%s.cfg" % lc, workers=8, timeout=1800, label=lc)
            if r.violated:
                report("C08", "Batcher.tla liveness violated (%s, %s)" % (r.violated, lc),
                       {"kind": "tlc-counterexample", "counterexample": r.counterexample[:80]})

    # ------------------------------------------------------------------ M + S
    bindir = ctx.cargo_build("vh_batcher", bins=["batcher_replay", "batcher_stress"])
    exe = os.path.join(bindir, "batcher_replay")
    rc = ctx.replay_case()
    names = QUICK if ctx.quick else THOROUGH
    all_traces = []
    crashed = []
    total_cases = 0
    for name in names:
        cfg = "Batcher_%s.cfg" % name
        if not os.path.exists(os.path.join(vlib.SPEC, cfg)):
            continue
        sim = name.endswith("sim")
        if sim:
            r = ctx.tlc("MCBatcher", cfg, workers=4, simulate=SIM_BEHAVIOURS, depth=60, timeout=3000,
                        xmx="6g", label=name)
        else:
            r = ctx.tlc("MCBatcher", cfg, workers=8, timeout=3000, xmx="10g", label=name)
        if r.violated:
            report(INV_PROP.get(r.violated, "C06"),
                   "Batcher.tla (%s): invariant %s violated by the design" % (name, r.violated),
                   {"kind": "tlc-counterexample", "counterexample": r.counterexample[:80]})
            continue
        must = [a for a in ACTIONS if not (a in ("WhenEmpty", "SendWake") and name in ("q2", "q3", "q4", "q5", "q7", "q8", "t3"))
                and not (a == "TrySend" and name in ("t3", "q4", "q5", "q7"))
                and not (a == "RetryWake" and name == "q4" and False)]
        if name == "q4":
            must += ["CbReturn", "WhenEmptyCb"]
        if name == "q8":
            must += ["WhenEmptyCb"]
        if name == "q5":
            must = [a for a in must if a not in ("WhenFlushed", "FlushRet")]
        if not sim:
            ctx.require_actions(r, must, name)
        cases = os.path.join(ctx.out, "cases-%s.ndjson" % name)
        every = QUICK_EVERY.get(name, 1) if ctx.quick else 1
        keep = None if every == 1 else (lambda i: (i * 2654435761 + ctx.seed) % every == 0)
        n = vlib.extract_printed(r.out_path, "REPLAY", cases, keep)
        confp = os.path.join(ctx.out, "config-%s.json" % name)
        with open(confp, "w") as f:
            f.write(next(vlib.iter_printed(r.out_path, "CONFIG")))
        os.remove(r.out_path)       # hundreds of MB
        if rc is not None and rc.get("config") == name:
            with open(cases, "w") as f:
                f.write(json.dumps(rc["case"]) + "\n")
            n = 1
        elif rc is not None:
            continue
        total_cases += n
        procs = []
        for i in range(NSHARDS):
            rep = os.path.join(ctx.out, "rep-%s-%d.json" % (name, i))
            e = vlib.cargo_env()
            e["VH_SAMPLE_EVERY"] = "100" if ctx.quick else "60"
            e["VH_REPLAY_EVERY"] = "1"
            e["VERIF_SEED"] = str(ctx.seed)
            procs.append((rep, subprocess.Popen([exe, confp, cases, rep, str(i), str(NSHARDS)],
                                                cwd=ctx.out, env=e, stdout=subprocess.PIPE,
                                                stderr=subprocess.PIPE, text=True)))
        for rep, p in procs:
            try:
                out, err = p.communicate(timeout=3000)
            except subprocess.TimeoutExpired:
                p.kill()
                raise vlib.ToolError("batcher_replay timed out")
            if p.returncode < 0 and os.path.exists(rep + ".cur"):
                # the code under test took the whole process down (abort / a panic while unwinding):
                # that is an observation, not a tool failure
                ln = int(open(rep + ".cur").read().strip() or 0)
                case = None
                with open(cases) as f:
                    for k, line in enumerate(f):
                        if k + 1 == ln:
                            case = json.loads(line)
                            break
                crashed.append({"config": name, "signal": -p.returncode, "line": ln, "case": case,
                                "stderr": err[-600:]})
                continue
            if p.returncode != 0:
                raise vlib.ToolError("batcher_replay failed: %s %s" % (out[-2000:], err[-2000:]))
            rj = json.load(open(rep))
            ctx.cov["traces_validated_against_impl"] += rj["cases"]
            ctx.cov["replay_steps"] = ctx.cov.get("replay_steps", 0) + rj["checks"]
            with open(rep + ".traces") as f:
                for line in f:
                    t = json.loads(line)
                    t["config"] = name
                    all_traces.append(t)
        if n > 0:
            with open(cases) as f:
                first = f.readline()
                for _ in range(min(n - 2, 3000)):
                    f.readline()
                mid = f.readline() if n > 2 else first
            ctx.sample({"config": name, "schedule": [[s["who"], s["act"]] for s in json.loads(mid)["steps"]]})
        os.remove(cases)
    for c in crashed[:3]:
        sched_ = [[s_["who"], s_["act"]] for s_ in (c["case"] or {}).get("steps", [])]
        report("C08+C09", "the process was killed by signal %d while the real channel was driven through a schedule "
               "of Batcher.tla (%s): a panic that escapes the channel or strikes while unwinding takes the "
               "caller down; schedule: %s" % (c["signal"], c["config"], json.dumps(sched_)[:600]),
               {"kind": "process-abort", "config": c["config"], "case": c["case"], "signal": c["signal"],
                "stderr": c["stderr"]},
               sig="%s:process-abort" % prop)
    ctx.cov["replay_process_aborts"] = len(crashed)
    import time as _t
    vlib.log("[replay] %d schedules forced on the real code, %d traces kept for level A (%d divergent)" % (
        total_cases, len(all_traces), sum(1 for t in all_traces if t["divergent"])))

    # ------------------------------------------------------------------ T: OS-scheduled stress
    if rc is None:
        stress = os.path.join(bindir, "batcher_stress")
        sout = os.path.join(ctx.out, "stress.traces")
        rounds = 150 if ctx.quick else 1500
        ctx.run_harness(stress, [sout, rounds], timeout=1500)
        with open(sout) as f:
            for line in f:
                t = json.loads(line)
                t["config"] = "stress"
                t["divergent"] = False
                t["hang"] = t.get("hang", False)
                t.setdefault("what", [])
                all_traces.append(t)

    # too many divergent replays (a broken tree): per configuration keep the longest and an even
    # sample of the rest
    div = [t for t in all_traces if t["divergent"] and not t["hang"]]
    if len(div) > 3000:
        keep = set()
        for cfgname in set(t["config"] for t in div):
            dc = [t for t in div if t["config"] == cfgname]
            dc.sort(key=lambda t: -len(t["trace"]))
            keep |= set(id(t) for t in dc[:300])
            rest = dc[300:]
            keep |= set(id(t) for t in rest[::max(1, len(rest) // 400)])
        all_traces = [t for t in all_traces if not t["divergent"] or t["hang"] or id(t) in keep]
        ctx.cov["divergent_replays_not_validated"] = len(div) - len(keep)

    # ------------------------------------------------------------------ hangs (C08)
    for t in all_traces:
        if t["hang"]:
            report("C08", "real code hung: %s" % "; ".join(t["what"])[:400],
                   {"config": t["config"], "case": t.get("case"), "trace": t["trace"]},
                   sig="hang " + t["config"])

    # ------------------------------------------------------------------ level A validation
    todo = [t for t in all_traces if not t["hang"]]
    # divergent ones first, the configurations interleaved, so a few rejections show their variety
    import itertools
    bycfg = {}
    for t in todo:
        bycfg.setdefault((not t["divergent"], t["config"]), []).append(t)
    groups = [bycfg[k] for k in sorted(bycfg)]
    todo = [t for tup in itertools.zip_longest(*groups) for t in tup if t is not None]
    nval = 0
    rejected = []
    rounds = 0
    own = 0
    while todo and rounds < 45 and own < 6:
        rounds += 1
        path = os.path.join(ctx.out, "atrace-%d.ndjson" % rounds)
        starts = []
        pos = 1
        with open(path, "w") as f:
            for t in todo:
                starts.append(pos)
                for ev in t["trace"]:
                    f.write(json.dumps(ev) + "\n")
                pos += len(t["trace"])
        r = ctx.validate_trace("ChannelTrace", "ChannelTrace.cfg", path, timeout=1800, xmx="4g",
                               label="tv-%d" % rounds)
        if r.violated is None:
            nval += len(todo)
            break
        rej = list(vlib.iter_printed_raw(r.out_path, "REJECTED"))
        if r.violated in ("QueueBounded", "AccNoDup"):
            # an invariant of the monitor failed: find the trace from the depth
            n = max(1, r.depth)
        elif rej:
            n = int(rej[0].split(",")[0])
        else:
            raise vlib.ToolError("trace validation failed without a REJECTED line: %s" % vlib.tail_of(r.out_path, 30))
        k = max(i for i, s in enumerate(starts) if s <= n)
        t = todo[k]
        evn = t["trace"][min(n - starts[k], len(t["trace"]) - 1)]
        nval += k
        rejected.append((t, evn, n - starts[k], r.violated))
        if prop in attribute(t, evn, n - starts[k], r.violated).split("+"):
            own += 1
        todo = todo[k + 1:]
    ctx.cov["level_a_traces_validated"] = nval
    # demonstrate the binding on every run: an accepted trace with one corrupted field, and one
    # with a hook event removed, must be rejected by the monitor
    if not rejected and rc is None:
        monitor_selftest(ctx, [t for t in all_traces if not t["hang"]])
    ctx.cov["traces_validated_against_impl"] += sum(1 for t in all_traces if t["config"] == "stress")
    for t, evn, idx, inv in rejected:
        p = attribute(t, evn, idx, inv)
        report(p, "level A (ChannelTrace.tla) rejects the recorded execution at event %d %s (%s); level-B differences: %s" % (
            idx, json.dumps(evn), t["config"], "; ".join(t["what"])[:300]),
            {"config": t["config"], "case": t.get("case"), "trace": t["trace"], "rejected_at": idx},
            sig="%s %s" % (t["config"], evn.get("ev")))
    rej_ids = set(id(t) for t, _, _, _ in rejected)
    unval = set(id(t) for t in todo) if rejected and (own >= 6 or rounds >= 45) else set()
    for t in all_traces:
        if t["divergent"] and not t["hang"] and id(t) not in rej_ids and id(t) not in unval:
            if len(drift) < 10:
                drift.append({"config": t["config"], "what": t["what"][:3]})
            vlib.log("MODEL-DRIFT %s: %s" % (t["config"], "; ".join(t["what"])[:300]))
    if len(drift):
        ctx.cov["drift_total"] = sum(1 for t in all_traces if t["divergent"] and id(t) not in rej_ids and id(t) not in unval)
    if all_traces:
        ctx.sample({"level_a_trace": all_traces[len(all_traces) // 2]["trace"][:40]})
    ctx.cov["violations_of_sibling_properties"] = other[:10]
    ctx.assumptions += [
        "the scheduling-point hook parks threads only immediately before lock acquisitions, so a granted step is one critical section",
        "std Mutex/Condvar and the OS scheduler are trusted; tokio paths are exercised under OS scheduling only (stress traces)",
        "hook events are numbered while the state lock is held; harness events take numbers from the same counter",
        "retry budget and delay constants are compared at level B only (MODEL-DRIFT), the statement only requires bounded, non-decreasing",
    ]
