\* C14 OtlpCount quick: every script of MC_Scripts_quick (2 - 3 threads, <= 2 steps each over {discarded event, routed event}); the code's atomic counter; every interleaving. Exhaustive.
SPECIFICATION Spec
CONSTANTS
    Scripts <- MC_Scripts_quick
    Atomic = TRUE
    Emit = TRUE
INVARIANTS TypeOK CountExact NeverAhead EmitReplay
CHECK_DEADLOCK FALSE
