\* C02 thorough, collections: keys {"", a, b, é}; every tree of depth <= 1 over ALL leaves with <= 3 pairs
\* (205 leaves), plus every tree of depth <= 2 over 12 chosen leaves; same node kinds as quick.
\* Every collection is replayed under the 6 key storage forms of Props.tla (KeyForms) with lookup keys separate / from the same buffer / prefix slices of enumerated keys.
SPECIFICATION Spec
CONSTANTS
    KeyOrder <- MC_KeyOrder
    IdOrder <- MC_IdOrder
    NModes <- MC_NModes
    Seeds <- MC_Seeds
    Rights <- MC_Rights
    Wraps <- MC_Wraps
    SpanPrefix <- MC_SpanPrefix
    MetricPrefix <- MC_MetricPrefix
    Which = "trees_thorough"
    GrowLeaves <- MC_GrowLeaves
    MaxGrow = 0
    MacroGet = "bsearch_scan"
    Emit = TRUE
INVARIANTS GetIsFirst DedupOnceFirst UniqueClaimSound BreakStops EnumIsSpec SerIsEnum
ACTION_CONSTRAINT EmitReplay
CHECK_DEADLOCK FALSE
