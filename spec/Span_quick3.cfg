\* C04 quick (incoming): 1 thread, <= 3 spans (filter verdict free), <= 3 frames, no tasks, nesting <= 3; incoming ids pushed as trace id + span id, Span nodes with explicit trace_id / span_parent / span_id included.
\* as a trace id alone and as a span id alone (typed / hex / integer / SpanCtxt), spans and events under them, Frame::current; every transition replayed.
SPECIFICATION SSpec
CONSTANTS
    NThreads = 1
    StoreOf <- MC_Store1
    InstKind <- MC_Kind1
    NKeys = 3
    PropChoices <- MC_None
    DupChoices <- MC_NoDups
    Kinds <- MC_None
    Forms <- MC_None
    MaxFrames = 3
    MaxTasks = 0
    MaxDepth = 3
    Panics = TRUE
    Discards = FALSE
    MaxSpans = 3
    IncomingKinds <- MC_IncAll
    WithLazy = FALSE
    HasRng = TRUE
    ExplicitKinds <- MC_ExBoth
    PushLastWins = FALSE
    WithCancel = FALSE
    CancelOwnIds = FALSE
    CtxForms <- MC_Forms
    Emit = TRUE
VIEW sview
INVARIANTS InnermostWins NoTrace StackOK FrameIds AmbientIds OneTrace ParentIsEnclosing EventCarriesInnermost IdsDistinct
PROPERTIES Revert
ACTION_CONSTRAINT SEmitReplay
CHECK_DEADLOCK FALSE
