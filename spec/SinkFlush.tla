----------------------------- MODULE SinkFlush -----------------------------
(***************************************************************************)
(* C07, carry-through to the emitters built on the channel: when a flush   *)
(* of a sink (rolling files, ...) reports success, every event whose emit  *)
(* returned before the flush was requested is in the sink's output; the    *)
(* output never holds an event that was not emitted, and - when nothing    *)
(* failed - holds each event once.                                         *)
(*                                                                         *)
(* A monitor over traces recorded from the real emitter (code -> spec):    *)
(*   Reset                   a new, independent run                        *)
(*   Emit(id)                emit of event id returned                     *)
(*   FlushReq(w)             flush w is about to be requested              *)
(*   FlushRet(w, ret, seen)  flush w returned ret; seen = the event ids    *)
(*                           found in the sink's output after it returned  *)
(***************************************************************************)
EXTENDS Naturals, Sequences, FiniteSets, TLC, Json, IOUtils

Rec == ndJsonDeserialize(IOEnv.TRACE)

VARIABLES l, emitted, reqs
vars == <<l, emitted, reqs>>

E == Rec[l]
IsEv(name) == l <= Len(Rec) /\ E.ev = name /\ l' = l + 1
SeqSet(q) == {q[i] : i \in 1..Len(q)}

Init == l = 1 /\ emitted = {} /\ reqs = <<>>

Reset == IsEv("Reset") /\ emitted' = {} /\ reqs' = <<>>

Emit == IsEv("Emit") /\ E.id \notin emitted /\ emitted' = emitted \cup {E.id} /\ reqs' = reqs

FlushReq == IsEv("FlushReq") /\ E.w \notin DOMAIN reqs /\ reqs' = (E.w :> emitted) @@ reqs
            /\ emitted' = emitted

FlushRet ==
    /\ IsEv("FlushRet")
    /\ E.w \in DOMAIN reqs
    \* success means everything emitted before the request is in the output
    /\ E.ret => reqs[E.w] \subseteq SeqSet(E.seen)
    \* nothing that was never emitted; nothing twice (the runs inject no faults)
    /\ SeqSet(E.seen) \subseteq emitted
    /\ \A i, j \in 1..Len(E.seen) : i # j => E.seen[i] # E.seen[j]
    /\ UNCHANGED <<emitted, reqs>>

Next == Reset \/ Emit \/ FlushReq \/ FlushRet
Spec == Init /\ [][Next]_vars

TraceAccepted ==
    LET n == TLCGet("stats").diameter IN
    IF n - 1 = Len(Rec) THEN TRUE
    ELSE /\ PrintT(<<"REJECTED", n, ToJson(Rec[n])>>)
         /\ FALSE
=============================================================================
