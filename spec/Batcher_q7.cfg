\* Batcher q7: s1 = send,send; f1 = blocking flush (timeout 0) and then, on the same thread, f2 = blocking flush (no timeout); Cap 2, MaxRetry 10 (hard-coded by bounded()), <= 1 processor faults, FALSE remainders, receiver kill FALSE; idle spinning cut at 3 ms. Exhaustive.
SPECIFICATION Spec
CONSTANTS
    SenderOps <- Q7_SenderOps
    FlusherOps <- Q7_FlusherOps
    Cap = 2
    MaxRetry = 10
    MaxFail = 1
    AnyRemainder = FALSE
    NonEmptyRem = FALSE
    OutcomeSet = {"ok", "fail", "retry", "panic", "panicFut"}
    AllowKill = FALSE
    MaxIdleDelay = 3
    Emit = TRUE
VIEW view
CONSTRAINT IdleBound
INVARIANTS TypeOK Bounded Partition StatusConsistent TruncCounted FlushMeansDone FlushRetTruthful RetryBounded BackoffBounded CallbackOnce SendNeverWaits
ACTION_CONSTRAINT EmitReplay
CHECK_DEADLOCK FALSE
