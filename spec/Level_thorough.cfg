\* C17 thorough: 8 registrable paths (prefix-sharing siblings a/aa, b/bb, depth 3, non-ASCII),
\* 20 lookup modules (with byte-prefix / character-prefix siblings for is_child_of), 4 levels, every sequence of <= 4 registrations / default settings.
SPECIFICATION Spec
CONSTANTS
    SegName <- MC_SegName
    SegChars <- MC_SegChars
    RegPaths <- MC_RegPaths
    Modules <- MC_Modules
    Levels = {1, 2, 3, 4}
    MaxOps = 4
    Emit = TRUE
VIEW view
INVARIANTS TypeOK ChildrenSorted TrieRefinesMap MapMatchesByIsChildOf
PROPERTY RegisterLocal
ACTION_CONSTRAINT EmitReplay
CHECK_DEADLOCK FALSE
