\* Batcher ledger refinement, q5 constants (retry budget exhaustion): Batcher.tla implements BatcherLedger.tla (PROPERTY LedgerSpec) and its proved Safe holds through the mapping. Exhaustive.
SPECIFICATION Spec
CONSTANTS
    SenderOps <- R2_SenderOps
    FlusherOps <- R2_FlusherOps
    Cap = 2
    MaxRetry = 10
    MaxFail = 13
    AnyRemainder = FALSE
    NonEmptyRem = TRUE
    OutcomeSet = {"ok", "retry"}
    AllowKill = FALSE
    MaxIdleDelay = 3
    Emit = FALSE
VIEW view
CONSTRAINT IdleBound
INVARIANTS TypeOK LedgerSafe
CHECK_DEADLOCK FALSE
PROPERTY LedgerSpec
