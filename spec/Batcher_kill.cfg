\* Batcher kill: s1 = send, blocking send; s2 = try_send; f1 = blocking flush (timeout 0); Cap 1, MaxRetry 10 (hard-coded by bounded()), <= 1 processor faults, FALSE remainders, receiver kill TRUE; idle spinning cut at 3 ms. Exhaustive.
SPECIFICATION Spec
CONSTANTS
    SenderOps <- K_SenderOps
    FlusherOps <- K_FlusherOps
    Cap = 1
    MaxRetry = 10
    MaxFail = 1
    AnyRemainder = FALSE
    NonEmptyRem = FALSE
    OutcomeSet = {"ok", "fail", "retry", "panic", "panicFut"}
    AllowKill = TRUE
    MaxIdleDelay = 3
    Emit = TRUE
VIEW view
CONSTRAINT IdleBound
INVARIANTS TypeOK Bounded Partition StatusConsistent TruncCounted FlushMeansDone FlushRetTruthful RetryBounded BackoffBounded CallbackOnce SendNeverWaits
ACTION_CONSTRAINT EmitReplay
CHECK_DEADLOCK FALSE
