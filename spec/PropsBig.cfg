\* C02 big: large collections of n in {21, 33, 64, 200} properties over keys k001..k200: slices with all keys distinct
\* (ascending, descending), every key twice (adjacent, half apart, half apart descending), one hot key n/2 times interleaved;
\* BTreeMap / HashMap / ThreadLocalCtxt snapshot of 21 and 64; 6 joins; each alone, under dedup / erased / as_map / Box / Some,
\* and joined with a pair repeating the hot key.
\* Every collection is replayed under the 6 key storage forms of Props.tla (KeyForms) with lookup keys separate / from the same buffer / prefix slices of enumerated keys.
SPECIFICATION Spec
CONSTANTS
    KeyOrder <- MC_KeyOrder
    IdOrder <- MC_IdOrder
    NModes <- MC_NModes
    Seeds <- MC_Seeds
    Rights <- MC_Rights
    Wraps <- MC_Wraps
    SpanPrefix <- MC_SpanPrefix
    MetricPrefix <- MC_MetricPrefix
    Which = "big"
    GrowLeaves <- MC_GrowLeaves
    MaxGrow = 0
    MacroGet = "bsearch_scan"
    Emit = TRUE
INVARIANTS GetIsFirst DedupOnceFirst UniqueClaimSound BreakStops EnumIsSpec SerIsEnum
ACTION_CONSTRAINT EmitReplay
CHECK_DEADLOCK FALSE
