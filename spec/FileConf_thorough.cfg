\* X09 thorough: templates: 6 directories (none, logs, ./target/logs, "/var/log/my app", a/b.d/c, ..) x 11 names (my_app.txt, app, .hidden, app.tar.gz, "app.",
\* "a b.log", log.123, .a.b, a..b, x.deadbeef, 2024.05) x trailing slash; 7 templates without a file name; counters: max_files {0, 1, 2, 3} x 0 / 2 / 3 existing
\* members x max size {6 bytes, large} x <= 3 fresh batches of 1 - 2 four-byte events (same or next period, plus 0 - 2 events whose formatting fails) x one fault at most
\* (mkdir, list, create, write, delete, sync) and its retry. Exhaustive.
SPECIFICATION Spec
CONSTANTS
    Dirs <- MC_Dirs
    Names <- MC_Names
    Invalid <- MC_Invalid
    TsChars <- MC_Ts
    CounterChars <- MC_Counter
    IdChars <- MC_Id
    MaxFilesSet = {0, 1, 2, 3}
    PreSet = {0, 2, 3}
    MaxSizeSet = {6, 1000}
    MaxBatches = 3
    EvBytes = 4
    BadSet = {0, 1, 2}
    Emit = TRUE
VIEW view
INVARIANTS FormatFailures TemplateRule MembersRecognised ForeignNotMember Conservation FailuresCounted RetentionBound BatchesAccounted CreatedWhenNeeded
ACTION_CONSTRAINT EmitReplay
CHECK_DEADLOCK FALSE
