\* C09 FileChan lazy: the design whose clear only moves the read cursor (NOT the code): must violate StoreBounded on every run.
SPECIFICATION Spec
CONSTANTS
    Capacity = 2
    MaxOps = 7
    LazyClear = TRUE
    Emit = FALSE
VIEW view
INVARIANTS TypeOK LenRefines PendingBounded StoreBounded
CHECK_DEADLOCK FALSE
