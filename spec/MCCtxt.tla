------------------------------ MODULE MCCtxt ------------------------------
EXTENDS Ctxt
\* context instances: ThreadLocalCtxt::new() (stores 1, 2) and ThreadLocalCtxt::shared() (store 0)
MC_Store1 == <<1>>
MC_Store2 == <<1, 0>>
MC_Store3 == <<1, 0, 0>>
MC_Store4 == <<1, 2, 0, 0>>
\* property maps over keys (a, b): {a:1}, {a:2, b:1}, {b:2}
MC_Props3 == {<<1, 0>>, <<2, 1>>, <<0, 2>>}
MC_Props2 == {<<1, 0>>, <<2, 1>>}
MC_AllKinds == {"push", "root", "disabled", "current"}
MC_PushRoot == {"push", "root"}
MC_AllForms == {"guard", "call"}
MC_Guard == {"guard"}

ASSUME PrintT(<<"STORES", ToJson(StoreOf)>>)
=============================================================================
