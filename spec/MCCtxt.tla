------------------------------ MODULE MCCtxt ------------------------------
EXTENDS Ctxt
\* context instances: ThreadLocalCtxt::new() (stores 1, 2) and ThreadLocalCtxt::shared() (store 0)
MC_Store1 == <<1>>
MC_Kind1 == <<"new">>
MC_KindD1 == <<"default">>
MC_Kind2 == <<"new", "shared">>
MC_Kind3 == <<"new", "shared", "shared">>
MC_Kind4 == <<"new", "new", "shared", "shared">>
\* every public way to a context instance: two default(), one from emit::setup(), one new(), two shared()
MC_StoreQ == <<1, 2, 3, 0, 0>>
MC_KindQ == <<"default", "default", "setup", "shared", "shared">>
MC_StoreQ4 == <<1, 2, 3, 0>>
MC_KindQ4 == <<"default", "default", "setup", "shared">>
MC_StoreT == <<1, 2, 3, 4, 0, 0>>
MC_KindT == <<"default", "default", "setup", "new", "shared", "shared">>
\* one real instance next to the two inert ones
MC_StoreI == <<1, 2, 3>>
MC_KindI == <<"default", "empty", "none">>
\* a real instance, the wrapper TraceparentCtxt<ThreadLocalCtxt> (storage of its own), and an inert one
MC_StoreW == <<1, 2, 3>>
MC_KindW == <<"default", "tp", "empty">>
\* three instances constructed during the program by whichever thread (each thread's first, second, ...)
\* next to one that exists before
MC_StoreM == <<1, 2, 3>>
MC_KindM == <<"made", "made", "default">>
MC_StoreM3 == <<1, 2, 3, 4>>
MC_KindM3 == <<"made", "made", "made", "default">>
MC_StoreS == <<1, 2, 0>>
MC_KindS == <<"default", "setup", "shared">>
MC_Store2 == <<1, 0>>
MC_Store3 == <<1, 0, 0>>
MC_Store4 == <<1, 2, 0, 0>>
\* property maps over keys (a, b): {a:1}, {a:2, b:1}, {b:2}
MC_Props3 == {<<1, 0>>, <<2, 1>>, <<0, 2>>}
MC_Props2 == {<<1, 0>>, <<2, 1>>}
\* ... and the EMPTY property set (Frame::root(ctxt, Empty) detaches from the ambient context)
MC_Props2E == {<<1, 0>>, <<2, 1>>, <<0, 0>>}
MC_NoDups == {}
\* a:1 then a:2;  b:2, a:2, b:1
MC_Dups == {<< <<1, 1>>, <<1, 2>> >>, << <<2, 2>>, <<1, 2>>, <<2, 1>> >>}
MC_AllKinds == {"push", "root", "disabled", "current"}
MC_PushRoot == {"push", "root"}
MC_PushRootCurrent == {"push", "root", "current"}
MC_AllForms == {"guard", "call"}
MC_Guard == {"guard"}

ASSUME PrintT(<<"STORES", ToJson([i \in 1..Len(StoreOf) |-> [store |-> StoreOf[i], kind |-> InstKind[i]]])>>)
=============================================================================
