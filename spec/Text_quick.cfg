\* C15 quick: automata check: path strings of <= 6 characters over {a, 1, _, :, -}, level strings of
\* <= 4 characters over {d, e, b, g, u, D, 3, space, tab, line feed, é}; cases: all strings of <= 3 characters over
\* 18 character classes, <= 4 over the level alphabet (with line feed and NBSP), <= 5 over the path alphabet, near-misses of 25
\* well-formed texts, level words x prefixes x cases x suffixes, level and kind words x 7 white-space classes on either side, 11 boundary years x month ends x 11 precisions.
\* byte-length-preserving multi-byte substitutions (14 non-ASCII representatives incl. Latin-1 high-bit aliases) of 12 fixed-width texts.
SPECIFICATION Spec
CONSTANTS
    PathAlgo = "repaired"
    PathChars = {"a", "1", "_", ":", "-"}
    PathMaxLen = 6
    LevelChars = {"d", "e", "b", "g", "u", "D", "3", " ", "\t", "\n", "é"}
    LevelMaxLen = 4
    Tier = "quick"
    Emit = TRUE
INVARIANTS AutomataRefineGrammar AutomataBounded
CHECK_DEADLOCK FALSE
