\* C15 quick: automata check: path strings of <= 6 characters over {a, 1, _, :, -}, level strings of
\* <= 4 characters over {d, e, b, g, u, D, 3, space, tab, é}; cases: all strings of <= 3 characters over
\* 17 character classes, <= 4 over the level alphabet, <= 5 over the path alphabet, near-misses of 25
\* well-formed texts, level words x prefixes x cases x suffixes, 11 boundary years x month ends x 11 precisions.
\* byte-length-preserving multi-byte substitutions (14 non-ASCII representatives incl. Latin-1 high-bit aliases) of 12 fixed-width texts.
SPECIFICATION Spec
CONSTANTS
    PathAlgo = "repaired"
    PathChars = {"a", "1", "_", ":", "-"}
    PathMaxLen = 6
    LevelChars = {"d", "e", "b", "g", "u", "D", "3", " ", "\t", "é"}
    LevelMaxLen = 4
    Tier = "quick"
    Emit = TRUE
INVARIANTS AutomataRefineGrammar AutomataBounded
CHECK_DEADLOCK FALSE
