\* X02 Extent thorough: 6 instants (epoch, 0.999999999s, 1s, 1.000000001s, 2.5s, 10^9s+5ns), every base source (Empty, Timestamp,
\* Range<Timestamp> incl. empty and backwards, Range<Option<Timestamp>> with every present/absent combination, Extent point/range,
\* None::<T>) under <= 3 transparent wrappers (Some, &, Option<Extent>, Metric, Span). Exhaustive.
SPECIFICATION Spec
CONSTANTS
    Instants <- MC_Instants6
    Depth = 3
    Emit = TRUE
INVARIANTS ConversionRule PointXorRange AsPointRule AsRangeRule LenRule PropsRule CarrierRule LenSanity
ACTION_CONSTRAINT EmitReplay
CHECK_DEADLOCK FALSE
