\* C04 quick (deep): 1 thread, <= 3 spans (filter verdict free at every span), <= 3 frames, 1 task, nesting <= 3; sync spans, new_span! entered later / in_future,
\* async-fn spans (begin at first poll), Frame::current, events at every point; every transition replayed.
SPECIFICATION SSpec
CONSTANTS
    NThreads = 1
    StoreOf <- MC_Store1
    InstKind <- MC_Kind1
    NKeys = 3
    PropChoices <- MC_None
    DupChoices <- MC_NoDups
    Kinds <- MC_None
    Forms <- MC_None
    MaxFrames = 3
    MaxTasks = 1
    MaxDepth = 3
    Panics = TRUE
    Discards = FALSE
    MaxSpans = 3
    IncomingKinds <- MC_None
    WithLazy = TRUE
    HasRng = TRUE
    ExplicitKinds <- MC_ExNone
    PushLastWins = FALSE
    WithCancel = TRUE
    CancelOwnIds = FALSE
    CtxForms <- MC_Forms
    Emit = TRUE
VIEW sview
INVARIANTS InnermostWins NoTrace StackOK FrameIds AmbientIds OneTrace ParentIsEnclosing EventCarriesInnermost IdsDistinct
PROPERTIES Revert
ACTION_CONSTRAINT SEmitReplay
CHECK_DEADLOCK FALSE
