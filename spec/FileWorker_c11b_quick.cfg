\* C11 quick (b): max_files {1,2}, max size {8 (two events), 1000}, reuse on/off; <= 2 submitted batches of <= 2
\* events, <= 3 on_batch calls, 1 injected fault at any filesystem call (err / short write), no crash, 1 clean
\* restart; clock same / next period; random ids ascending.
SPECIFICATION Spec
CONSTANTS
    EvSize <- MC_EvSize
    MaxFilesSet = {1, 2}
    MaxSizeSet = {8, 1000}
    ReuseSet = {TRUE, FALSE}
    NumEvents = 4
    MaxEv = 2
    MaxBatches = 2
    MaxCalls = 3
    MaxFaults = 1
    MaxCrashes = 0
    MaxReopens = 1
    MaxFmtFail = 0
    FmtFails = {}
    SepForms = {"nl"}
    WriterEnds = {"sep"}
    Ticks = {"same", "next"}
    RetryTicks = {"same"}
    Phantoms = {0}
    RidDirs = {"up"}
    MaxPeriod = 3
    MaxMs = 2
    Emit = TRUE
VIEW view
INVARIANTS Durable RecordsWellFormed RetryIsWhole AckOnlyAfterSync NoGarbage
    OneFilePerBatch RollOnlyWhen MustRoll NameIs NewestFirst Retained OldestFirst NoPanic OwnSetOnly
    EnvOk ActiveIsLastGood
ACTION_CONSTRAINT EmitReplay
CHECK_DEADLOCK FALSE
