--------------------------- MODULE MCTraceparent ---------------------------
EXTENDS Traceparent
\* incoming headers: trace ids 101/102, span ids 201/202/203 (0 = all-zero field)
H_s1  == [tr |-> 101, sp |-> 201, fl |-> 1]     \* sampled
H_u1  == [tr |-> 101, sp |-> 201, fl |-> 0]     \* unsampled
H_s1b == [tr |-> 101, sp |-> 203, fl |-> 1]     \* same trace as H_s1, another caller span
H_s2  == [tr |-> 102, sp |-> 202, fl |-> 1]     \* another trace (mismatched when nested)
H_u2  == [tr |-> 102, sp |-> 202, fl |-> 0]
H_i0  == [tr |-> 0, sp |-> 0, fl |-> 1]         \* invalid: no ids
H_iS  == [tr |-> 0, sp |-> 201, fl |-> 1]       \* invalid: no trace id
H_tS  == [tr |-> 101, sp |-> 0, fl |-> 1]       \* invalid: trace id only, sampled flag
H_tU  == [tr |-> 101, sp |-> 0, fl |-> 0]       \* invalid: trace id only, unsampled flag
H_iSU == [tr |-> 0, sp |-> 201, fl |-> 0]       \* invalid: span id only, unsampled flag
H_i0U == [tr |-> 0, sp |-> 0, fl |-> 0]         \* invalid: no ids, unsampled flag
MC_NoHeaders == {}
MC_NoKinds == {}
MC_AllKinds == {"spanctxt", "state", "root"}
MC_FormsNoSampler == {"setup", "nosampler"}
MC_Forms == {"value", "ref", "option", "box", "arc", "dyn", "ambient", "stack"}
\* invalid / partial headers; with the sampled-trace filter installed only those with the sampled flag
MC_HeadersAllInv == {H_s1, H_u1, H_s1b, H_s2, H_u2, H_i0, H_iS, H_tS, H_tU, H_iSU, H_i0U}
MC_HeadersInvS == {H_s1, H_u2, H_i0, H_iS, H_tS}
MC_HeadersInv == {H_s1, H_tS, H_tU, H_iSU, H_i0U}
ASSUME PrintT(<<"FORMS", ToJson(CtxForms)>>)
MC_Headers2 == {H_s1, H_u1}
MC_Headers3 == {H_s1, H_u2, H_i0}
MC_Headers4 == {H_s1, H_u1, H_s2, H_iS}
MC_HeadersAll == {H_s1, H_u1, H_s1b, H_s2, H_u2, H_i0, H_iS, H_tS}
=============================================================================
