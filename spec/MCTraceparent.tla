--------------------------- MODULE MCTraceparent ---------------------------
EXTENDS Traceparent
\* incoming headers: trace ids 101/102, span ids 201/202/203 (0 = all-zero field)
H_s1  == [tr |-> 101, sp |-> 201, fl |-> 1]     \* sampled
H_u1  == [tr |-> 101, sp |-> 201, fl |-> 0]     \* unsampled
H_s1b == [tr |-> 101, sp |-> 203, fl |-> 1]     \* same trace as H_s1, another caller span
H_s2  == [tr |-> 102, sp |-> 202, fl |-> 1]     \* another trace (mismatched when nested)
H_u2  == [tr |-> 102, sp |-> 202, fl |-> 0]
H_i0  == [tr |-> 0, sp |-> 0, fl |-> 1]         \* invalid: no ids
H_iS  == [tr |-> 0, sp |-> 201, fl |-> 1]       \* invalid: no trace id
MC_NoHeaders == {}
MC_Headers2 == {H_s1, H_u1}
MC_Headers3 == {H_s1, H_u2, H_i0}
MC_Headers4 == {H_s1, H_u1, H_s2, H_iS}
MC_HeadersAll == {H_s1, H_u1, H_s1b, H_s2, H_u2, H_i0, H_iS}
=============================================================================
