------------------------------- MODULE Props -------------------------------
(***************************************************************************)
(* C02 - property lookup always agrees with enumeration: the first value   *)
(* for a key wins.                                                         *)
(*                                                                         *)
(* A property collection is a tree (record with field `op`):               *)
(*   leaves   empty | pair | arr | slice | btree | hash   [op, kvs]        *)
(*            ctxt (a ThreadLocalCtxt snapshot) | extent | spanctxt (the   *)
(*            Extent / SpanCtxt views)                   [op, kvs]        *)
(*            an extent leaf may say how the extent was obtained           *)
(*            [op, src, a, b, kvs]: ToExtent of a Timestamp, a             *)
(*            Range<Timestamp>, a Range<Option<Timestamp>> (any bounds),   *)
(*            Option / & of an Extent, or what a Span / Metric / Event     *)
(*            carrier hands out (built with new / with_extent); kvs is     *)
(*            what the view must then hold (MCProps.tla ExtentSrcLeaves)   *)
(*            macro [op, ents]   (a props!/evt!/emit! call site)           *)
(*            none               (Option::None)                            *)
(*   unary    opt (Some) | ref | box | arc | erased | dedup | asmap [op,t] *)
(*            span | metric: the property view of a Span / Metric event    *)
(*            over the user properties t                            [op,t] *)
(*   binary   and [op, l, r]                                               *)
(* kvs is a sequence of [k, v]; for the maps it is the insertion order.    *)
(* Every stored pair of a tree carries a distinct value, so "which of two  *)
(* duplicates was returned" is always observable.                          *)
(*                                                                         *)
(* Level A (the statement): Segs(t) is the enumeration the collection is   *)
(* specified to yield, as a sequence of segments; an ordered segment is    *)
(* yielded in exactly that order, an unordered one (hash map, the result   *)
(* of de-duplication, a macro call site) in any order.  Unordered segments *)
(* never repeat a key, so First(Flat(t), k) does not depend on the order.  *)
(*                                                                         *)
(* Level B (the code, core/src/props.rs, src/macro_hooks.rs): a            *)
(* transcription of every `for_each` / `get` / `is_unique` implementation, *)
(* with the visitor that breaks at its n-th call threaded through.         *)
(***************************************************************************)
EXTENDS Naturals, Sequences, FiniteSets, TLC, Json

CONSTANTS
    KeyOrder,   \* every key text that occurs, in byte order (= Str's Ord); a key is
                \* represented by its index in this sequence, so the integer order is the
                \* order of the texts (TLC mangles non-ASCII strings kept in state
                \* variables when the state queue goes to disk; indices do not suffer)
    IdOrder,    \* macro identifiers (unraw'd) in byte order
    NModes,     \* exhaustive mode: number of seed sets
    Seeds(_),   \* the seeds of a mode
    Rights(_),  \* the right-hand sides joined to every seed of a mode
    Wraps(_),   \* the unary nodes every seed of a mode is also wrapped in
    SpanPrefix,     \* what a Span / Metric view yields before the user properties:
    MetricPrefix,   \* sequences of [k, v] in the order of the code
    GrowLeaves(_),  \* leaves (with value base) for the growing mode (simulation)
    MaxGrow,    \* bound on the number of growth steps
    MacroGet,   \* "bsearch": lookup as found; "bsearch_scan": repaired lookup
    Emit        \* TRUE: print one REPLAY line per checked collection

None == 0

VARIABLES
    tree,   \* the collection under consideration
    done,   \* exhaustive mode: the collection has been handed to the replay
    stk,    \* growing mode: collections below the current one
    np      \* growing mode: number of steps so far (value bases derive from it);
            \* exhaustive mode: the mode of the seed

vars == <<tree, done, stk, np>>

Unary == {"opt", "ref", "box", "arc", "erased", "dedup", "asmap"}
SpanOps == {"span", "span_with"}
MetricOps == {"metric", "metric_with"}
Transparent == {"opt", "ref", "box", "arc", "erased", "asmap"}

-----------------------------------------------------------------------------
(* keys and small sequence helpers *)

KeyPos == [k \in 1..Len(KeyOrder) |-> k]
IdPos == [k \in {IdOrder[i] : i \in 1..Len(IdOrder)} |->
             CHOOSE i \in 1..Len(IdOrder) : IdOrder[i] = k]
AllKeys == DOMAIN KeyPos

ElemsOf(s) == {s[i] : i \in 1..Len(s)}

\* the subsequence of s at the index set idx, in index order
AtIdx(s, idx) ==
    [n \in 1..Cardinality(idx) |->
        s[CHOOSE i \in idx : Cardinality({j \in idx : j < i}) = n - 1]]

\* sort a sequence of [k, v] with distinct keys by key (keys are indices into KeyOrder:
\* walk the key universe once; the large collections need better than cubic)
SortKVs(s) ==
    LET ks == {s[i].k : i \in 1..Len(s)}
        byKey == [k \in ks |-> CHOOSE e \in ElemsOf(s) : e.k = k]
        ordered == SelectSeq([k \in 1..Len(KeyOrder) |-> k], LAMBDA k : k \in ks)
    IN [n \in 1..Len(ordered) |-> byKey[ordered[n]]]

\* the pairs of s that are the first with their key, in order
FirstPerKey(s) ==
    AtIdx(s, {i \in 1..Len(s) : \A j \in 1..(i - 1) : s[j].k # s[i].k})

First(s, k) ==
    LET at == {i \in 1..Len(s) : s[i].k = k}
    IN IF at = {} THEN None ELSE s[CHOOSE i \in at : \A j \in at : i <= j].v

HasDup(s) == \E i, j \in 1..Len(s) : i < j /\ s[i].k = s[j].k

RECURSIVE Concat(_)
Concat(ss) == IF ss = <<>> THEN <<>> ELSE Head(ss) \o Concat(Tail(ss))

-----------------------------------------------------------------------------
(* macro call sites: ents is the source order; an entry is
   [id, key, val, on]: identifier, final key, value or None (an
   #[emit::optional] None), on = FALSE when a #[cfg] removes it *)

\* what the call site is specified to contain
MacroPresent(ents) ==
    LET idx == {i \in 1..Len(ents) : ents[i].on /\ ents[i].val # None}
        sel == AtIdx(ents, idx)
    IN [i \in 1..Len(sel) |-> [k |-> sel[i].key, v |-> sel[i].val]]

\* the array the macro builds (macros/src/props.rs: BTreeMap keyed by identifier)
MacroArr(ents) ==
    LET on == AtIdx(ents, {i \in 1..Len(ents) : ents[i].on})
        srt == [n \in 1..Len(on) |->
                  CHOOSE e \in ElemsOf(on) :
                     Cardinality({f \in ElemsOf(on) : IdPos[f.id] < IdPos[e.id]}) = n - 1]
    IN [i \in 1..Len(srt) |-> [k |-> srt[i].key, v |-> srt[i].val]]

\* core::slice::binary_search_by (branch-free loop of the current std); 0-based base
RECURSIVE BsLoop(_, _, _, _)
BsLoop(arr, key, base, size) ==
    IF size > 1
    THEN LET half == size \div 2
             mid == base + half
         IN BsLoop(arr, key,
                   IF KeyPos[arr[mid + 1].k] > KeyPos[key] THEN base ELSE mid,
                   size - half)
    ELSE base

\* index (1-based) of the hit, 0 for Err(_)
BSearch(arr, key) ==
    IF Len(arr) = 0 THEN 0
    ELSE LET b == BsLoop(arr, key, 0, Len(arr))
         IN IF arr[b + 1].k = key THEN b + 1 ELSE 0

Scan(arr, key) ==
    IF \E i \in 1..Len(arr) : arr[i].k = key
    THEN arr[CHOOSE i \in 1..Len(arr) : arr[i].k = key /\ \A j \in 1..(i - 1) : arr[j].k # key].v
    ELSE None

\* __PrivateMacroProps::get
MacroGetB(ents, key) ==
    LET arr == MacroArr(ents)
        hit == BSearch(arr, key)
    IN IF hit # 0 THEN arr[hit].v
       ELSE IF MacroGet = "bsearch_scan" THEN Scan(arr, key)
       ELSE None

\* __PrivateMacroProps::for_each order: the array, skipping None values
MacroEnumB(ents) ==
    LET arr == MacroArr(ents)
    IN AtIdx(arr, {i \in 1..Len(arr) : arr[i].v # None})

-----------------------------------------------------------------------------
(* Level A: the specified enumeration *)

RECURSIVE Segs(_)
Segs(t) ==
    CASE t.op \in {"empty", "none"} -> <<>>
      [] t.op \in {"pair", "arr", "slice"} -> <<[ord |-> TRUE, kvs |-> t.kvs]>>
      [] t.op = "btree" -> <<[ord |-> TRUE, kvs |-> SortKVs(t.kvs)]>>
      [] t.op \in {"hash", "ctxt", "extent", "spanctxt"} -> <<[ord |-> FALSE, kvs |-> SortKVs(t.kvs)]>>
      [] t.op = "macro" -> <<[ord |-> FALSE, kvs |-> SortKVs(MacroPresent(t.ents))]>>
      [] t.op \in Transparent -> Segs(t.t)
      \* the well-known properties (in any order), then the user properties: a user
      \* property that repeats a well-known key comes later and so never wins
      \* (span_with / metric_with: the same views put together through the builder methods
      \* with_props / map_props / with_name / with_extent / .. instead of `new`)
      [] t.op \in SpanOps -> <<[ord |-> FALSE, kvs |-> SortKVs(SpanPrefix)]>> \o Segs(t.t)
      [] t.op \in MetricOps -> <<[ord |-> FALSE, kvs |-> SortKVs(MetricPrefix)]>> \o Segs(t.t)
      [] t.op = "and" -> Segs(t.l) \o Segs(t.r)
      [] t.op = "dedup" ->
            LET inner == Segs(t.t)
            IN <<[ord |-> FALSE,
                  kvs |-> SortKVs(FirstPerKey(Concat([i \in 1..Len(inner) |-> inner[i].kvs])))]>>

Flat(t) == LET segs == Segs(t) IN Concat([i \in 1..Len(segs) |-> segs[i].kvs])

Get(t, k) == First(Flat(t), k)

-----------------------------------------------------------------------------
(* Level B: transcription of the implementations *)

\* is_unique: overridden by (K,V), Empty, Dedup, BTreeMap, HashMap, macro props;
\* the thread-local frame; forwarded by &P, AsMap, dyn ErasedProps; everything else
\* (also Extent and SpanCtxt) keeps the default false
RECURSIVE UniqB(_)
UniqB(t) ==
    \* (the Current of a TraceparentCtxt - a ctxt leaf with `tp` - keeps the default)
    CASE t.op \in {"empty", "pair", "btree", "hash", "ctxt", "macro", "dedup"} /\ "tp" \notin DOMAIN t -> TRUE
      [] t.op \in {"ref", "asmap", "erased"} -> UniqB(t.t)
      [] OTHER -> FALSE

\* A visitor that breaks at its n-th call (n = 0: never).  c = calls made so far.
\* Result: [vis, c, brk].
RECURSIVE Loop(_, _, _, _)
Loop(kvs, i, c, n) ==
    IF i > Len(kvs) THEN [vis |-> <<>>, c |-> c, brk |-> FALSE]
    ELSE IF c + 1 = n THEN [vis |-> <<kvs[i]>>, c |-> c + 1, brk |-> TRUE]
    ELSE LET r == Loop(kvs, i + 1, c + 1, n)
         IN [vis |-> <<kvs[i]>> \o r.vis, c |-> r.c, brk |-> r.brk]

\* BTreeMap::entry(key).or_insert(value) over the whole inner enumeration
RECURSIVE OrInsert(_, _, _)
OrInsert(seen, s, i) ==
    IF i > Len(s) THEN seen
    ELSE OrInsert(IF \E e \in ElemsOf(seen) : e.k = s[i].k THEN seen ELSE Append(seen, s[i]),
                  s, i + 1)

RECURSIVE FE(_, _, _)
FE(t, c, n) ==
    CASE t.op \in {"empty", "none"} -> [vis |-> <<>>, c |-> c, brk |-> FALSE]
      [] t.op \in {"pair", "arr", "slice", "extent", "spanctxt"} -> Loop(t.kvs, 1, c, n)
      [] t.op \in {"btree", "hash", "ctxt"} -> Loop(SortKVs(t.kvs), 1, c, n)
      [] t.op = "macro" -> Loop(MacroEnumB(t.ents), 1, c, n)
      [] t.op \in Transparent -> FE(t.t, c, n)
      [] t.op \in SpanOps \cup MetricOps ->  \* for_each(KEY, ..)?; ..; self.props.for_each(for_each)
            LET a == Loop(IF t.op \in SpanOps THEN SpanPrefix ELSE MetricPrefix, 1, c, n)
            IN IF a.brk THEN a
               ELSE LET b == FE(t.t, a.c, n)
                    IN [vis |-> a.vis \o b.vis, c |-> b.c, brk |-> b.brk]
      [] t.op = "and" ->
            LET a == FE(t.l, c, n)
            IN IF a.brk THEN a
               ELSE LET b == FE(t.r, a.c, n)
                    IN [vis |-> a.vis \o b.vis, c |-> b.c, brk |-> b.brk]
      [] t.op = "dedup" ->
            IF UniqB(t.t) THEN FE(t.t, c, n)
            ELSE Loop(SortKVs(OrInsert(<<>>, FE(t.t, 0, 0).vis, 1)), 1, c, n)

\* the default get: scan with a visitor that breaks at the first match
DefaultGet(t, k) == First(FE(t, 0, 0).vis, k)

RECURSIVE GetB(_, _)
GetB(t, k) ==
    CASE t.op = "empty" -> None
      [] t.op \in {"btree", "hash", "ctxt"} -> First(t.kvs, k) \* the map's own lookup
      [] t.op = "macro" -> MacroGetB(t.ents, k)
      [] t.op \in {"ref", "asmap", "erased", "dedup"} -> GetB(t.t, k)
      [] t.op = "and" -> IF GetB(t.l, k) # None THEN GetB(t.l, k) ELSE GetB(t.r, k)
      [] OTHER -> DefaultGet(t, k)       \* pair, arr, slice, none, opt, box, arc, extent, spanctxt,
                                         \* span, metric

-----------------------------------------------------------------------------
(* exhaustive mode.  TLC computes (and checks) initial states on one thread and
   enumerates unions of big sets quadratically, so the explored set is never built as
   one set: the initial states are the seeds Seeds(m) of every mode m (all trees one
   level shallower, or all macro call sites), and the successors of a seed s are s
   itself, every unary node over s and and(s, r) for every r in Rights(m).  The
   explored collections of mode m are therefore
       Seeds(m) \cup unary(Seeds(m)) \cup and(Seeds(m) x Rights(m)). *)

Init ==
    /\ done = FALSE
    /\ stk = <<>>
    /\ np \in 1..NModes
    /\ tree \in Seeds(np)

Check ==
    /\ ~done
    /\ done' = TRUE
    /\ \/ tree' = tree
       \/ \E o \in Wraps(np) : tree' = [op |-> o, t |-> tree]
       \/ \E r \in Rights(np) : tree' = [op |-> "and", l |-> tree, r |-> r]
    /\ UNCHANGED <<stk, np>>

Spec == Init /\ [][Check]_vars

(* growing mode (simulation): push a leaf, wrap the current collection, or join
   the two topmost; every intermediate collection is checked and replayed *)

InitGrow ==
    /\ tree \in GrowLeaves(0)
    /\ done = FALSE
    /\ stk = <<>>
    /\ np = 1

Push(l) ==
    /\ Len(stk) < 2
    /\ stk' = Append(stk, tree)
    /\ tree' = l

Wrap(o) ==
    /\ tree' = [op |-> o, t |-> tree]
    /\ UNCHANGED stk

WrapNone ==
    /\ tree.op # "none"
    /\ tree' = [op |-> "and", l |-> tree, r |-> [op |-> "none"]]
    /\ UNCHANGED stk

Join ==
    /\ stk # <<>>
    /\ tree' = [op |-> "and", l |-> stk[Len(stk)], r |-> tree]
    /\ stk' = SubSeq(stk, 1, Len(stk) - 1)

Grow ==
    /\ np < MaxGrow
    /\ np' = np + 1
    /\ UNCHANGED done
    /\ \/ \E l \in GrowLeaves(10 * np) : Push(l)
       \/ \E o \in Unary : Wrap(o)
       \/ WrapNone
       \/ Join

SpecGrow == InitGrow /\ [][Grow]_vars

-----------------------------------------------------------------------------
(* Properties; all are about `tree` *)

\* lookup = the first value enumeration yields, or nothing
GetIsFirst == LET flat == Flat(tree) IN \A k \in AllKeys : GetB(tree, k) = First(flat, k)

\* de-duplication yields every key once with that first value
DedupOnceFirst ==
    LET d == FE([op |-> "dedup", t |-> tree], 0, 0).vis
        flat == Flat(tree)
    IN /\ ~HasDup(d)
       /\ ElemsOf(d) = {[k |-> k, v |-> First(flat, k)] : k \in {e.k : e \in ElemsOf(flat)}}

\* a collection that claims uniqueness never enumerates a key twice
UniqueClaimSound == UniqB(tree) => ~HasDup(Flat(tree))

\* the calls at which the breaking visitor is tried: all of them for small collections, a
\* few for the large ones (the harness tries every n either way; the expected number of
\* calls, min(n, length), needs no more from TLC)
BreakNs(len) ==
    IF len <= 16 THEN 1..(len + 1) ELSE {1, 2, len \div 2, len - 1, len, len + 1}

\* enumeration stops as soon as the visitor asks it to
BreakStops ==
    LET len == Len(Flat(tree))
    IN \A n \in BreakNs(len) :
          LET r == FE(tree, 0, n)
          IN /\ Len(r.vis) = (IF n <= len THEN n ELSE len)
             /\ r.brk = (n <= len)

\* the transcription enumerates what the statement specifies (any order within an
\* unordered segment), and unordered segments never repeat a key
RECURSIVE Adm(_, _)
Adm(vis, segs) ==
    IF segs = <<>> THEN vis = <<>>
    ELSE LET s == Head(segs)
             n == Len(s.kvs)
         IN /\ Len(vis) >= n
            /\ IF s.ord THEN SubSeq(vis, 1, n) = s.kvs
               ELSE ElemsOf(SubSeq(vis, 1, n)) = ElemsOf(s.kvs)
            /\ Adm(SubSeq(vis, n + 1, Len(vis)), Tail(segs))

EnumIsSpec ==
    LET segs == Segs(tree)
    IN /\ Adm(FE(tree, 0, 0).vis, segs)
       /\ \A i \in 1..Len(segs) : ~segs[i].ord => ~HasDup(segs[i].kvs)

\* A map view (`as_map()`) is also read through serde::Serialize, sval::Value, Display and
\* Debug.  Every channel must yield exactly the enumeration of the collection it views
\* (`p.as_map()`: p's enumeration, duplicates included; `p.dedup().as_map()`: every key once
\* with its first value).  Level A is Segs again; level B: each serializer is `for_each`
\* with a visitor that only breaks when the sink fails, i.e. FE(t, 0, 0).
Channels == <<"for_each", "serde", "sval", "display", "debug">>
SerB(t) == FE(t, 0, 0).vis
SerIsEnum == Adm(SerB(tree), Segs(tree))

\* Key storage.  The statement is about key TEXTS: a lookup key and an enumerated key are the
\* same key iff their texts are equal, wherever the bytes live.  A configuration is therefore
\* a collection together with the way its keys (and the lookup keys) are stored, and level A
\* (Segs / Get above) must hold unchanged for every one of them:
\*   literal     every stored key and every lookup key an allocation of its own
\*   string      stored keys are owned `String`s
\*   shared_buf  every key of the universe (stored and looked up) is a slice of ONE buffer:
\*               the concatenation, in byte order, of the keys that are not a proper prefix
\*               of another key; a key that is a prefix of another one is the slice at the
\*               start of the first such key, so it shares its start address (the empty key
\*               is the zero-length slice at offset 0)
\*   str_ref / str_owned / str_shared   stored keys are `Str::new_ref` over the shared buffer,
\*               `Str::new_owned`, `Str::new_shared`
\* and, under every form, lookups by the prefixes (every length, the empty one included) cut
\* from the front of each key as enumeration hands it out ("prefix"): Get of that text, i.e.
\* First(Flat(t), text) - nothing unless the text itself is enumerated.
\* The forms do not enter the state (level A does not see them): every checked collection is
\* replayed under each of them.
KeyForms == <<"literal", "string", "shared_buf", "str_ref", "str_owned", "str_shared">>
LookupForms == <<"separate", "same_buffer", "prefix">>

-----------------------------------------------------------------------------
(* spec -> code: the collection and what the statement predicts for it *)
Replay(t) ==
    LET flat == Flat(t)
    IN
    [tree |-> t,
     segs |-> Segs(t),
     keys |-> KeyOrder,
     channels |-> Channels,
     keyforms |-> KeyForms,
     lookupforms |-> LookupForms,
     get |-> [i \in 1..Len(KeyOrder) |-> [k |-> i, v |-> First(flat, i)]],
     uniqB |-> UniqB(t),
     enumB |-> FE(t, 0, 0).vis]

EmitReplay == Emit => PrintT(<<"REPLAY", ToJson(Replay(tree'))>>)
=============================================================================
