\* X06 quick: segments {a, aa, b, _x, é}; constructor texts: joins of <= 2 parts out of the 5 segments and 9 malformed ones (empty, 1a,
\* a:b, "a ", *, :, a1, _, {a}) plus the empty text; storage forms: 13 constructors x <= 1 of {by_ref, clone, to_owned, From<&Path>} on
\* paths of <= 2 segments; pairs of paths of <= 3 segments (155 x 155); triples of paths of <= 2 segments over {a, aa, é}. Exhaustive.
SPECIFICATION Spec
CONSTANTS
    Segs <- MC_Segs
    BadSegs <- MC_BadSegs
    CharBytes <- MC_CharBytes
    CtorLen = 2
    FormLen = 2
    FormDepth = 1
    PairLen = 3
    TripleSegs = {1, 2, 5}
    TripleLen = 2
    Emit = TRUE
INVARIANTS JoinsAreValid FormRule ChildRule AppendRule OrderLaws AppendAssociative
ACTION_CONSTRAINT EmitReplay
CHECK_DEADLOCK FALSE
