----------------------------- MODULE OtlpRoute -----------------------------
(***************************************************************************)
(* C14 - each event goes to exactly one OTLP signal, chosen by kind, logs  *)
(* as fallback.                                                            *)
(*                                                                         *)
(* Level A (the statement): Route(kind, extent, numeric, configured) in    *)
(* {metrics, traces, logs, discard}; Allowed(ev, cfg) is the set of routes *)
(* the statement permits for an abstract event (more than one only where   *)
(* the statement is silent: a leniently spelled kind, an empty sequence).  *)
(*                                                                         *)
(* Level B (the code, emitter/otlp/src/client.rs OtlpInner::emit): the     *)
(* step sequence TryMetrics -> TryTraces -> TryLogs -> Discard; each step  *)
(* is skipped when the signal is not configured and declines under the     *)
(* condition transcribed from the signal's event encoder                   *)
(* (data/metrics.rs, data/traces.rs, data/logs.rs, src/kind.rs).           *)
(*                                                                         *)
(* Every abstract event x configuration is an initial state; the terminal  *)
(* state of level B must lie in Allowed and count a discard exactly when   *)
(* nothing was sent.                                                       *)
(***************************************************************************)
EXTENDS Naturals, FiniteSets, TLC, Json

CONSTANTS
    Kinds,      \* spellings of the evt_kind property
    Extents,    \* "none", "point", "range", "emptyRange" (start = end), "backRange" (end < start)
    Vals,       \* shapes of the metric_value property
    Aggs,       \* spellings of the metric_agg property
    Emit        \* TRUE: print one REPLAY line per case

Signals == {"logs", "traces", "metrics"}

VARIABLES ev, cfg, pc, sent, discarded
vars == <<ev, cfg, pc, sent, discarded>>

-----------------------------------------------------------------------------
(* Reading the abstract event *)

\* emit::Kind as the library defines it (src/kind.rs FromStr: trim, ASCII case-insensitive;
\* FromValue: the typed value or the parse of its text form)
\* The same kind arrives in different value FORMS: a borrowed &str, the typed emit::Kind, the
\* typed Kind after a round trip through an owned value, an owned copy of the text, a
\* Display capture of a type that renders the text, a String.  The kind decides, whatever
\* the form.
SpanForms == {"span", "typedSpan", "spanTypedOwned", "spanStrOwned", "spanDisplay", "spanFromDisplay", "spanString"}
MetricForms == {"metric", "typedMetric", "metricTypedOwned", "metricStrOwned", "metricDisplay", "metricFromDisplay", "metricString"}

KindParse(k) ==
    CASE k \in SpanForms \cup {"SPAN"} -> "span"
      [] k \in MetricForms \cup {"padMetric"} -> "metric"
      [] OTHER -> "none"

\* The statement says "metric kind" / "span kind": canonical spellings are binding, lenient
\* spellings may be read either way (don't-care).
KindReadings(k) ==
    IF k \in {"SPAN", "padMetric"} THEN {KindParse(k), "none"} ELSE {KindParse(k)}

\* Extent::as_range: any extent built as a range, whatever the order of its bounds
IsRange(e) == e \in {"range", "emptyRange", "backRange"}

\* "a numeric or numeric-sequence value"; the empty sequence is a don't-care
\* Boundary totals: the same shapes with a value / a total of zero.  The routing rule of the
\* statement does not depend on the value being non-zero, so each routes like its twin.
ZeroTotals == {"i64zero", "f64zero", "f64negzero", "seqiZeros", "seqiCancel", "seqfZeros", "seqfCancel"}
\* Other integer widths: sval forwards unsigned and 128-bit integers that fit to i64 and
\* hands the others over as u128 / i128; all of them are numeric.
Twin(v) ==
    CASE v \in {"i64zero", "u64small", "i128small"} -> "i64"
      [] v = "i128big" -> "u64big"
      [] v \in {"f64zero", "f64negzero"} -> "f64"
      [] v \in {"seqiZeros", "seqiCancel"} -> "seqi"
      [] v \in {"seqfZeros", "seqfCancel"} -> "seqf"
      [] OTHER -> v

NumericReadings(v) ==
    CASE Twin(v) \in {"i64", "f64", "u64big", "seqi", "seqf"} -> {TRUE}
      [] v = "emptySeq" -> {TRUE, FALSE}
      [] OTHER -> {FALSE}          \* text, bool, null, missing, nested sequence, sequence of text

-----------------------------------------------------------------------------
(* Level A *)

Route(k, e, numeric, c) ==
    IF k = "metric" /\ numeric /\ "metrics" \in c THEN "metrics"
    ELSE IF k = "span" /\ IsRange(e) /\ "traces" \in c THEN "traces"
    ELSE IF "logs" \in c THEN "logs"
    ELSE "discard"

Allowed(x, c) ==
    {Route(k, x.ext, n, c) : k \in KindReadings(x.kind), n \in NumericReadings(x.val)}

-----------------------------------------------------------------------------
(* Level B: the encoders' decline conditions *)

\* data/metrics.rs Extract: i64/f64 push a point (smaller integers and f32 are forwarded to
\* them by sval; integers beyond i64 arrive as u128/i128); null, bool and text are errors; one
\* level of sequence is entered, a nested one is an error
StreamOk(v) == Twin(v) \in {"i64", "f64", "u64big", "seqi", "seqf", "emptySeq"}
\* points pushed into the builder (SumPoints folds them into one accumulator that starts at
\* the integer 0; RawPointSet keeps them)
NPoints(v) ==
    CASE Twin(v) \in {"i64", "f64", "u64big"} -> 1
      [] v \in {"seqi", "seqf", "seqfZeros", "seqfCancel"} -> 2
      [] v \in {"seqiZeros", "seqiCancel"} -> 4
      [] OTHER -> 0
\* the accumulated total of a sum / count (irrelevant to into_points, which must not look at it:
\* a total of zero is a sample like any other)
TotalIsZero(v) == v \in ZeroTotals \cup {"emptySeq"}

\* SumPoints::into_points is always Some; RawPointSet::into_points is None without points
IntoPointsSome(v, a) == IF a \in {"sum", "count"} THEN TRUE ELSE NPoints(v) > 0

MetricsAccepts(x) ==
    /\ KindParse(x.kind) = "metric"            \* is_metric_filter
    /\ x.val # "missing"                       \* props.get(metric_value)
    /\ StreamOk(x.val)
    /\ IntoPointsSome(x.val, x.agg)

TracesAccepts(x) ==
    /\ KindParse(x.kind) = "span"              \* is_span_filter
    /\ IsRange(x.ext)                          \* extent.as_range()?

LogsAccepts(x) == TRUE

-----------------------------------------------------------------------------
Events == [kind : Kinds, ext : Extents, val : Vals, agg : Aggs]

Init ==
    /\ ev \in Events
    /\ cfg \in SUBSET Signals
    /\ pc = "metrics"
    /\ sent = "none"
    /\ discarded = 0

TryMetrics ==
    /\ pc = "metrics"
    /\ IF "metrics" \in cfg /\ MetricsAccepts(ev)
       THEN sent' = "metrics" /\ pc' = "done"
       ELSE sent' = sent /\ pc' = "traces"
    /\ UNCHANGED <<ev, cfg, discarded>>

TryTraces ==
    /\ pc = "traces"
    /\ IF "traces" \in cfg /\ TracesAccepts(ev)
       THEN sent' = "traces" /\ pc' = "done"
       ELSE sent' = sent /\ pc' = "logs"
    /\ UNCHANGED <<ev, cfg, discarded>>

TryLogs ==
    /\ pc = "logs"
    /\ IF "logs" \in cfg /\ LogsAccepts(ev)
       THEN sent' = "logs" /\ pc' = "done"
       ELSE sent' = sent /\ pc' = "discard"
    /\ UNCHANGED <<ev, cfg, discarded>>

Discard ==
    /\ pc = "discard"
    /\ discarded' = discarded + 1
    /\ pc' = "done"
    /\ UNCHANGED <<ev, cfg, sent>>

Next == TryMetrics \/ TryTraces \/ TryLogs \/ Discard

Spec == Init /\ [][Next]_vars

-----------------------------------------------------------------------------
(* Properties *)

Outcome == IF sent = "none" THEN "discard" ELSE sent

TypeOK ==
    /\ pc \in {"metrics", "traces", "logs", "discard", "done"}
    /\ sent \in Signals \cup {"none"}
    /\ discarded \in {0, 1}

\* the transcription of the emit path takes a route the statement permits
RouteRefines == pc = "done" => Outcome \in Allowed(ev, cfg)

\* a boundary total takes the route of its twin (level A sanity: the statement's rule does
\* not mention the magnitude of the value)
ZeroTotalsRouteLikeTwins ==
    ev.val \in ZeroTotals => Allowed(ev, cfg) = Allowed([ev EXCEPT !.val = Twin(ev.val)], cfg)

\* the discard counter increases exactly when nothing was sent
DiscardCounted == pc = "done" => ((discarded = 1) <=> (sent = "none"))

\* nothing is sent through a signal that is not configured
OnlyConfigured == sent # "none" => sent \in cfg

\* once sent, never sent again (exactly one signal)
SentOnce == [][sent # "none" => sent' = sent]_vars

-----------------------------------------------------------------------------
(* spec -> code: one case per abstract event x configuration, with the permitted routes *)
EmitReplay ==
    (Emit /\ pc' = "done") =>
        PrintT(<<"REPLAY", ToJson([ev |-> ev, cfg |-> cfg, expect |-> Allowed(ev, cfg),
                                   model |-> IF sent' = "none" THEN "discard" ELSE sent'])>>)
=============================================================================
