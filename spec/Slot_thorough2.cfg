\* C20 thorough (b): 3 racing initialisers (try_init_slot / init_slot), 2 observers with up to
\* 2 operations each out of {is_enabled, emit, probe}; all interleavings.
SPECIFICATION Spec
CONSTANTS
    Inits = {1, 2, 3}
    Observers = {1, 2}
    InitKinds = {"try_init_slot", "init_slot"}
    ObsOps = {"is_enabled", "emit", "probe"}
    MaxObs = 2
    Forms = {"emit_to"}
    HandleOps = {}
    MaxHandle = 0
    Design = "oncelock"
INVARIANTS TypeOK AtMostOneWinner ExactlyOneWinner LosersNeverReceive AllFiveTogether
    EnabledMeansInstalled InertBefore Stable WholeEmitter
CHECK_DEADLOCK FALSE
