\* C03 quick (where instances are made): 2 threads; two instances constructed DURING the program by whichever thread (ThreadLocalCtxt::new() / default(): each thread's first, or both by one thread) next to one default() instance that exists before;
\* keys a,b with property maps {a:1},{a:2,b:1}; kinds push/root/current; guard form; <= 2 frames, no tasks, nesting <= 2; every transition replayed.
SPECIFICATION Spec
CONSTANTS
    NThreads = 2
    StoreOf <- MC_StoreM
    InstKind <- MC_KindM
    NKeys = 2
    PropChoices <- MC_Props2
    DupChoices <- MC_NoDups
    Kinds <- MC_PushRootCurrent
    Forms <- MC_Guard
    MaxFrames = 2
    MaxTasks = 0
    MaxDepth = 2
    Panics = FALSE
    Discards = FALSE
    Emit = TRUE
VIEW cview
INVARIANTS InnermostWins NoTrace StackOK
PROPERTIES ExitRestores Isolation
ACTION_CONSTRAINT EmitReplay
CHECK_DEADLOCK FALSE
