---------------------------- MODULE MCOtlpCount ----------------------------
EXTENDS OtlpCount
Steps == {"d", "s"}
SeqsUpTo(n) == UNION {[1..k -> Steps] : k \in 1..n}
\* 2 - 3 threads, at most 2 steps each, at least two threads with a discard (the interesting ones) plus the sequential ones
MC_Scripts_quick ==
    {<<a, b>> : a \in SeqsUpTo(2), b \in SeqsUpTo(2)} \cup {<<a, b, c>> : a \in {<<"d">>, <<"d", "d">>}, b \in {<<"d">>, <<"s", "d">>}, c \in {<<"d">>, <<"s">>}}
MC_Scripts_thorough ==
    {<<a, b>> : a \in SeqsUpTo(3), b \in SeqsUpTo(3)} \cup {<<a, b, c>> : a \in SeqsUpTo(2), b \in SeqsUpTo(2), c \in SeqsUpTo(2)}
        \cup {<<a, b, c, d>> : a \in {<<"d">>, <<"d", "d">>}, b \in {<<"d">>, <<"s", "d">>}, c \in {<<"d">>, <<"s">>}, d \in {<<"d">>, <<"d", "s">>}}
MC_Scripts_split == {<<<<"d">>, <<"d">>>>}
=============================================================================
