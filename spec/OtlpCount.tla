------------------------------ MODULE OtlpCount ------------------------------
(***************************************************************************)
(* C14, the accounting clause under concurrency: "an event no configured   *)
(* signal takes is counted as discarded" must hold for every interleaving  *)
(* of threads emitting through ONE emitter - the counter is shared, the    *)
(* routing of OtlpRoute.tla runs on the calling thread.                    *)
(*                                                                         *)
(* A script gives every thread a sequence of steps: "d" (an event that     *)
(* nothing configured takes: OtlpRoute's route "discard") or "s" (an event *)
(* the configured signal takes).                                           *)
(* Level A: when all threads are done, discarded = the number of "d"       *)
(* steps, sent = the number of "s" steps, and the counter never exceeds    *)
(* the number of "d" steps already begun.                                  *)
(* Level B: Counter::increment_by.  Atomic = TRUE is the code (one         *)
(* fetch_add: a single action); Atomic = FALSE is the design with a        *)
(* separate load and store (OtlpCount_split.cfg must violate CountExact    *)
(* on every run: it loses updates as soon as two threads overlap).         *)
(***************************************************************************)
EXTENDS Naturals, Sequences, FiniteSets, TLC, Json

CONSTANTS Scripts,      \* set of scripts: sequences (one entry per thread) of sequences over {"d", "s"}
          Atomic, Emit

VARIABLES script, idx, pc, tmp, discarded, sent
vars == <<script, idx, pc, tmp, discarded, sent>>

Threads == 1..Len(script)
Step(t) == script[t][idx[t]]
Done(t) == idx[t] > Len(script[t])

RECURSIVE CountIn(_, _)
CountIn(s, x) == IF s = <<>> THEN 0 ELSE (IF Head(s) = x THEN 1 ELSE 0) + CountIn(Tail(s), x)
RECURSIVE Total(_, _)
Total(sc, x) == IF sc = <<>> THEN 0 ELSE CountIn(Head(sc), x) + Total(Tail(sc), x)
RECURSIVE Begun(_, _, _)
Begun(sc, ix, t) == IF t > Len(sc) THEN 0
                    ELSE CountIn(SubSeq(sc[t], 1, IF ix[t] > Len(sc[t]) THEN Len(sc[t]) ELSE ix[t]), "d") + Begun(sc, ix, t + 1)

Init ==
    /\ script \in Scripts
    /\ idx = [t \in 1..Len(script) |-> 1]
    /\ pc = [t \in 1..Len(script) |-> "emit"]
    /\ tmp = [t \in 1..Len(script) |-> 0]
    /\ discarded = 0 /\ sent = 0

\* an event the configured signal takes: handed to its channel, nothing counted
Sent(t) ==
    /\ ~Done(t) /\ pc[t] = "emit" /\ Step(t) = "s"
    /\ sent' = sent + 1
    /\ idx' = [idx EXCEPT ![t] = @ + 1]
    /\ UNCHANGED <<script, pc, tmp, discarded>>

\* an event nobody takes: event_discarded.increment() - one atomic read-modify-write
Discard(t) ==
    /\ Atomic
    /\ ~Done(t) /\ pc[t] = "emit" /\ Step(t) = "d"
    /\ discarded' = discarded + 1
    /\ idx' = [idx EXCEPT ![t] = @ + 1]
    /\ UNCHANGED <<script, pc, tmp, sent>>

\* the same as a load followed by a store (not the code: the design that loses updates)
Load(t) ==
    /\ ~Atomic
    /\ ~Done(t) /\ pc[t] = "emit" /\ Step(t) = "d"
    /\ tmp' = [tmp EXCEPT ![t] = discarded]
    /\ pc' = [pc EXCEPT ![t] = "store"]
    /\ UNCHANGED <<script, idx, discarded, sent>>
Store(t) ==
    /\ ~Atomic
    /\ pc[t] = "store"
    /\ discarded' = tmp[t] + 1
    /\ pc' = [pc EXCEPT ![t] = "emit"]
    /\ idx' = [idx EXCEPT ![t] = @ + 1]
    /\ UNCHANGED <<script, tmp, sent>>

SentA == \E t \in Threads : Sent(t)
DiscardA == \E t \in Threads : Discard(t)
LoadA == \E t \in Threads : Load(t)
StoreA == \E t \in Threads : Store(t)
Next == SentA \/ DiscardA \/ LoadA \/ StoreA
Spec == Init /\ [][Next]_vars

AllDone == \A t \in Threads : Done(t)
TypeOK == discarded \in Nat /\ sent \in Nat
\* every discard counted exactly once, whatever the interleaving
CountExact == AllDone => (discarded = Total(script, "d") /\ sent = Total(script, "s"))
\* nothing is counted that was not discarded
NeverAhead == discarded <= Begun(script, idx, 1)

\* one REPLAY line per script (the terminal state of a script is one state)
EmitReplay ==
    (Emit /\ AllDone) => PrintT(<<"REPLAY", ToJson([threads |-> script,
                                                    expect |-> [discarded |-> Total(script, "d"), sent |-> Total(script, "s")]])>>)
=============================================================================
