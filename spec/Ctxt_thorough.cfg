\* C03 thorough (model checking only): 2 threads; instances new(), shared(), shared() (storages 1,0,0); property maps {a:1},{a:2,b:1};
\* all kinds and forms; <= 3 frames, 1 task, nesting <= 2, panic unwinding.
SPECIFICATION Spec
CONSTANTS
    NThreads = 2
    StoreOf <- MC_Store3
    InstKind <- MC_Kind3
    NKeys = 2
    PropChoices <- MC_Props2
    DupChoices <- MC_NoDups
    Kinds <- MC_AllKinds
    Forms <- MC_AllForms
    MaxFrames = 3
    MaxTasks = 1
    MaxDepth = 2
    Panics = TRUE
    Discards = TRUE
    Emit = FALSE
VIEW cview
INVARIANTS InnermostWins NoTrace StackOK
PROPERTIES ExitRestores Isolation
ACTION_CONSTRAINT EmitReplay
CHECK_DEADLOCK FALSE
