\* C09 FileChan quick: capacity 2, every sequence of <= 9 operations over {send, take (the worker becomes busy), finish}; the code's clear. Exhaustive.
SPECIFICATION Spec
CONSTANTS
    Capacity = 2
    MaxOps = 9
    LazyClear = FALSE
    Emit = FALSE
VIEW view
INVARIANTS TypeOK LenRefines PendingBounded StoreBounded StoreIsPending
CHECK_DEADLOCK FALSE
