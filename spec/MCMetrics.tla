----------------------------- MODULE MCMetrics -----------------------------
EXTENDS Metrics

CONSTANT Which          \* "quick" | "thorough"

I0 == <<0, 0>>
I1 == <<0, 999999999>>
I2 == <<1, 0>>
I3 == <<1, 1>>
I4 == <<37, 0>>
I5 == <<1000000000, 5>>
MC_Instants == IF Which = "quick" THEN {I0, I1, I2, I3, I4} ELSE {I0, I1, I2, I3, I4, I5}
MC_SysNow == <<2000000000, 0>>

Leaf(id, script) == [k |-> "leaf", id |-> id, script |-> script]
NoneT == [k |-> "none"]

\* three sources: no extent then a one-second range; a point; nothing at all
L1 == Leaf(1, <<NoX, RangeX(I2, I3)>>)
L2 == Leaf(2, <<PointX(I4)>>)
L3 == Leaf(3, <<>>)
\* a backwards range and a range longer than every small reading
L4 == Leaf(4, <<RangeX(I3, I1), RangeX(I0, I4)>>)

Wrappers == {"some", "ref", "box", "arc", "erased"}
NestedClocks == {Off, Fixed(Absent), Fixed(I2), Fixed(I4)}

SeqsUpTo2(S) == {<<>>} \cup {<<a>> : a \in S} \cup {<<a, b>> : a \in S, b \in S}

Base == {L1, L2, L3, L4, NoneT}
Small == {L1, L2, NoneT}

\* depth 1: every combinator over the base; depth 2 (thorough: over all of depth 1; quick: one
\* more layer of every combinator with a small operand on the other side)
D1 == Base
      \cup {[k |-> c, l |-> a, r |-> b] : c \in {"and", "or"}, a \in Base, b \in Base}
      \cup {[k |-> w, x |-> a] : w \in Wrappers, a \in Base}
      \cup {[k |-> "reporter", clock |-> c, srcs |-> ss] : c \in NestedClocks, ss \in SeqsUpTo2(Base)}
D2(Other) ==
      {[k |-> c, l |-> a, r |-> b] : c \in {"and", "or"}, a \in D1, b \in Other}
      \cup {[k |-> c, l |-> b, r |-> a] : c \in {"and", "or"}, a \in D1, b \in Other}
      \cup {[k |-> w, x |-> a] : w \in Wrappers, a \in D1}
      \cup {[k |-> "reporter", clock |-> c, srcs |-> <<a>>] : c \in NestedClocks, a \in D1}
      \cup {[k |-> "reporter", clock |-> c, srcs |-> <<a, b>>] : c \in NestedClocks, a \in D1, b \in Other}

\* every extent over the instants, one sample each
AllExtents == {NoX} \cup {PointX(t) : t \in MC_Instants} \cup {RangeX(s, e) : s \in MC_Instants, e \in MC_Instants}
OneSample == {Leaf(9, <<x>>) : x \in AllExtents}
AllFixed == {Fixed(r) : r \in MC_Instants \cup {Absent}}

\* zero-arity definitions: TLC evaluates them once
D2Q == D2({L2})
D2T == D2(Base)
Compose == D1 \cup (IF Which = "quick" THEN D2Q ELSE D2T)
OrderTrees == {L1, L2, L3, NoneT, [k |-> "and", l |-> L2, r |-> L1]}
NestedTrees == {[k |-> "reporter", clock |-> c, srcs |-> <<a>>] : c \in AllFixed \cup {Off}, a \in OneSample}
NormClocks == AllFixed \cup {Off}

MC_Scens == {"order", "compose", "norm", "nested"}
MC_Addable(s) ==
    CASE s = "order" -> OrderTrees
      [] s = "compose" -> Compose
      [] s = "norm" -> OneSample
      [] s = "nested" -> NestedTrees
MC_ClocksOf(s) ==
    CASE s = "order" -> {Off, Fixed(I4)}
      [] s = "compose" -> {Fixed(I4)}
      [] s = "norm" -> NormClocks
      [] s = "nested" -> {Off, Fixed(Absent), Fixed(I1), Fixed(I4)}
MC_MaxAdds(s) == IF s = "order" THEN 3 ELSE 1
MC_MaxOps(s) == IF s = "order" THEN 5 ELSE 3
=============================================================================
