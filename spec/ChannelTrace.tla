---------------------------- MODULE ChannelTrace ----------------------------
(***************************************************************************)
(* Level A of the batching channel: the observable contract of C06 - C09,  *)
(* written as a monitor over traces recorded from the real emit_batcher    *)
(* (code -> spec).  Variables are what the property statements talk about: *)
(* the accepted sequence, the queue, which items are done / truncated,     *)
(* the batches handed to the processor, the flush requests and what had    *)
(* been accepted before each.  Nothing about the receiver's control flow   *)
(* is constrained beyond that.                                             *)
(*                                                                         *)
(* Events (one ndjson line each, ordered by one global sequence number     *)
(* taken while the channel lock is held for the lock-protected ones):      *)
(*   Reset(cap)                       start of a new, independent trace    *)
(*   SendCall(item, kind)             a send operation begins; kind is     *)
(*                                    "send" | "try" | "block"             *)
(*   Send(item, pushed, trunc, qlen)  critical section of Sender::send     *)
(*   TrySend(item, code, qlen)        code 0 ok, 1 full, 2 closed          *)
(*   SendRet(item, res)               a fallible/blocking send returned    *)
(*   RecvPanicked                     a panic escaped Receiver::exec / took  *)
(*                                    the worker thread down: NO action,     *)
(*                                    always rejected (C08: neither the      *)
(*                                    processor nor a watcher may do that;   *)
(*                                    C06: what it had taken is lost)        *)
(*   WaitBudget(first, rel)           a wait inside a blocking call was    *)
(*                                    given less/equal/more time than the  *)
(*                                    call's timeout (first) / the last    *)
(*   FlushReq(w, obs)                 critical section of when_flushed;    *)
(*                                    obs: its callback is logged (Fired)  *)
(*   Fired(w)                         a flush callback is being invoked    *)
(*   FlushRet(w, ret)                 blocking/async flush returned        *)
(*   EmptyReq(w) / EmptyFired(w)      a raw when_empty callback registered / invoked  *)
(*   Take(n) / TakeEmpty              the receiver's hand-off              *)
(*   Call(items)                      on_batch invoked                     *)
(*   Ret(outcome, rem)                its result (ok|fail|retry|panic..)   *)
(*   Wait(ms, kind)                   delay requested from `wait`          *)
(*   Closing(by) / Closed(by)         sender / receiver drop begins, ends  *)
(*   Exit                             Receiver::exec returned              *)
(*   End(terminal)                    end of trace; terminal = quiescent   *)
(***************************************************************************)
EXTENDS Naturals, Sequences, FiniteSets, TLC, Json, IOUtils

Rec == ndJsonDeserialize(IOEnv.TRACE)

MaxAttempts == 64          \* "a bounded number of times"
MaxWaitMs == 3600000       \* "bounded back-off"

VARIABLES
    l,          \* position in Rec
    cap,
    queue,      \* pending items, in order
    acc,        \* every accepted item, in acceptance order
    done,       \* items whose final attempt has returned
    trunc,      \* items cleared by an overflow truncation
    ntrunc,     \* number of truncations
    batch,      \* the batch taken and not yet finished (first attempt contents)
    cur,        \* argument of the attempt in flight
    phase,      \* "idle" | "taken" | "inflight" | "retry"
    lastRem,    \* remainder returned by the last retryable failure
    attempts,   \* attempts of the current batch
    lastWait,   \* last retry delay of the current batch
    reg,        \* flush requests: function watcher -> set of items accepted before it
    fired,      \* watchers whose callback has been invoked
    closing,    \* a drop of sender or receiver has begun
    senderGone, recvGone, exited,
    kind,       \* function item -> which send operation it was given to
    budget,     \* attempts after which a batch is given up, once observed (0 = not yet known)
    prevMax,    \* the largest number of attempts any finished batch has had
    ereg, efired \* raw when_empty callbacks: registered, invoked

vars == <<l, cap, queue, acc, done, trunc, ntrunc, batch, cur, phase, lastRem, attempts,
          lastWait, reg, fired, closing, senderGone, recvGone, exited, kind, budget, prevMax, ereg, efired>>

SeqSet(q) == {q[i] : i \in 1..Len(q)}
E == Rec[l]
IsEv(name) == l <= Len(Rec) /\ E.ev = name /\ l' = l + 1

Fresh ==
    /\ queue = <<>> /\ acc = <<>> /\ done = {} /\ trunc = {} /\ ntrunc = 0
    /\ batch = <<>> /\ cur = <<>> /\ phase = "idle" /\ lastRem = <<>> /\ attempts = 0
    /\ lastWait = 0 /\ reg = <<>> /\ fired = {} /\ closing = FALSE
    /\ senderGone = FALSE /\ recvGone = FALSE /\ exited = FALSE /\ kind = <<>> /\ budget = 0 /\ prevMax = 0 /\ ereg = {} /\ efired = {}

Init == l = 1 /\ cap = 1 /\ Fresh

Reset ==
    /\ IsEv("Reset")
    /\ cap' = E.cap
    /\ queue' = <<>> /\ acc' = <<>> /\ done' = {} /\ trunc' = {} /\ ntrunc' = 0
    /\ batch' = <<>> /\ cur' = <<>> /\ phase' = "idle" /\ lastRem' = <<>> /\ attempts' = 0
    /\ lastWait' = 0 /\ reg' = <<>> /\ fired' = {} /\ closing' = FALSE
    /\ senderGone' = FALSE /\ recvGone' = FALSE /\ exited' = FALSE /\ kind' = <<>> /\ budget' = 0 /\ prevMax' = 0 /\ ereg' = {} /\ efired' = {}

SendCall ==
    /\ IsEv("SendCall")
    /\ E.item \notin DOMAIN kind
    /\ kind' = (E.item :> E.kind) @@ kind
    /\ UNCHANGED <<cap, queue, acc, done, trunc, ntrunc, batch, cur, phase, lastRem, attempts,
                   lastWait, reg, fired, closing, senderGone, recvGone, exited, budget, prevMax, ereg, efired>>

Open == ~senderGone /\ ~recvGone

(* C09: a plain send that finds the queue full discards the whole pending queue, keeps the
   new item and counts one truncation; the queue never exceeds the capacity.  C06: an item
   is accepted at most once. *)
Send ==
    /\ IsEv("Send")
    /\ LET full == Len(queue) >= cap
           q1 == IF full THEN <<>> ELSE queue
       IN /\ E.trunc = full
          /\ E.item \notin SeqSet(acc)
          \* only the plain send may truncate: it must have been called as such
          /\ E.item \in DOMAIN kind /\ kind[E.item] = "send"
          /\ \/ closing                    \* racing with a drop: either outcome
             \/ E.pushed = Open
          /\ IF E.pushed
             THEN /\ queue' = Append(q1, E.item) /\ acc' = Append(acc, E.item)
             ELSE /\ queue' = q1 /\ acc' = acc
          /\ trunc' = IF full THEN trunc \cup SeqSet(queue) ELSE trunc
          /\ ntrunc' = IF full THEN ntrunc + 1 ELSE ntrunc
          /\ E.qlen = Len(queue')
          /\ Len(queue') <= cap
    \* the call has had its critical section (SendRet "sent" asks for it; a second one for the same call is refused above)
    /\ kind' = [kind EXCEPT ![E.item] = "sent"]
    /\ UNCHANGED <<cap, done, batch, cur, phase, lastRem, attempts, lastWait, reg, fired,
                   closing, senderGone, recvGone, exited, budget, prevMax, ereg, efired>>

(* C09: the fallible send enqueues iff there is room, never discards anything *)
TrySend ==
    /\ IsEv("TrySend")
    /\ E.item \notin SeqSet(acc)
    /\ E.item \in DOMAIN kind /\ kind[E.item] \in {"try", "block"}
    /\ \/ /\ E.code = 0 /\ Len(queue) < cap /\ (Open \/ closing)
          /\ queue' = Append(queue, E.item) /\ acc' = Append(acc, E.item)
       \/ /\ E.code = 1 /\ Len(queue) >= cap /\ (Open \/ closing)
          /\ UNCHANGED <<queue, acc, kind, budget, prevMax, ereg, efired>>
       \/ /\ E.code = 2 /\ (~Open \/ closing)
          /\ UNCHANGED <<queue, acc, kind, budget, prevMax, ereg, efired>>
    /\ E.qlen = Len(queue')
    /\ UNCHANGED <<cap, done, trunc, ntrunc, batch, cur, phase, lastRem, attempts, lastWait,
                   reg, fired, closing, senderGone, recvGone, exited, kind, budget, prevMax, ereg, efired>>

(* C08 / C09: a blocking call returns within its timeout: the budget of its first wait does not
   exceed the call's timeout, and every further wait of the same call gets strictly less than
   the previous one (time has passed).  The harness compares the durations (they do not fit
   TLC's integers) and logs the relation. *)
WaitBudget ==
    /\ IsEv("WaitBudget")
    /\ IF E.first THEN E.rel \in {"lt", "eq"} ELSE E.rel = "lt"
    /\ UNCHANGED <<cap, queue, acc, done, trunc, ntrunc, batch, cur, phase, lastRem, attempts,
                   lastWait, reg, fired, closing, senderGone, recvGone, exited, kind, budget,
                   prevMax, ereg, efired>>

(* C09: fallible / blocking sends either enqueued the item or handed it back *)
SendRet ==
    /\ IsEv("SendRet")
    /\ E.res = "ok" => E.item \in SeqSet(acc)
    /\ E.res = "err-full-returned" => E.item \notin SeqSet(acc)
    /\ E.res \in {"ok", "err-full-returned", "err-closed", "sent"}
    /\ E.res = "err-closed" => (~Open \/ closing)
    \* C06: a plain send has no way to hand the item back, so when it returns the channel has decided the item in a
    \* critical section of its own (accepted it, or refused it because the channel is closed): a send that returns
    \* without one has lost the item silently (e.g. by giving up when the lock is contended)
    /\ E.res = "sent" => (E.item \in DOMAIN kind /\ kind[E.item] = "sent")
    /\ UNCHANGED <<cap, queue, acc, done, trunc, ntrunc, batch, cur, phase, lastRem, attempts,
                   lastWait, reg, fired, closing, senderGone, recvGone, exited, kind, budget, prevMax, ereg, efired>>

FlushReq ==
    /\ IsEv("FlushReq")
    /\ E.w \notin DOMAIN reg
    /\ reg' = (E.w :> [items |-> SeqSet(acc), obs |-> E.obs]) @@ reg
    /\ UNCHANGED <<cap, queue, acc, done, trunc, ntrunc, batch, cur, phase, lastRem, attempts,
                   lastWait, fired, closing, senderGone, recvGone, exited, kind, budget, prevMax, ereg, efired>>

(* C07: a flush reports completion only when everything accepted before the request has
   finished its final attempt or was truncated (while the receiver is alive) *)
Flushed(w) == recvGone \/ closing \/ \A i \in reg[w].items : i \in done \cup trunc

(* C08: every callback is invoked at most once *)
Fired ==
    /\ IsEv("Fired")
    /\ E.w \in DOMAIN reg
    /\ E.w \notin fired
    /\ Flushed(E.w)
    /\ fired' = fired \cup {E.w}
    /\ UNCHANGED <<cap, queue, acc, done, trunc, ntrunc, batch, cur, phase, lastRem, attempts,
                   lastWait, reg, closing, senderGone, recvGone, exited, kind, budget, prevMax, ereg, efired>>

(* C08: every registered empty callback is invoked at most once (exactly once by the end of a
   terminal trace) *)
EmptyReq ==
    /\ IsEv("EmptyReq")
    /\ E.w \notin ereg
    /\ ereg' = ereg \cup {E.w}
    /\ UNCHANGED <<cap, queue, acc, done, trunc, ntrunc, batch, cur, phase, lastRem, attempts,
                   lastWait, reg, fired, closing, senderGone, recvGone, exited, kind, budget,
                   prevMax, efired>>

EmptyFired ==
    /\ IsEv("EmptyFired")
    /\ E.w \in ereg /\ E.w \notin efired
    /\ efired' = efired \cup {E.w}
    /\ UNCHANGED <<cap, queue, acc, done, trunc, ntrunc, batch, cur, phase, lastRem, attempts,
                   lastWait, reg, fired, closing, senderGone, recvGone, exited, kind, budget,
                   prevMax, ereg>>

FlushRet ==
    /\ IsEv("FlushRet")
    /\ E.w \in DOMAIN reg
    /\ E.ret => Flushed(E.w)
    /\ UNCHANGED <<cap, queue, acc, done, trunc, ntrunc, batch, cur, phase, lastRem, attempts,
                   lastWait, reg, fired, closing, senderGone, recvGone, exited, kind, budget, prevMax, ereg, efired>>

(* C06: the receiver takes exactly the pending queue, and only when the previous batch is
   finished: batches partition the accepted sequence in order *)
Take ==
    /\ IsEv("Take")
    /\ phase = "idle" /\ ~exited
    /\ E.n = Len(queue) /\ E.n > 0
    /\ batch' = queue /\ queue' = <<>>
    /\ phase' = "taken" /\ attempts' = 0 /\ lastWait' = 0
    /\ UNCHANGED <<cap, acc, done, trunc, ntrunc, cur, lastRem, reg, fired, closing,
                   senderGone, recvGone, exited, kind, budget, prevMax, ereg, efired>>

TakeEmpty ==
    /\ IsEv("TakeEmpty")
    /\ phase = "idle" /\ ~exited
    /\ queue = <<>>
    /\ UNCHANGED <<cap, queue, acc, done, trunc, ntrunc, batch, cur, phase, lastRem, attempts,
                   lastWait, reg, fired, closing, senderGone, recvGone, exited, kind, budget, prevMax, ereg, efired>>

(* C06: the first attempt gets exactly the batch taken; a retry gets exactly the remainder
   the processor returned.  C08: bounded attempts. *)
Call ==
    /\ IsEv("Call")
    /\ \/ /\ phase = "taken" /\ E.items = batch
       \/ /\ phase = "retry" /\ E.items = lastRem
    /\ cur' = E.items
    /\ attempts' = attempts + 1
    /\ attempts' <= MaxAttempts
    /\ phase' = "inflight"
    /\ UNCHANGED <<cap, queue, acc, done, trunc, ntrunc, batch, lastRem, lastWait, reg, fired,
                   closing, senderGone, recvGone, exited, kind, budget, prevMax, ereg, efired>>

\* The processor's result.  After a retryable failure with a non-empty remainder the receiver
\* either retries or gives up; the size of its budget is not part of the statement, but the
\* budget is per batch: a batch is not given up after fewer attempts than an earlier batch was
\* granted, and once some batch was given up after n attempts no batch gets more than n (C06:
\* the remainder is re-delivered; C08: each batch is attempted a bounded number of times and
\* then given up).
Max(a, b) == IF a > b THEN a ELSE b
Ret ==
    /\ IsEv("Ret")
    /\ phase = "inflight"
    /\ \/ /\ E.outcome = "retry" /\ E.rem # <<>>             \* will be retried
          /\ SeqSet(E.rem) \subseteq SeqSet(cur)
          /\ budget = 0 \/ attempts < budget
          /\ phase' = "retry" /\ lastRem' = E.rem
          /\ done' = done \cup (SeqSet(cur) \ SeqSet(E.rem))
          /\ UNCHANGED <<budget, prevMax, ereg, efired>>
       \/ /\ E.outcome = "retry" /\ E.rem # <<>>             \* given up
          /\ \/ recvGone \/ closing
             \/ /\ attempts >= prevMax
                /\ budget = 0 \/ attempts = budget
          /\ budget' = IF budget = 0 /\ ~recvGone /\ ~closing THEN attempts ELSE budget
          /\ prevMax' = Max(prevMax, attempts)
          /\ phase' = "idle" /\ lastRem' = <<>>
          /\ done' = done \cup SeqSet(cur)
       \/ /\ ~(E.outcome = "retry" /\ E.rem # <<>>)          \* final result
          /\ phase' = "idle" /\ lastRem' = <<>>
          /\ done' = done \cup SeqSet(cur)
          /\ prevMax' = Max(prevMax, attempts)
          /\ budget' = budget
    /\ UNCHANGED <<cap, queue, acc, trunc, ntrunc, batch, cur, attempts, lastWait, reg, fired,
                   closing, senderGone, recvGone, exited, kind, ereg, efired>>

(* C08: bounded, non-decreasing back-off between the attempts of one batch *)
Wait ==
    /\ IsEv("Wait")
    /\ E.ms <= MaxWaitMs
    /\ IF phase = "retry"
       THEN /\ E.ms >= lastWait /\ lastWait' = E.ms
       ELSE /\ phase = "idle" /\ lastWait' = lastWait
    /\ UNCHANGED <<cap, queue, acc, done, trunc, ntrunc, batch, cur, phase, lastRem, attempts,
                   reg, fired, closing, senderGone, recvGone, exited, kind, budget, prevMax, ereg, efired>>

Closing ==
    /\ IsEv("Closing")
    /\ closing' = TRUE
    /\ UNCHANGED <<cap, queue, acc, done, trunc, ntrunc, batch, cur, phase, lastRem, attempts,
                   lastWait, reg, fired, senderGone, recvGone, exited, kind, budget, prevMax, ereg, efired>>

Closed ==
    /\ IsEv("Closed")
    /\ closing' = FALSE
    /\ IF E.by = "sender" THEN senderGone' = TRUE /\ recvGone' = recvGone
                          ELSE recvGone' = TRUE /\ senderGone' = senderGone
    /\ UNCHANGED <<cap, queue, acc, done, trunc, ntrunc, batch, cur, phase, lastRem, attempts,
                   lastWait, reg, fired, exited, kind, budget, prevMax, ereg, efired>>

(* C08: exec returns only after the sender is gone, with nothing queued or in flight *)
Exit ==
    /\ IsEv("Exit")
    /\ senderGone /\ queue = <<>> /\ phase = "idle"
    /\ exited' = TRUE
    /\ UNCHANGED <<cap, queue, acc, done, trunc, ntrunc, batch, cur, phase, lastRem, attempts,
                   lastWait, reg, fired, closing, senderGone, recvGone, kind, budget, prevMax, ereg, efired>>

(* end of a trace; a terminal trace (sender dropped, receiver ran to completion) must have
   processed everything and fired every callback exactly once *)
End ==
    /\ IsEv("End")
    /\ E.terminal =>
          /\ exited
          /\ \A i \in SeqSet(acc) : i \in done \cup trunc
          /\ \A w \in DOMAIN reg : reg[w].obs => w \in fired
          /\ ereg \subseteq efired
    /\ UNCHANGED <<cap, queue, acc, done, trunc, ntrunc, batch, cur, phase, lastRem, attempts,
                   lastWait, reg, fired, closing, senderGone, recvGone, exited, kind, budget, prevMax, ereg, efired>>

Next ==
    \/ Reset \/ SendCall \/ WaitBudget \/ Send \/ TrySend \/ EmptyReq \/ EmptyFired \/ SendRet \/ FlushReq \/ Fired \/ FlushRet \/ Take \/ TakeEmpty
    \/ Call \/ Ret \/ Wait \/ Closing \/ Closed \/ Exit \/ End

Spec == Init /\ [][Next]_vars

-----------------------------------------------------------------------------
(* safety that must hold at every step of every recorded execution *)
QueueBounded == Len(queue) <= cap
\* (as a cardinality: the pairwise form is quadratic per state and the stress traces accept thousands of items)
AccNoDup == Cardinality(SeqSet(acc)) = Len(acc)

\* acceptance: the whole trace was consumed (every action consumes exactly one event, so the
\* diameter of the explored graph is the longest explained prefix); otherwise report the first
\* unexplained event.
TraceAccepted ==
    LET n == TLCGet("stats").diameter IN
    IF n - 1 = Len(Rec) THEN TRUE
    ELSE /\ PrintT(<<"REJECTED", n, ToJson(Rec[n])>>)
         /\ FALSE
=============================================================================
