----------------------------- MODULE SpanGuard -----------------------------
(***************************************************************************)
(* C05 - each enabled, started span completes exactly once; disabled       *)
(* spans never do.                                                         *)
(*                                                                         *)
(* Level B (the code, src/span.rs SpanGuard): the record `g` holds the     *)
(* three fields of the guard - `st` (SpanGuardState: Initial / Started /   *)
(* Completed), the data (`hasData` = Option is Some, mdl, name, props) and *)
(* `comp` (Option<F>, "none" = disabled by the filter).  Every public      *)
(* operation is one action; the builder operations that consume `self`     *)
(* leave a residual guard behind whose Drop runs `complete_default` too.   *)
(* `complete_default` / `complete_with` are the `(state.take(),            *)
(* data.take(), completion.take())` triple of the code.  The default       *)
(* completion (span::completion::Default) is transcribed by BLvl / BErr.   *)
(*                                                                         *)
(* Level A (the statement): ghost variables a* say what the statement      *)
(* talks about: the filter verdict, whether the span was started, the      *)
(* data / completion of the last builder call, the clock readings taken at *)
(* start and at completion.  AExpected is the completion the statement     *)
(* demands; the invariants say that level B produces exactly that.         *)
(*                                                                         *)
(* The graph is finite without a bound on the number of operations, so     *)
(* TLC decides the invariants for operation sequences of every length.     *)
(*                                                                         *)
(* `form` restricts the sequences to those a macro expansion can produce   *)
(* (macros/src/span.rs): "plain" = #[span] without result levels, "result" *)
(* = with ok_lvl / err_lvl, "guard" = with the `guard:` parameter; "none"  *)
(* = the guard used directly, any order and multiplicity.                  *)
(***************************************************************************)
EXTENDS Naturals, Sequences, FiniteSets, TLC, Json

CONSTANTS
    Mdls,        \* modules a with_mdl call may set (initial "m0")
    Names,       \* names a with_name call may set (initial "n0")
    PropVals,    \* values of property `a` a with_props call may set (initial 0)
    NewComps,    \* completions SpanGuard::new may be given
    WithComps,   \* completions with_completion may be given
    CwComps,     \* completions complete_with may be given
    Scripts,     \* clock scripts <<reading at 1st now(), reading at 2nd now()>>, 0 = None
    Forms,       \* subset of {"none", "plain", "result", "guard"}
    Frames,      \* subset of {"in", "out"}: operations run inside / after the span's frame
    F2Bug,       \* TRUE: transcribe with_completion as found (defect F2)
    Emit         \* TRUE: print one REPLAY line per transition

NoComp == "none"
NoR == 0

\* the default completions (span::completion::Default) and their configuration
DefaultKinds == {"dflt", "dfltL"}
ResultKinds == {"ok", "err"}
CfgLvl(c) == IF c = "dfltL" THEN "info" ELSE "none"        \* with_lvl
CfgPanicLvl(c) == IF c = "dfltL" THEN "warn" ELSE "none"   \* with_panic_lvl

VARIABLES
    phase,      \* "init" (no guard yet), "live", "done" (guard consumed)
    g,          \* level B: the guard
    calls,      \* level B: the completion calls made so far
    ret,        \* "na" or the bool returned by complete / complete_with
    npos,       \* level B: number of clock readings taken so far
    script, form, frame,   \* environment fixed by New
    verdict,    \* level A: the filter's verdict
    aStarted,   \* level A: start() was called
    aMdl, aName, aProps, aComp,   \* level A: data of the last builder call
    aTerm,      \* level A: the terminal operation [op, c, pan]
    hist        \* history of operations with predicted observations (hidden by VIEW)

vars == <<phase, g, calls, ret, npos, script, form, frame, verdict, aStarted,
          aMdl, aName, aProps, aComp, aTerm, hist>>
view == <<phase, g, calls, ret, npos, script, form, frame, verdict, aStarted,
          aMdl, aName, aProps, aComp, aTerm>>

NoGuard == [st |-> "Completed", hasData |-> FALSE, mdl |-> "m0", name |-> "n0",
            props |-> [a |-> 0, m |-> FALSE], comp |-> NoComp, startR |-> NoR]
NoTerm == [op |-> "none", c |-> NoComp, pan |-> FALSE]

-----------------------------------------------------------------------------
(* Level B: transcription *)

\* span::completion::Default::complete: level and error it adds
BLvl(c, pan) ==
    IF c \in DefaultKinds
    THEN IF pan THEN (IF CfgPanicLvl(c) # "none" THEN CfgPanicLvl(c) ELSE "error")
         ELSE CfgLvl(c)
    ELSE IF c = "ok" THEN "debug"      \* ok_lvl of the fixtures
    ELSE IF c = "err" THEN "warn"      \* err_lvl of the fixtures
    ELSE "na"
BErr(c, pan) ==
    IF c \in DefaultKinds THEN (IF pan THEN "panicked" ELSE "none")
    ELSE IF c = "ok" THEN "none"
    ELSE IF c = "err" THEN "some"
    ELSE "na"

\* Timer::extent
BExtent(startR, endR) == IF startR # NoR /\ endR # NoR THEN <<startR, endR>> ELSE <<>>

Reading(i) == IF i <= Len(script) THEN script[i] ELSE NoR

\* (state.take(), data.take(), completion.take())
Taken(gr) == [gr EXCEPT !.st = "Completed", !.hasData = FALSE, !.comp = NoComp]
Fires(gr) == gr.st = "Started" /\ gr.hasData /\ gr.comp # NoComp

\* the call made when the triple matches; c is the completion used
CallOf(gr, c, endR, pan) ==
    [cid |-> c, mdl |-> gr.mdl, name |-> gr.name, props |-> gr.props,
     extent |-> BExtent(gr.startR, endR), lvl |-> BLvl(c, pan), err |-> BErr(c, pan)]

\* complete_default on guard gr (pan: the thread is panicking); <<calls, readings>>
CompleteDefault(gr, pan, np) ==
    IF Fires(gr) THEN <<(<<CallOf(gr, gr.comp, Reading(np + 1), pan)>>), np + 1>>
    ELSE <<(<<>>), np>>

-----------------------------------------------------------------------------
(* which operations a form admits *)
Builder(op) == op \in {"WithMdl", "WithName", "WithProps", "MapProps", "WithCompletion"}
Allowed(op) ==
    /\ phase = "live"
    /\ IF form = "none" THEN TRUE
       ELSE IF g.st = "Initial" THEN op = "Start"     \* the expansion starts the guard first
       ELSE IF form = "plain" THEN op \in {"Drop", "DropWhilePanicking"}
       ELSE IF form = "result" THEN op \in {"CompleteWithResult", "DropWhilePanicking"}
       ELSE op \in {"Start", "WithMdl", "WithName", "Complete", "CompleteWith", "Drop",
                    "DropWhilePanicking"}

Rec(op, a, x) == [op |-> op, a |-> a, x |-> x]
Obs(h, en, r, n) == [op |-> h.op, a |-> h.a, x |-> h.x, en |-> en, ret |-> r, n |-> n]

Init ==
    /\ phase = "init" /\ g = NoGuard /\ calls = <<>> /\ ret = "na" /\ npos = 0
    /\ script = <<>> /\ form = "none" /\ frame = "in"
    /\ verdict = FALSE /\ aStarted = FALSE
    /\ aMdl = "m0" /\ aName = "n0" /\ aProps = [a |-> 0, m |-> FALSE] /\ aComp = NoComp
    /\ aTerm = NoTerm /\ hist = <<>>

\* SpanGuard::new with a filter answering v
New(v, c, s, f, fr) ==
    /\ phase = "init"
    /\ f # "none" => c \in DefaultKinds /\ fr = "in"
    /\ phase' = "live"
    /\ g' = [st |-> "Initial", hasData |-> TRUE, mdl |-> "m0", name |-> "n0",
             props |-> [a |-> 0, m |-> FALSE], comp |-> IF v THEN c ELSE NoComp,
             startR |-> NoR]
    /\ script' = s /\ form' = f /\ frame' = fr /\ verdict' = v /\ aComp' = c
    /\ hist' = <<Obs(Rec("New", c, ""), v, "na", 0)>>
    /\ UNCHANGED <<calls, ret, npos, aStarted, aMdl, aName, aProps, aTerm>>

\* start(): only Initial -> Started, reading the clock once
Start ==
    /\ Allowed("Start")
    /\ IF g.st = "Initial"
       THEN /\ g' = [g EXCEPT !.st = "Started", !.startR = Reading(npos + 1)]
            /\ npos' = npos + 1
       ELSE UNCHANGED <<g, npos>>
    /\ aStarted' = TRUE
    /\ hist' = Append(hist, Obs(Rec("Start", "", ""), verdict, "na", Len(calls)))
    /\ UNCHANGED <<phase, calls, ret, script, form, frame, verdict, aMdl, aName, aProps,
                   aComp, aTerm>>

WithMdl(m) ==
    /\ Allowed("WithMdl")
    /\ g' = IF g.hasData THEN [g EXCEPT !.mdl = m] ELSE g
    /\ aMdl' = m
    /\ hist' = Append(hist, Obs(Rec("WithMdl", m, ""), verdict, "na", Len(calls)))
    /\ UNCHANGED <<phase, calls, ret, npos, script, form, frame, verdict, aStarted, aName,
                   aProps, aComp, aTerm>>

WithName(n) ==
    /\ Allowed("WithName")
    /\ g' = IF g.hasData THEN [g EXCEPT !.name = n] ELSE g
    /\ aName' = n
    /\ hist' = Append(hist, Obs(Rec("WithName", n, ""), verdict, "na", Len(calls)))
    /\ UNCHANGED <<phase, calls, ret, npos, script, form, frame, verdict, aStarted, aMdl,
                   aProps, aComp, aTerm>>

\* map_props(f): the new guard takes state, (mapped) data and completion; the old `self`
\* is dropped afterwards, which runs complete_default on what is left of it
MapWith(opname, arg, newProps) ==
    /\ Allowed(opname)
    /\ LET residual == Taken(g)
           rd == CompleteDefault(residual, FALSE, npos)
       IN /\ g' = IF g.hasData THEN [g EXCEPT !.props = newProps] ELSE g
          /\ calls' = calls \o rd[1]
          /\ npos' = rd[2]
          /\ hist' = Append(hist, Obs(Rec(opname, arg, ""), verdict, "na", Len(calls \o rd[1])))
    /\ aProps' = newProps
    /\ UNCHANGED <<phase, ret, script, form, frame, verdict, aStarted, aMdl, aName, aComp, aTerm>>

WithProps(v) == MapWith("WithProps", ToString(v), [a |-> v, m |-> FALSE])
\* the harness maps p to p.and_props(("m", 1))
MapProps == MapWith("MapProps", "", [a |-> aProps.a, m |-> TRUE])

\* with_completion(c)
WithCompletion(c) ==
    /\ Allowed("WithCompletion")
    /\ LET residual == Taken(g)
           rd == CompleteDefault(residual, FALSE, npos)
       IN /\ g' = [g EXCEPT !.comp = IF F2Bug THEN c
                                      ELSE IF g.comp # NoComp THEN c ELSE NoComp]
          /\ calls' = calls \o rd[1]
          /\ npos' = rd[2]
          /\ hist' = Append(hist, Obs(Rec("WithCompletion", c, ""), verdict, "na",
                                      Len(calls \o rd[1])))
    /\ aComp' = c
    /\ UNCHANGED <<phase, ret, script, form, frame, verdict, aStarted, aMdl, aName, aProps, aTerm>>

\* common part of the terminal operations: first the explicit completion (if any), then
\* the Drop of `self`
Terminal(opname, arg, x, first, pan, hasRet) ==
    \* first = <<calls, readings, guard left>> of the explicit step
    LET dropped == CompleteDefault(first[3], pan, first[2])
        cs == calls \o first[1] \o dropped[1]
    IN /\ phase' = "done"
       /\ calls' = cs
       /\ npos' = dropped[2]
       /\ g' = Taken(first[3])
       /\ ret' = IF hasRet THEN (IF first[1] # <<>> THEN "true" ELSE "false") ELSE "na"
       /\ hist' = Append(hist, Obs(Rec(opname, arg, x), verdict,
                    IF hasRet THEN (IF first[1] # <<>> THEN "true" ELSE "false") ELSE "na",
                    Len(cs)))
       /\ UNCHANGED <<script, form, frame, verdict, aStarted, aMdl, aName, aProps, aComp>>

\* complete(): complete_default, then drop
Complete ==
    /\ Allowed("Complete")
    /\ LET cd == CompleteDefault(g, FALSE, npos)
       IN Terminal("Complete", "", "", <<cd[1], cd[2], Taken(g)>>, FALSE, TRUE)
    /\ aTerm' = [op |-> "Complete", c |-> NoComp, pan |-> FALSE]

\* complete_with(c): the triple again, but the argument is called
CompleteWithAs(opname, c, x) ==
    /\ Allowed(opname)
    /\ LET first == IF Fires(g)
                    THEN <<(<<CallOf(g, c, Reading(npos + 1), FALSE)>>), npos + 1, Taken(g)>>
                    ELSE <<(<<>>), npos, Taken(g)>>
       IN Terminal("CompleteWith", c, x, first, FALSE, TRUE)
    /\ aTerm' = [op |-> "CompleteWith", c |-> c, pan |-> FALSE]

CompleteWith(c) == c \notin ResultKinds /\ CompleteWithAs("CompleteWith", c, "")
\* the result-aware completions generated by the macro; x names the exit path of the body
CompleteWithResult(c, x) ==
    /\ c \in ResultKinds \cap CwComps
    /\ IF form = "none" THEN x = ""
       ELSE x \in (IF c = "ok" THEN {"ok", "early_ok"} ELSE {"q_err", "early_err"})
    /\ CompleteWithAs(IF form = "none" THEN "CompleteWith" ELSE "CompleteWithResult", c, x)

DropAs(opname, pan, x) ==
    /\ Allowed(opname)
    /\ Terminal(opname, "", x, <<(<<>>), npos, g>>, pan, FALSE)
    /\ aTerm' = [op |-> opname, c |-> NoComp, pan |-> pan]

Drop(x) ==
    /\ IF form = "plain" THEN x \in {"ret", "early"} ELSE x = ""
    /\ DropAs("Drop", FALSE, x)
DropWhilePanicking ==
    /\ phase = "live"
    /\ DropAs("DropWhilePanicking", TRUE, IF form = "none" THEN "" ELSE "panic")

Next ==
    \/ \E v \in BOOLEAN, c \in NewComps, s \in Scripts, f \in Forms, fr \in Frames :
            New(v, c, s, f, fr)
    \/ Start
    \/ \E m \in Mdls : WithMdl(m)
    \/ \E n \in Names : WithName(n)
    \/ \E v \in PropVals : WithProps(v)
    \/ MapProps
    \/ \E c \in WithComps : WithCompletion(c)
    \/ Complete
    \/ \E c \in CwComps : CompleteWith(c)
    \/ \E c \in ResultKinds, x \in {"", "ok", "early_ok", "q_err", "early_err"} :
            CompleteWithResult(c, x)
    \/ \E x \in {"", "ret", "early"} : Drop(x)
    \/ DropWhilePanicking

Spec == Init /\ [][Next]_vars

-----------------------------------------------------------------------------
(* Level A: what the statement demands *)

ACid == IF aTerm.op = "CompleteWith" THEN aTerm.c ELSE aComp
AStartR == Reading(1)      \* the reading taken at (the first) start
AEndR == Reading(2)        \* the reading taken at completion
AMustComplete == verdict /\ aStarted

\* "panic unwinding ... adds an error and the panic level"
ALvl(c, pan) ==
    IF c \in DefaultKinds
    THEN IF pan THEN (IF c = "dfltL" THEN "warn" ELSE "error")
         ELSE (IF c = "dfltL" THEN "info" ELSE "none")
    ELSE IF c = "ok" THEN "debug" ELSE IF c = "err" THEN "warn" ELSE "na"
AErr(c, pan) ==
    IF c \in DefaultKinds THEN (IF pan THEN "panicked" ELSE "none")
    ELSE IF c = "ok" THEN "none" ELSE IF c = "err" THEN "some" ELSE "na"

\* the completion the statement predicts once the guard is gone (extentAny = the statement
\* is silent about the extent when a reading is unavailable)
AExpected ==
    IF phase = "done" /\ AMustComplete
    THEN <<[cid |-> ACid, mdl |-> aMdl, name |-> aName, props |-> aProps,
            extent |-> IF AStartR # NoR /\ AEndR # NoR THEN <<AStartR, AEndR>> ELSE <<>>,
            extentAny |-> ~(AStartR # NoR /\ AEndR # NoR),
            lvl |-> ALvl(ACid, aTerm.pan), err |-> AErr(ACid, aTerm.pan)]>>
    ELSE <<>>

\* Probes: what the statement predicts for every terminal operation applied to a live
\* guard.  A non-terminal edge of the graph may be a self-loop at this level (a second
\* start(), a repeated with_name): replaying the edge alone would not observe a guard the
\* code corrupted, so the harness follows every such edge by every terminal operation.
ProbeTerms ==
    IF phase # "live" \/ form \in {"plain", "result"} \/ (form = "guard" /\ ~aStarted) THEN {}
    ELSE {[op |-> "Complete", c |-> NoComp, pan |-> FALSE],
          [op |-> "Drop", c |-> NoComp, pan |-> FALSE],
          [op |-> "DropWhilePanicking", c |-> NoComp, pan |-> TRUE]}
         \cup {[op |-> "CompleteWith", c |-> c, pan |-> FALSE] :
                  c \in IF form = "none" THEN CwComps ELSE CwComps \ ResultKinds}
ProbeCid(t) == IF t.op = "CompleteWith" THEN t.c ELSE aComp
\* the completion predicted for a terminal operation, up to cid / lvl / err (in Probes)
ProbeBase ==
    IF phase = "live" /\ AMustComplete
    THEN <<[cid |-> aComp, mdl |-> aMdl, name |-> aName, props |-> aProps,
            extent |-> IF AStartR # NoR /\ AEndR # NoR THEN <<AStartR, AEndR>> ELSE <<>>,
            extentAny |-> ~(AStartR # NoR /\ AEndR # NoR),
            lvl |-> "na", err |-> "na"]>>
    ELSE <<>>
\* <<op, a, ret, n, cid, lvl, err>> (is_enabled stays the verdict)
ProbeOf(t) ==
    <<t.op, IF t.op = "CompleteWith" THEN t.c ELSE "",
      IF t.op \in {"Complete", "CompleteWith"}
      THEN (IF AMustComplete THEN "true" ELSE "false") ELSE "na",
      IF AMustComplete THEN 1 ELSE 0,
      ProbeCid(t), ALvl(ProbeCid(t), t.pan), AErr(ProbeCid(t), t.pan)>>
Probes == {ProbeOf(t) : t \in ProbeTerms}

TypeOK ==
    /\ phase \in {"init", "live", "done"}
    /\ g.st \in {"Initial", "Started", "Completed"}
    /\ ret \in {"na", "true", "false"}
    /\ npos \in 0..4

AtMostOnce == Len(calls) <= 1

ExactlyOnceIffEnabledStarted ==
    /\ phase # "done" => calls = <<>>
    /\ phase = "done" => (Len(calls) = 1 <=> AMustComplete)

\* is_enabled() is the filter's verdict whatever builder operations were applied
EnabledIsFilterVerdict == phase = "live" => ((g.comp # NoComp) <=> verdict)

ReturnValueTruthful == ret # "na" => (ret = "true" <=> Len(calls) = 1)

ExtentIsStartToEnd ==
    calls # <<>> /\ AStartR # NoR /\ AEndR # NoR => calls[1].extent = <<AStartR, AEndR>>

CarriesLatestData ==
    calls # <<>> => /\ calls[1].mdl = aMdl /\ calls[1].name = aName
                    /\ calls[1].props = aProps /\ calls[1].cid = ACid

PanicAddsErrAndLevel ==
    calls # <<>> => /\ calls[1].lvl = ALvl(ACid, aTerm.pan)
                    /\ calls[1].err = AErr(ACid, aTerm.pan)

\* level B produces exactly the completion of level A (everything above in one)
RefinesStatement ==
    /\ Len(calls) = Len(AExpected)
    /\ calls # <<>> =>
         LET b == calls[1]  a == AExpected[1]
         IN /\ b.cid = a.cid /\ b.mdl = a.mdl /\ b.name = a.name /\ b.props = a.props
            /\ b.lvl = a.lvl /\ b.err = a.err
            /\ ~a.extentAny => b.extent = a.extent

\* the probe prediction is the prediction of the terminal action itself
ProbesAgree ==
    [][phase = "live" /\ phase' = "done" /\ ProbeTerms # {} =>
        \E pr \in Probes :
            /\ pr[1] = aTerm'.op /\ pr[5] = ACid'
            /\ Len(AExpected') = pr[4]
            /\ AExpected' # <<>> =>
                 AExpected'[1] = [ProbeBase[1] EXCEPT !.cid = pr[5], !.lvl = pr[6],
                                                     !.err = pr[7]]]_vars

\* the live guard always holds its data, and is never Completed
LiveGuardWhole == phase = "live" => g.hasData /\ g.st # "Completed"

-----------------------------------------------------------------------------
(* spec -> code: one REPLAY line per transition: the operations so far (each with the
   is_enabled / return value / number of completions the statement predicts after it)
   and the completion calls predicted at the end. *)
EmitReplay ==
    Emit => PrintT(<<"REPLAY", ToJson([verdict |-> verdict', script |-> script',
                 form |-> form', frame |-> frame', done |-> phase' = "done",
                 ops |-> hist', expect |-> AExpected',
                 probeBase |-> ProbeBase', probes |-> Probes'])>>)
=============================================================================
