----------------------------- MODULE SpanGuard -----------------------------
(***************************************************************************)
(* C05 - each enabled, started span completes exactly once; disabled       *)
(* spans never do.                                                         *)
(*                                                                         *)
(* Level B (the code, src/span.rs SpanGuard): the record `g` holds the     *)
(* three fields of the guard - `st` (SpanGuardState: Initial / Started /   *)
(* Completed), the data (`hasData` = Option is Some, mdl, name, props) and *)
(* `comp` (Option<F>, "none" = disabled by the filter).  Every public      *)
(* operation is one action; the builder operations that consume `self`     *)
(* leave a residual guard behind whose Drop runs `complete_default` too.   *)
(* `complete_default` / `complete_with` are the `(state.take(),            *)
(* data.take(), completion.take())` triple of the code.  The default       *)
(* completion (span::completion::Default) is transcribed by BLvl / BErr.   *)
(*                                                                         *)
(* Level A (the statement): ghost variables a* say what the statement      *)
(* talks about: the filter verdict, whether the span was started, the      *)
(* data / completion of the last builder call, the clock readings taken at *)
(* start and at completion.  AExpected is the completion the statement     *)
(* demands; the invariants say that level B produces exactly that.         *)
(*                                                                         *)
(* The graph is finite without a bound on the number of operations, so     *)
(* TLC decides the invariants for operation sequences of every length.     *)
(*                                                                         *)
(* `form` restricts the sequences to those a macro expansion can produce   *)
(* (macros/src/span.rs): "plain" = #[span] without result levels, "setup"  *)
(* = plain with a `setup:` function, "result" = with ok_lvl and err_lvl    *)
(* ("result_o" / "result_e": only one of them), "resultM" = result with an *)
(* `err:` mapper ("resultM_m": the mapper alone), "guard" = with `guard:`  *)
(* parameter, "newspan" = new_span! and manual handling of the guard;      *)
(* "none" = SpanGuard::new used directly, any order and multiplicity.      *)
(***************************************************************************)
EXTENDS Naturals, Sequences, FiniteSets, TLC, Json

CONSTANTS
    Mdls,        \* modules a with_mdl call may set (initial "m0")
    Names,       \* names a with_name call may set (initial "n0")
    PropVals,    \* values of property `a` a with_props call may set (initial 0)
    NewComps,    \* completions SpanGuard::new may be given
    WithComps,   \* completions with_completion may be given
    CwComps,     \* completions complete_with may be given
    Scripts,     \* clock scripts <<reading at 1st now(), reading at 2nd now()>>, 0 = None
    Forms,       \* subset of {"none", "plain", "setup", "guard", "newspan"} \cup ResultForms
    Frames,      \* subset of {"in", "out"}: operations run inside / after the span's frame
    Carriers,    \* what the #[span] attribute is applied to - subset of {"fn", "async_fn", "block"}: a
                 \* sync fn item, an async fn item, a sync block expression (a statement or the value
                 \* of a `let`; needs the unstable features stmt_expr_attributes + proc_macro_hygiene).
                 \* The statement is the same for every carrier: every macro-form case is executed
                 \* through each of them.  ("async_block" is not offered: the attribute parses its
                 \* input as a statement, an async block needs a trailing `;` for that, so it can only
                 \* be written where the future is thrown away unpolled - nothing to observe)
    MaxLen,      \* 0, or: at most MaxLen non-terminal operations after New (hist in the view)
    F2Bug,       \* TRUE: transcribe with_completion as found (defect F2)
    Emit         \* TRUE: print one REPLAY line per transition

NoComp == "none"
NoR == 0

\* the default completions (span::completion::Default) and their configuration
\* The level control parameters, each absent or present.
\* Default completions (span::completion::Default; what #[span] / new_span! install):
\*   dflt  = no level, no panic level           (#[span])
\*   dfltl = level info, no panic level         (#[info_span], .with_lvl)
\*   dfltp = no level, panic level warn         (#[span(panic_lvl)], .with_panic_lvl)
\*   dfltL = level info and panic level warn
DefaultKinds == {"dflt", "dfltl", "dfltp", "dfltL"}
HasLvl(c) == c \in {"dfltl", "dfltL"}
HasPanicLvl(c) == c \in {"dfltp", "dfltL"}
CfgLvl(c) == IF HasLvl(c) THEN "info" ELSE "none"             \* with_lvl
CfgPanicLvl(c) == IF HasPanicLvl(c) THEN "warn" ELSE "none"   \* with_panic_lvl
\* Result completions (generated for ok_lvl / err_lvl / err):
\*   ok / err   = ok_lvl debug / err_lvl warn given
\*   okD / errD = ok_lvl / err_lvl absent: the expansion falls back to the span's level
\*   errM / errMD = the same two with the error passed through an `err:` mapper
\* Other forms of completion (the 'completion form' dimension; every form completes exactly
\* once with the same data):
\*   rec1..3 = completion::from_fn / FromFn::new recording what it is given
\*   recRef  = the same behind a reference (impl Completion for &C)
\*   recSS   = the same behind dyn ErasedCompletion + Send + Sync
\*   fromE   = completion::from_emitter / FromEmitter::new: the span goes to the emitter as
\*             it is - no level, no panic detection, no ambient context (no ids)
\*   empty   = emit::Empty: completes (complete* returns true) without anything to observe
OkKinds == {"ok", "okD"}
ErrKinds == {"err", "errD", "errM", "errMD"}
ResultKinds == OkKinds \cup ErrKinds
MacroOnlyKinds == {"okD", "errD", "errM", "errMD"}   \* only the expansion builds these
\* forms with result completions and what each passes: both levels / ok_lvl only /
\* err_lvl only / both + mapper / mapper only
ResultForms == {"result", "result_o", "result_e", "resultM", "resultM_m"}
KindsOfForm(f) ==
    CASE f = "result" -> {"ok", "err"}
      [] f = "result_o" -> {"ok", "errD"}
      [] f = "result_e" -> {"okD", "err"}
      [] f = "resultM" -> {"ok", "errM"}
      [] f = "resultM_m" -> {"okD", "errMD"}
      [] OTHER -> {"ok", "err"}

VARIABLES
    phase,      \* "init" (no guard yet), "live", "done" (guard consumed)
    g,          \* level B: the guard
    calls,      \* level B: the completion calls made so far
    ret,        \* "na" or the bool returned by complete / complete_with
    npos,       \* level B: number of clock readings taken so far
    script, form, frame,   \* environment fixed by New
    verdict,    \* level A: the filter's verdict
    aStarted,   \* level A: start() was called
    aMdl, aName, aProps, aComp,   \* level A: data of the last builder call
    aTerm,      \* level A: the terminal operation [op, c, pan]
    hist        \* history of operations with predicted observations (hidden by VIEW)

vars == <<phase, g, calls, ret, npos, script, form, frame, verdict, aStarted,
          aMdl, aName, aProps, aComp, aTerm, hist>>
view == <<phase, g, calls, ret, npos, script, form, frame, verdict, aStarted,
          aMdl, aName, aProps, aComp, aTerm>>
\* for bounded enumeration of *all* sequences (MaxLen > 0) the history is part of the state
viewAll == vars

NoGuard == [st |-> "Completed", hasData |-> FALSE, mdl |-> "m0", name |-> "n0",
            props |-> [a |-> 0, m |-> FALSE], comp |-> NoComp, startR |-> NoR]
NoTerm == [op |-> "none", c |-> NoComp, pan |-> FALSE]

-----------------------------------------------------------------------------
(* Level B: transcription *)

\* span::completion::Default::complete: level and error it adds; the result completions
\* carry the level the expansion chose (macros/src/span.rs result_completion): dc is the
\* guard's default completion, i.e. the span's own level
BLvl(c, pan, dc) ==
    IF c \in DefaultKinds
    THEN IF pan THEN (IF CfgPanicLvl(c) # "none" THEN CfgPanicLvl(c) ELSE "error")
         ELSE CfgLvl(c)
    ELSE IF c = "ok" THEN "debug"                        \* ok_lvl of the fixtures
    ELSE IF c = "okD" THEN CfgLvl(dc)                    \* .or_else(default_lvl)
    ELSE IF c \in {"err", "errM"} THEN "warn"            \* err_lvl of the fixtures
    ELSE IF c \in {"errD", "errMD"}                      \* .or_else(default_lvl).unwrap_or(error)
         THEN (IF CfgLvl(dc) # "none" THEN CfgLvl(dc) ELSE "error")
    ELSE IF c = "fromE" THEN "none"                      \* Emitter::emit(span), nothing added
    ELSE "na"
BErr(c, pan) ==
    IF c \in DefaultKinds THEN (IF pan THEN "panicked" ELSE "none")
    ELSE IF c \in OkKinds THEN "none"
    ELSE IF c \in {"err", "errD"} THEN "some"
    ELSE IF c \in {"errM", "errMD"} THEN "mapped"   \* what the mapper returned
    ELSE IF c = "fromE" THEN "none"
    ELSE "na"

\* Timer::extent
BExtent(startR, endR) == IF startR # NoR /\ endR # NoR THEN <<startR, endR>> ELSE <<>>

Reading(i) == IF i <= Len(script) THEN script[i] ELSE NoR

\* (state.take(), data.take(), completion.take())
Taken(gr) == [gr EXCEPT !.st = "Completed", !.hasData = FALSE, !.comp = NoComp]
Fires(gr) == gr.st = "Started" /\ gr.hasData /\ gr.comp # NoComp

\* the call made when the triple matches; c is the completion used
CallOf(gr, c, endR, pan) ==
    [cid |-> c, mdl |-> gr.mdl, name |-> gr.name, props |-> gr.props,
     extent |-> BExtent(gr.startR, endR), lvl |-> BLvl(c, pan, gr.comp), err |-> BErr(c, pan)]

\* complete_default on guard gr (pan: the thread is panicking); <<calls, readings>>
CompleteDefault(gr, pan, np) ==
    IF Fires(gr) THEN <<(<<CallOf(gr, gr.comp, Reading(np + 1), pan)>>), np + 1>>
    ELSE <<(<<>>), np>>

-----------------------------------------------------------------------------
(* which operations a form admits *)
Builder(op) == op \in {"WithMdl", "WithName", "WithProps", "MapProps", "WithCompletion"}
TerminalOp(op) == op \in {"Complete", "CompleteWith", "CompleteWithResult", "Drop",
                           "DropWhilePanicking"}
\* operations that keep the guard's type (a function body holding the macro's guard can
\* apply them in a loop)
TypeKeeping == {"Start", "WithMdl", "WithName", "Complete", "CompleteWith", "Drop",
                "DropWhilePanicking"}
Allowed(op) ==
    /\ phase = "live"
    /\ MaxLen = 0 \/ TerminalOp(op) \/ Len(hist) <= MaxLen
    /\ IF form = "none" THEN TRUE
       ELSE IF form = "newspan" THEN op \in TypeKeeping   \* new_span!: nothing is automatic
       ELSE IF g.st = "Initial" THEN op = "Start"     \* the expansion starts the guard first
       ELSE IF form \in {"plain", "setup"} THEN op \in {"Drop", "DropWhilePanicking"}
       ELSE IF form \in ResultForms
            THEN op \in {"CompleteWithResult", "DropWhilePanicking"}
       ELSE op \in TypeKeeping
\* forms that are attribute expansions (they have a carrier)
AttrForms == {"plain", "setup", "guard"} \cup ResultForms
ASSUME Carriers \subseteq {"fn", "async_fn", "block"}
\* forms in which the body has the guard in hand (explicit terminal operations)
HandForms == {"none", "guard", "newspan"}

Rec(op, a, x) == [op |-> op, a |-> a, x |-> x]
Obs(h, en, r, n) == [op |-> h.op, a |-> h.a, x |-> h.x, en |-> en, ret |-> r, n |-> n]

Init ==
    /\ phase = "init" /\ g = NoGuard /\ calls = <<>> /\ ret = "na" /\ npos = 0
    /\ script = <<>> /\ form = "none" /\ frame = "in"
    /\ verdict = FALSE /\ aStarted = FALSE
    /\ aMdl = "m0" /\ aName = "n0" /\ aProps = [a |-> 0, m |-> FALSE] /\ aComp = NoComp
    /\ aTerm = NoTerm /\ hist = <<>>

\* SpanGuard::new with a filter answering v
New(v, c, s, f, fr) ==
    /\ phase = "init"
    /\ f # "none" => c \in DefaultKinds /\ fr = "in"
    /\ phase' = "live"
    /\ g' = [st |-> "Initial", hasData |-> TRUE, mdl |-> "m0", name |-> "n0",
             props |-> [a |-> 0, m |-> FALSE], comp |-> IF v THEN c ELSE NoComp,
             startR |-> NoR]
    /\ script' = s /\ form' = f /\ frame' = fr /\ verdict' = v /\ aComp' = c
    /\ hist' = <<Obs(Rec("New", c, ""), v, "na", 0)>>
    /\ UNCHANGED <<calls, ret, npos, aStarted, aMdl, aName, aProps, aTerm>>

\* start(): only Initial -> Started, reading the clock once
Start ==
    /\ Allowed("Start")
    /\ IF g.st = "Initial"
       THEN /\ g' = [g EXCEPT !.st = "Started", !.startR = Reading(npos + 1)]
            /\ npos' = npos + 1
       ELSE UNCHANGED <<g, npos>>
    /\ aStarted' = TRUE
    /\ hist' = Append(hist, Obs(Rec("Start", "", ""), verdict, "na", Len(calls)))
    /\ UNCHANGED <<phase, calls, ret, script, form, frame, verdict, aMdl, aName, aProps,
                   aComp, aTerm>>

WithMdl(m) ==
    /\ Allowed("WithMdl")
    /\ g' = IF g.hasData THEN [g EXCEPT !.mdl = m] ELSE g
    /\ aMdl' = m
    /\ hist' = Append(hist, Obs(Rec("WithMdl", m, ""), verdict, "na", Len(calls)))
    /\ UNCHANGED <<phase, calls, ret, npos, script, form, frame, verdict, aStarted, aName,
                   aProps, aComp, aTerm>>

WithName(n) ==
    /\ Allowed("WithName")
    /\ g' = IF g.hasData THEN [g EXCEPT !.name = n] ELSE g
    /\ aName' = n
    /\ hist' = Append(hist, Obs(Rec("WithName", n, ""), verdict, "na", Len(calls)))
    /\ UNCHANGED <<phase, calls, ret, npos, script, form, frame, verdict, aStarted, aMdl,
                   aProps, aComp, aTerm>>

\* map_props(f): the new guard takes state, (mapped) data and completion; the old `self`
\* is dropped afterwards, which runs complete_default on what is left of it
MapWith(opname, arg, newProps) ==
    /\ Allowed(opname)
    /\ LET residual == Taken(g)
           rd == CompleteDefault(residual, FALSE, npos)
       IN /\ g' = IF g.hasData THEN [g EXCEPT !.props = newProps] ELSE g
          /\ calls' = calls \o rd[1]
          /\ npos' = rd[2]
          /\ hist' = Append(hist, Obs(Rec(opname, arg, ""), verdict, "na", Len(calls \o rd[1])))
    /\ aProps' = newProps
    /\ UNCHANGED <<phase, ret, script, form, frame, verdict, aStarted, aMdl, aName, aComp, aTerm>>

WithProps(v) == MapWith("WithProps", ToString(v), [a |-> v, m |-> FALSE])
\* the harness maps p to p.and_props(("m", 1))
MapProps == MapWith("MapProps", "", [a |-> aProps.a, m |-> TRUE])

\* with_completion(c)
WithCompletion(c) ==
    /\ Allowed("WithCompletion")
    /\ LET residual == Taken(g)
           rd == CompleteDefault(residual, FALSE, npos)
       IN /\ g' = [g EXCEPT !.comp = IF F2Bug THEN c
                                      ELSE IF g.comp # NoComp THEN c ELSE NoComp]
          /\ calls' = calls \o rd[1]
          /\ npos' = rd[2]
          /\ hist' = Append(hist, Obs(Rec("WithCompletion", c, ""), verdict, "na",
                                      Len(calls \o rd[1])))
    /\ aComp' = c
    /\ UNCHANGED <<phase, ret, script, form, frame, verdict, aStarted, aMdl, aName, aProps, aTerm>>

\* common part of the terminal operations: first the explicit completion (if any), then
\* the Drop of `self`
Terminal(opname, arg, x, first, pan, hasRet) ==
    \* first = <<calls, readings, guard left>> of the explicit step
    LET dropped == CompleteDefault(first[3], pan, first[2])
        cs == calls \o first[1] \o dropped[1]
    IN /\ phase' = "done"
       /\ calls' = cs
       /\ npos' = dropped[2]
       /\ g' = Taken(first[3])
       /\ ret' = IF hasRet THEN (IF first[1] # <<>> THEN "true" ELSE "false") ELSE "na"
       /\ hist' = Append(hist, Obs(Rec(opname, arg, x), verdict,
                    IF hasRet THEN (IF first[1] # <<>> THEN "true" ELSE "false") ELSE "na",
                    Len(cs)))
       /\ UNCHANGED <<script, form, frame, verdict, aStarted, aMdl, aName, aProps, aComp>>

\* complete(): complete_default, then drop
\* pan: called while the thread is unwinding (from the Drop of another value); the
\* default completion looks at std::thread::panicking() whoever calls it
Complete(pan) ==
    /\ Allowed("Complete")
    /\ pan => form \in HandForms
    /\ LET cd == CompleteDefault(g, pan, npos)
       IN Terminal("Complete", "", IF pan THEN "pan" ELSE "", <<cd[1], cd[2], Taken(g)>>,
                   pan, TRUE)
    /\ aTerm' = [op |-> "Complete", c |-> NoComp, pan |-> pan]

\* complete_with(c): the triple again, but the argument is called
CompleteWithAs(opname, c, x, pan) ==
    /\ Allowed(opname)
    /\ LET first == IF Fires(g)
                    THEN <<(<<CallOf(g, c, Reading(npos + 1), pan)>>), npos + 1, Taken(g)>>
                    ELSE <<(<<>>), npos, Taken(g)>>
       IN Terminal("CompleteWith", c, x, first, pan, TRUE)
    /\ aTerm' = [op |-> "CompleteWith", c |-> c, pan |-> pan]

CompleteWith(c, pan) ==
    /\ c \notin ResultKinds
    /\ pan => form \in HandForms
    /\ CompleteWithAs("CompleteWith", c, IF pan THEN "pan" ELSE "", pan)
\* the result-aware completions generated by the macro; x names the exit path of the body
CompleteWithResult(c, x) ==
    /\ c \in ResultKinds \cap CwComps
    /\ c \in KindsOfForm(form)
    /\ IF form = "none" THEN x \in {"", "pan"}
       ELSE x \in (IF c \in OkKinds THEN {"ok", "early_ok"} ELSE {"q_err", "early_err"})
    /\ CompleteWithAs(IF form = "none" THEN "CompleteWith" ELSE "CompleteWithResult", c, x,
                      x = "pan")

DropAs(opname, pan, x) ==
    /\ Allowed(opname)
    /\ Terminal(opname, "", x, <<(<<>>), npos, g>>, pan, FALSE)
    /\ aTerm' = [op |-> opname, c |-> NoComp, pan |-> pan]

Drop(x) ==
    /\ IF form \in {"plain", "setup"} THEN x \in {"ret", "early"} ELSE x = ""
    /\ DropAs("Drop", FALSE, x)
DropWhilePanicking ==
    /\ phase = "live"
    /\ DropAs("DropWhilePanicking", TRUE, IF form = "none" THEN "" ELSE "panic")

Next ==
    \/ \E v \in BOOLEAN, c \in NewComps, s \in Scripts, f \in Forms, fr \in Frames :
            New(v, c, s, f, fr)
    \/ Start
    \/ \E m \in Mdls : WithMdl(m)
    \/ \E n \in Names : WithName(n)
    \/ \E v \in PropVals : WithProps(v)
    \/ MapProps
    \/ \E c \in WithComps : WithCompletion(c)
    \/ \E pan \in BOOLEAN : Complete(pan)
    \/ \E c \in CwComps, pan \in BOOLEAN : CompleteWith(c, pan)
    \/ \E c \in ResultKinds, x \in {"", "pan", "ok", "early_ok", "q_err", "early_err"} :
            CompleteWithResult(c, x)
    \/ \E x \in {"", "ret", "early"} : Drop(x)
    \/ DropWhilePanicking

Spec == Init /\ [][Next]_vars

-----------------------------------------------------------------------------
(* Level A: what the statement demands *)

ACid == IF aTerm.op = "CompleteWith" THEN aTerm.c ELSE aComp
AStartR == Reading(1)      \* the reading taken at (the first) start
AEndR == Reading(2)        \* the reading taken at completion
AMustComplete == verdict /\ aStarted

\* The level of the completed span as a function of the exit path and of the control
\* parameters lvl / ok_lvl / err_lvl / panic_lvl, each absent or present (the macro
\* documentation): a panic gives panic_lvl, else error - never the ordinary level; Ok gives
\* ok_lvl, else the span's level, else none; Err gives err_lvl, else the span's level, else
\* error; any other exit the span's level.  sc = the span's default completion.
ASpanLvl(sc) == IF sc \in {"dfltl", "dfltL"} THEN "info" ELSE "none"
ALvl(c, pan, sc) ==
    IF c \in DefaultKinds
    THEN IF pan THEN (IF c \in {"dfltp", "dfltL"} THEN "warn" ELSE "error")
         ELSE ASpanLvl(c)
    ELSE IF c = "ok" THEN "debug"
    ELSE IF c = "okD" THEN ASpanLvl(sc)
    ELSE IF c \in {"err", "errM"} THEN "warn"
    ELSE IF c \in {"errD", "errMD"} THEN (IF ASpanLvl(sc) # "none" THEN ASpanLvl(sc) ELSE "error")
    ELSE IF c = "fromE" THEN "none"     \* a custom handler: the span as it is
    ELSE "na"
\* errM: "the mapped error must be the err of the completed span"
AErr(c, pan) ==
    IF c \in DefaultKinds THEN (IF pan THEN "panicked" ELSE "none")
    ELSE IF c \in OkKinds THEN "none" ELSE IF c \in {"err", "errD"} THEN "some"
    ELSE IF c \in {"errM", "errMD"} THEN "mapped" ELSE IF c = "fromE" THEN "none" ELSE "na"
\* The statement gives the panic level and error for the scope-exit path (the guard dropped
\* by unwinding).  For an explicit complete / complete_with made while unwinding it only
\* says "exactly once": lvl / err then carry what the code does (level B) and are not part
\* of the verdict (a difference is reported as drift).
ALvlAny(t) == t.pan /\ t.op \in {"Complete", "CompleteWith"}

\* the completion the statement predicts once the guard is gone (extentAny = the statement
\* is silent about the extent when a reading is unavailable)
AExpected ==
    IF phase = "done" /\ AMustComplete
    THEN <<[cid |-> ACid, mdl |-> aMdl, name |-> aName, props |-> aProps,
            extent |-> IF AStartR # NoR /\ AEndR # NoR THEN <<AStartR, AEndR>> ELSE <<>>,
            extentAny |-> ~(AStartR # NoR /\ AEndR # NoR),
            lvl |-> ALvl(ACid, aTerm.pan, aComp), err |-> AErr(ACid, aTerm.pan),
            lvlAny |-> ALvlAny(aTerm)]>>
    ELSE <<>>

\* form "setup": the value returned by the `setup:` function is bound before the span is
\* created and dropped after the body's frame has returned, i.e. after the completion.
\* Level B: the order follows from the expansion (let __setup = ..; begin_span; call).
BTrail ==
    IF form # "setup" \/ phase = "init" THEN <<>>
    ELSE <<"setup", "new">> \o (IF calls # <<>> THEN <<"complete">> ELSE <<>>)
         \o (IF phase = "done" THEN <<"setup_drop">> ELSE <<>>)
ATrail ==
    IF form # "setup" \/ phase # "done" THEN <<>>
    ELSE <<"setup", "new">> \o (IF AMustComplete THEN <<"complete">> ELSE <<>>) \o <<"setup_drop">>
SetupBracketsSpan == phase = "done" => BTrail = ATrail

\* Probes: what the statement predicts for every terminal operation applied to a live
\* guard.  A non-terminal edge of the graph may be a self-loop at this level (a second
\* start(), a repeated with_name): replaying the edge alone would not observe a guard the
\* code corrupted, so the harness follows every such edge by every terminal operation.
ProbeTerms ==
    IF phase # "live" \/ form \notin HandForms \/ (form = "guard" /\ ~aStarted) THEN {}
    ELSE {[op |-> "Complete", c |-> NoComp, pan |-> pan] : pan \in BOOLEAN}
         \cup {[op |-> "Drop", c |-> NoComp, pan |-> FALSE],
               [op |-> "DropWhilePanicking", c |-> NoComp, pan |-> TRUE]}
         \cup {[op |-> "CompleteWith", c |-> c, pan |-> pan] : pan \in BOOLEAN,
                  c \in IF form = "none" THEN CwComps \ MacroOnlyKinds ELSE CwComps \ ResultKinds}
ProbeCid(t) == IF t.op = "CompleteWith" THEN t.c ELSE aComp
\* the completion predicted for a terminal operation, up to cid / lvl / err (in Probes)
ProbeBase ==
    IF phase = "live" /\ AMustComplete
    THEN <<[cid |-> aComp, mdl |-> aMdl, name |-> aName, props |-> aProps,
            extent |-> IF AStartR # NoR /\ AEndR # NoR THEN <<AStartR, AEndR>> ELSE <<>>,
            extentAny |-> ~(AStartR # NoR /\ AEndR # NoR),
            lvl |-> "na", err |-> "na", lvlAny |-> FALSE]>>
    ELSE <<>>
\* <<op, a, ret, n, cid, lvl, err, pan, lvlAny>> (is_enabled stays the verdict)
ProbeOf(t) ==
    <<t.op, IF t.op = "CompleteWith" THEN t.c ELSE "",
      IF t.op \in {"Complete", "CompleteWith"}
      THEN (IF AMustComplete THEN "true" ELSE "false") ELSE "na",
      IF AMustComplete THEN 1 ELSE 0,
      ProbeCid(t), ALvl(ProbeCid(t), t.pan, aComp), AErr(ProbeCid(t), t.pan), t.pan, ALvlAny(t)>>
Probes == {ProbeOf(t) : t \in ProbeTerms}

TypeOK ==
    /\ phase \in {"init", "live", "done"}
    /\ g.st \in {"Initial", "Started", "Completed"}
    /\ ret \in {"na", "true", "false"}
    /\ npos \in 0..4

AtMostOnce == Len(calls) <= 1

ExactlyOnceIffEnabledStarted ==
    /\ phase # "done" => calls = <<>>
    /\ phase = "done" => (Len(calls) = 1 <=> AMustComplete)

\* is_enabled() is the filter's verdict whatever builder operations were applied
EnabledIsFilterVerdict == phase = "live" => ((g.comp # NoComp) <=> verdict)

ReturnValueTruthful == ret # "na" => (ret = "true" <=> Len(calls) = 1)

ExtentIsStartToEnd ==
    calls # <<>> /\ AStartR # NoR /\ AEndR # NoR => calls[1].extent = <<AStartR, AEndR>>

CarriesLatestData ==
    calls # <<>> => /\ calls[1].mdl = aMdl /\ calls[1].name = aName
                    /\ calls[1].props = aProps /\ calls[1].cid = ACid

PanicAddsErrAndLevel ==
    calls # <<>> => /\ calls[1].lvl = ALvl(ACid, aTerm.pan, aComp)
                    /\ calls[1].err = AErr(ACid, aTerm.pan)

\* level B produces exactly the completion of level A (everything above in one)
RefinesStatement ==
    /\ Len(calls) = Len(AExpected)
    /\ calls # <<>> =>
         LET b == calls[1]  a == AExpected[1]
         IN /\ b.cid = a.cid /\ b.mdl = a.mdl /\ b.name = a.name /\ b.props = a.props
            /\ b.lvl = a.lvl /\ b.err = a.err
            /\ ~a.extentAny => b.extent = a.extent

\* the probe prediction is the prediction of the terminal action itself
ProbesAgree ==
    [][phase = "live" /\ phase' = "done" /\ ProbeTerms # {} =>
        \E pr \in Probes :
            /\ pr[1] = aTerm'.op /\ pr[5] = ACid' /\ pr[8] = aTerm'.pan
            /\ Len(AExpected') = pr[4]
            /\ AExpected' # <<>> =>
                 AExpected'[1] = [ProbeBase[1] EXCEPT !.cid = pr[5], !.lvl = pr[6],
                                                     !.err = pr[7], !.lvlAny = pr[9]]]_vars

\* the live guard always holds its data, and is never Completed
LiveGuardWhole == phase = "live" => g.hasData /\ g.st # "Completed"

-----------------------------------------------------------------------------
(* spec -> code: one REPLAY line per transition: the operations so far (each with the
   is_enabled / return value / number of completions the statement predicts after it)
   and the completion calls predicted at the end. *)
EmitReplay ==
    Emit => PrintT(<<"REPLAY", ToJson([verdict |-> verdict', script |-> script',
                 form |-> form', frame |-> frame', done |-> phase' = "done",
                 carriers |-> IF form' \in AttrForms THEN Carriers ELSE {},
                 ops |-> hist', expect |-> AExpected', trail |-> ATrail',
                 probeBase |-> ProbeBase', probes |-> Probes'])>>)
=============================================================================
