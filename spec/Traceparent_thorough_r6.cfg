\* C18 thorough (other frames): TraceparentFilter with sampler AND in_sampled_trace_filter(true); 1 thread, <= 2 spans, <= 3 frames, 1 task, nesting <= 3; headers sampled (trace 101) / unsampled (trace 102) / invalid (no ids);
\* Frame::current and frames made by SpanCtxt::current().push() (pushed span id = active span id), Tracestate::push (a tracestate riding along) and Frame::root (TraceparentCtxt::open_root), entered, re-entered and wrapped in futures; every transition replayed.
SPECIFICATION Spec
CONSTANTS
    NThreads = 1
    MaxSpans = 2
    MaxFrames = 3
    MaxTasks = 1
    MaxDepth = 3
    Headers <- MC_Headers3
    InSampled = TRUE
    SnapshotOnPush = TRUE
    WithLazy = FALSE
    WithCurrent = TRUE
    FrameKinds <- MC_AllKinds
    Sampler = TRUE
    CtxForms <- MC_Forms
    Panics = TRUE
    Emit = TRUE
VIEW tview
INVARIANTS SamplerOncePerTrace DecisionGoverns UnsampledSilent SampledConsistent NoTraceNoParent FrameCarries
PROPERTIES Restored
ACTION_CONSTRAINT EmitReplay
CHECK_DEADLOCK FALSE
