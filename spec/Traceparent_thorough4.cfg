\* C18 thorough (model checking only, 4; TraceparentFilter alone): 1 thread, <= 3 spans, <= 4 frames, nesting <= 3, all eleven headers (valid, mismatched, and every invalid kind: no ids, span id only, trace id only, each with sampled and unsampled flag), nested header pushes (mismatched trace, same trace).
SPECIFICATION Spec
CONSTANTS
    NThreads = 1
    MaxSpans = 3
    MaxFrames = 4
    MaxTasks = 0
    MaxDepth = 3
    Headers <- MC_HeadersAllInv
    InSampled = FALSE
    SnapshotOnPush = TRUE
    WithLazy = FALSE
    WithCurrent = FALSE
    FrameKinds <- MC_NoKinds
    Sampler = TRUE
    CtxForms <- MC_Forms
    Panics = TRUE
    Emit = FALSE
VIEW tview
INVARIANTS SamplerOncePerTrace DecisionGoverns UnsampledSilent SampledConsistent NoTraceNoParent FrameCarries
PROPERTIES Restored
ACTION_CONSTRAINT EmitReplay
CHECK_DEADLOCK FALSE
