\* Batcher ledger refinement, q1 constants (blocking send and flush): Batcher.tla implements BatcherLedger.tla (PROPERTY LedgerSpec) and its proved Safe holds through the mapping. Exhaustive.
SPECIFICATION Spec
CONSTANTS
    SenderOps <- Q_SenderOps
    FlusherOps <- Q_FlusherOps
    Cap = 1
    MaxRetry = 10
    MaxFail = 2
    AnyRemainder = FALSE
    NonEmptyRem = FALSE
    OutcomeSet = {"ok", "fail", "retry", "panic", "panicFut"}
    AllowKill = FALSE
    MaxIdleDelay = 3
    Emit = FALSE
VIEW view
CONSTRAINT IdleBound
INVARIANTS TypeOK LedgerSafe
CHECK_DEADLOCK FALSE
PROPERTY LedgerSpec
