------------------------------ MODULE Template ------------------------------
(***************************************************************************)
(* C16 - templates render and compare by meaning, for any text.            *)
(*                                                                         *)
(* A template is a sequence of parts.  A text part carries a sequence of   *)
(* CHARACTERS (one-character strings); every character has a UTF-8 byte    *)
(* sequence (CharBytes), so a fragment boundary is always a character      *)
(* boundary (as in a Rust &str) while the cursors of the level-B algorithm *)
(* see BYTE offsets, and "offset inside a character" is representable.     *)
(*                                                                         *)
(*   part == [k |-> "T", cs |-> <<chars>>, l |-> "",    fm |-> 0]          *)
(*         | [k |-> "H", cs |-> <<>>,      l |-> label, fm |-> 0 | 1]      *)
(*                                                                         *)
(* Level A (the statement): Norm, Equal, Render, Events.                   *)
(* Level B (the code, core/src/template.rs `impl PartialEq for Template`): *)
(* the cursor algorithm, one action per loop iteration, with outcome       *)
(* "panic" when a str slice offset is not a character boundary.            *)
(*   Algo = "current"  : the algorithm as found (fails: F12, F13)          *)
(*   Algo = "skipfix"  : only the F13 half of the repair (fails: F12)       *)
(*   Algo = "repaired" : compares bytes; skips an empty text part that     *)
(*                       faces a hole before matching part kinds           *)
(***************************************************************************)
EXTENDS Naturals, Sequences, FiniteSets, TLC

CONSTANTS
    Chars,        \* characters text fragments are made of
    CharBytes,    \* character -> sequence of byte values
    Labels,       \* hole labels (may contain "")
    MaxFragLen,   \* characters per text fragment
    MaxParts,     \* parts per template
    Algo          \* "current" | "skipfix" | "repaired"

VARIABLES a, b, s      \* the pair under comparison, the cursor state
vars == <<a, b, s>>

-----------------------------------------------------------------------------
(* The domain *)
Frags == UNION {[1..n -> Chars] : n \in 0..MaxFragLen}
TextPart(cs) == [k |-> "T", cs |-> cs, l |-> "", fm |-> 0]
HolePart(l, fm) == [k |-> "H", cs |-> <<>>, l |-> l, fm |-> fm]
PartValues == {TextPart(cs) : cs \in Frags} \cup {HolePart(l, 0) : l \in Labels}
Templates == UNION {[1..n -> PartValues] : n \in 0..MaxParts}

-----------------------------------------------------------------------------
(* Level A *)

\* Norm(t): the holes, in order, with the concatenated text between them:
\* a sequence  text, hole, text, hole, ..., text  (always starts and ends with a text item).
TextItem(cs) == [h |-> 0, cs |-> cs, l |-> "", fm |-> 0]
HoleItem(p) == [h |-> 1, cs |-> <<>>, l |-> p.l, fm |-> p.fm]

RECURSIVE NormR(_, _, _)
NormR(t, i, acc) ==
    IF i > Len(t) THEN acc
    ELSE IF t[i].k = "T"
         THEN NormR(t, i + 1, [acc EXCEPT ![Len(acc)] = TextItem(@.cs \o t[i].cs)])
         ELSE NormR(t, i + 1, acc \o <<HoleItem(t[i]), TextItem(<<>>)>>)
Norm(t) == NormR(t, 1, <<TextItem(<<>>)>>)

\* equality ignores the formatter of a hole (the statement: same holes = same labels in the
\* same positions); the equality domain has no formatters anyway
EqView(n) == [i \in 1..Len(n) |-> [n[i] EXCEPT !.fm = 0]]
Equal(x, y) == EqView(Norm(x)) = EqView(Norm(y))

RECURSIVE ConcatS(_)
ConcatS(q) == IF q = <<>> THEN "" ELSE Head(q) \o ConcatS(Tail(q))

\* props: a sequence of <<key, value>>; the first pair with the key wins
HasKey(props, key) == \E i \in 1..Len(props) : props[i][1] = key
First(props, key) ==
    props[CHOOSE i \in 1..Len(props) :
              props[i][1] = key /\ \A j \in 1..(i - 1) : props[j][1] # key][2]

\* the formatter the harness attaches to holes with fm = 1 writes the value in brackets
\* (fm = 2: the macro flag "?", i.e. Debug of a text value without characters to escape)
Fmt(fm, v) == IF fm = 1 THEN "[" \o v \o "]" ELSE IF fm = 2 THEN "\"" \o v \o "\"" ELSE v

RenderPart(p, props) ==
    IF p.k = "T" THEN ConcatS(p.cs)
    ELSE IF HasKey(props, p.l) THEN Fmt(p.fm, First(props, p.l))
    ELSE "{" \o p.l \o "}"

Render(t, props) == ConcatS([i \in 1..Len(t) |-> RenderPart(t[i], props)])

\* what a template-aware writer is told, by meaning: Norm with every hole resolved
\* (kind "value" | "fmt" | "label"), text merged between holes
Events(t, props) ==
    LET n == Norm(t) IN
    [i \in 1..Len(n) |->
        IF n[i].h = 0 THEN [ev |-> "text", s |-> ConcatS(n[i].cs), l |-> ""]
        ELSE IF HasKey(props, n[i].l)
             THEN [ev |-> IF n[i].fm # 0 THEN "fmt" ELSE "value", s |-> First(props, n[i].l), l |-> n[i].l]
             ELSE [ev |-> "label", s |-> "", l |-> n[i].l]]

\* Output channels.  The statement quantifies over every way the crate offers to get the
\* rendered text out; level A is the same text for all of them.  (A channel name is bound to
\* real code by the harness, which refuses names it does not know and requires every name it
\* knows: the two lists cannot drift apart silently.)
RenderChannels == {
    "display",            \* Display / to_string of Render
    "formatter",          \* Render::write into a fmt::Formatter
    "string",             \* Render::write into a String
    "default-writer",     \* Render::write into a writer with only the trait defaults
    "with_props",         \* render(Empty).with_props(props)
    "to_value",           \* ToValue for Render, then Display of the Value
    "to_value-serde",     \* ... then serde of the Value
    "serde-json",         \* serde::Serialize for Render through serde_json::to_string
    "serde-collect",      \* serde::Serialize for Render through serde_json::to_value
    "sval",               \* sval::Value for Render into a collecting Stream
    "sval-ref",           \* sval_ref::ValueRef for Render into a collecting Stream
    "sval-json",          \* sval::Value for Render through sval_json
    "debug"}              \* Debug of Render: the text, quoted
TemplateChannels == {
    "display", "to_value", "to_value-serde", "serde-json", "serde-collect",
    "sval", "sval-ref", "sval-json", "debug"}
\* Debug quotes the text.  Whether Debug also *escapes* (a quote, a backslash inside the text) the
\* statement does not say: for a template whose text has such a character the Debug channel is a
\* don't-care (DebugDontCare; the harness reports what it observes), every other channel still gives
\* the text verbatim.
Quoted(txt) == "\"" \o txt \o "\""
EscapableChars == {"\"", "\\"}
HasEscapable(t) == \E i \in 1..Len(t) : t[i].k = "T" /\ \E j \in 1..Len(t[i].cs) : t[i].cs[j] \in EscapableChars
DebugDontCare == "<<debug: don't-care>>"
RenderVia(ch, t, props) ==
    IF ch = "debug" THEN (IF HasEscapable(t) THEN DebugDontCare ELSE Quoted(Render(t, props)))
    ELSE Render(t, props)
\* a Template on its own is its text with every hole as `{label}`
TemplateVia(ch, t) == RenderVia(ch, t, <<>>)
\* as_literal (Template and Render): the text when the template is one text part, nothing when
\* it has a hole; several hole-free parts: the statement does not say ("d")
AsLiteral(t) ==
    IF \E i \in 1..Len(t) : t[i].k = "H" THEN [v |-> "none", s |-> ""]
    ELSE IF Len(t) = 1 THEN [v |-> "some", s |-> Render(t, <<>>)]
    ELSE [v |-> "d", s |-> Render(t, <<>>)]

-----------------------------------------------------------------------------
(* bytes *)
RECURSIVE PrefixLen(_, _)
PrefixLen(cs, n) == IF n = 0 THEN 0 ELSE PrefixLen(cs, n - 1) + Len(CharBytes[cs[n]])
BLen(cs) == PrefixLen(cs, Len(cs))
Bound(cs) == {PrefixLen(cs, n) : n \in 0..Len(cs)}      \* the character boundaries
RECURSIVE BytesOf(_)
BytesOf(cs) == IF cs = <<>> THEN <<>> ELSE CharBytes[Head(cs)] \o BytesOf(Tail(cs))
\* bytes [from, from+len) of the fragment, 0-based
Slice(cs, from, len) == SubSeq(BytesOf(cs), from + 1, from + len)
Min(x, y) == IF x < y THEN x ELSE y

-----------------------------------------------------------------------------
(* Level B: `impl PartialEq for Template`, step by step *)

S0 == [pc |-> "start", ai |-> 0, ati |-> 0, bi |-> 0, bti |-> 0, res |-> "run"]
Done(st, r) == [st EXCEPT !.pc = "done", !.res = r]
Bool(v) == IF v THEN "true" ELSE "false"

IsLiteral(t) == Len(t) = 1 /\ t[1].k = "T"

\* the two halves of the repair, separately switchable so that TLC exhibits F12 and F13 apart
CmpBytes == Algo = "repaired"                   \* compare as_bytes() slices (F12)
SkipEmpty == Algo \in {"repaired", "skipfix"}    \* skip an empty text facing a hole (F13)

TextText(st, ap, bp) ==
    LET la == BLen(ap.cs)
        lb == BLen(bp.cs)
    IN
    \* let at = &a[ati..]; let bt = &b[bti..];
    IF ~CmpBytes /\ (st.ati \notin Bound(ap.cs) \/ st.bti \notin Bound(bp.cs)) THEN Done(st, "panic")
    ELSE
    LET len == Min(la - st.ati, lb - st.bti) IN
    \* let at = &at[..len]; let bt = &bt[..len];
    IF ~CmpBytes /\ ((st.ati + len) \notin Bound(ap.cs) \/ (st.bti + len) \notin Bound(bp.cs))
    THEN Done(st, "panic")
    ELSE IF Slice(ap.cs, st.ati, len) # Slice(bp.cs, st.bti, len) THEN Done(st, "false")
    ELSE LET ati2 == st.ati + len
             bti2 == st.bti + len
         IN [st EXCEPT !.ai = IF ati2 = la THEN @ + 1 ELSE @,
                       !.ati = IF ati2 = la THEN 0 ELSE ati2,
                       !.bi = IF bti2 = lb THEN @ + 1 ELSE @,
                       !.bti = IF bti2 = lb THEN 0 ELSE bti2]

Trailing(x, y, st) ==
    \* for part in a[ai..].iter().chain(b[bi..].iter()): must be empty text
    /\ \A i \in (st.ai + 1)..Len(x) : x[i].k = "T" /\ x[i].cs = <<>>
    /\ \A i \in (st.bi + 1)..Len(y) : y[i].k = "T" /\ y[i].cs = <<>>

Step(x, y, st) ==
    IF st.pc = "start" THEN
        \* the literal fast path
        IF IsLiteral(x) /\ IsLiteral(y) THEN Done(st, Bool(x[1].cs = y[1].cs))
        ELSE [st EXCEPT !.pc = "loop"]
    ELSE IF st.ai < Len(x) /\ st.bi < Len(y) THEN
        LET ap == x[st.ai + 1]
            bp == y[st.bi + 1]
        IN IF ap.k = "T" /\ bp.k = "T" THEN TextText(st, ap, bp)
           ELSE IF ap.k = "H" /\ bp.k = "H" THEN
                IF ap.l # bp.l THEN Done(st, "false")
                ELSE [st EXCEPT !.ai = @ + 1, !.bi = @ + 1]
           \* repaired: an empty text part facing a hole is skipped
           ELSE IF SkipEmpty /\ ap.k = "T" /\ ap.cs = <<>> THEN [st EXCEPT !.ai = @ + 1]
           ELSE IF SkipEmpty /\ bp.k = "T" /\ bp.cs = <<>> THEN [st EXCEPT !.bi = @ + 1]
           ELSE Done(st, "false")
    ELSE Done(st, Bool(Trailing(x, y, st)))

\* the same algorithm as a function (used for Equivalence on a small domain)
RECURSIVE RunFrom(_, _, _)
RunFrom(x, y, st) == IF st.pc = "done" THEN st.res ELSE RunFrom(x, y, Step(x, y, st))
CursorEq(x, y) == RunFrom(x, y, S0)

Init == a \in Templates /\ b \in Templates /\ s = S0

StartStep == s.pc = "start" /\ s' = Step(a, b, s) /\ UNCHANGED <<a, b>>
LoopStep == s.pc = "loop" /\ s' = Step(a, b, s) /\ UNCHANGED <<a, b>>
Next == StartStep \/ LoopStep

Spec == Init /\ [][Next]_vars

-----------------------------------------------------------------------------
(* Properties *)

\* the code's answer is the statement's answer and it never panics
CursorRefinesEqual == s.pc = "done" => s.res = Bool(Equal(a, b))

\* every loop iteration advances a cursor or ends (so the loop terminates)
Measure(st) == (st.ai + st.bi) * (4 * MaxFragLen + 1) + st.ati + st.bti
Progress == [][s.pc = "loop" => (s'.pc = "done" \/ Measure(s') > Measure(s))]_vars

\* cursors stay inside the parts
CursorsInRange ==
    /\ s.ai <= Len(a) /\ s.bi <= Len(b)
    /\ (s.ai < Len(a) => s.ati <= BLen(a[s.ai + 1].cs))
    /\ (s.bi < Len(b) => s.bti <= BLen(b[s.bi + 1].cs))
=============================================================================
