------------------------------ MODULE TraceCtx ------------------------------
(***************************************************************************)
(* X04 - the trace context API outside the span machinery (crate           *)
(* emit_traceparent: Traceparent / Tracestate / push / current).           *)
(* Sampling and spans are C18's (spec/Traceparent.tla); this module adds   *)
(* the tracestate, the three ways of pushing and the header pair.          *)
(*                                                                         *)
(* Level A (the docs): a frame carries a trace context (traceparent,       *)
(* tracestate) fixed when it is made:                                      *)
(*   p.push()            p, with the tracestate current where it is made   *)
(*   s.push()            s, with the traceparent current where it is made  *)
(*   push(p, s)          both                                              *)
(*   Frame::current(..)  the context current where it is made              *)
(* On every thread the current context is that of the innermost entered    *)
(* frame - wherever the frame was made: it travels - and the empty one     *)
(* (no ids, SAMPLED, empty tracestate) when none is entered.  The context  *)
(* as properties: trace id and span id exactly when it is sampled.  The    *)
(* header pair for the next service is the text of the traceparent         *)
(* (spec/Text.tla, instantiated read-only: it parses back to the same      *)
(* value) and the tracestate as given.                                     *)
(*                                                                         *)
(* Level B (the code): tl[t] is the thread-local ACTIVE_TRACEPARENT        *)
(* (None | traceparent + tracestate); a frame holds a slot; enter and exit *)
(* swap the slot with tl[t]; the push functions build the slot from        *)
(* get_active_traceparent().                                               *)
(***************************************************************************)
EXTENDS Naturals, Sequences, FiniteSets, TLC, Json

CONSTANTS
    NThreads,
    TPs,        \* traceparents that may be pushed: [tr, sp, fl]; 0 = no id; fl a byte
    TSs,        \* tracestates that may be pushed: indices into TsText, 0 = the empty text
    Pairs,      \* (traceparent, tracestate) pairs given to push(p, s)
    TidHex, SidHex,   \* model id -> hex digits (sequences of characters)
    MaxFrames, MaxDepth, MaxOps,
    Emit

T == INSTANCE Text WITH PathAlgo <- "repaired", PathChars <- {}, PathMaxLen <- 0,
                        LevelChars <- {}, LevelMaxLen <- 0, mach <- "none", txt <- <<>>, st <- 0

Threads == 1..NThreads
Frames == 1..MaxFrames

EmptyTp == [tr |-> 0, sp |-> 0, fl |-> 1]            \* Traceparent::empty(): no ids, SAMPLED
EmptyCtx == [tp |-> EmptyTp, ts |-> 0]
Sampled(p) == p.fl % 2 = 1

\* Option<ActiveTraceparent>
NoneB == [some |-> FALSE, tp |-> EmptyTp, ts |-> 0]
SomeB(p, s) == [some |-> TRUE, tp |-> p, ts |-> s]
CtxOf(x) == IF x.some THEN [tp |-> x.tp, ts |-> x.ts] ELSE EmptyCtx

VARIABLES
    tl,      \* B: thread -> Option<ActiveTraceparent>
    fr,      \* frame -> [st: none | idle | in, slot (B), a (A: the context it carries), how (the
             \* operation that made it: kept in the state so that what follows is explored after
             \* every kind of making, also when the resulting values coincide)]
    stk,     \* thread -> frames entered, innermost last
    nops, hist
vars == <<tl, fr, stk, nops, hist>>
view == <<tl, fr, stk, nops>>

NoFrame == [st |-> "none", slot |-> NoneB, a |-> EmptyCtx, how |-> "-"]
Free == {f \in Frames : fr[f].st = "none"}
NextFrame == CHOOSE f \in Free : \A g \in Free : f <= g
Top(t) == stk[t][Len(stk[t])]

-----------------------------------------------------------------------------
(* Level A *)
CurA(t) == IF stk[t] = <<>> THEN EmptyCtx ELSE fr[Top(t)].a
CurAIn(s, f, t) == IF s[t] = <<>> THEN EmptyCtx ELSE f[s[t][Len(s[t])]].a

\* the text of a traceparent and what a parser that follows the grammar makes of it
Zeros(n) == [i \in 1..n |-> "0"]
TextOfTp(p) == T!FormatTp(IF p.tr = 0 THEN Zeros(32) ELSE TidHex[p.tr],
                          IF p.sp = 0 THEN Zeros(16) ELSE SidHex[p.sp], p.fl)
ParsedBack(p) ==
    LET v == T!TpVerdict(TextOfTp(p))
    IN /\ v.v = "a"
       /\ v.val.fl = p.fl
       /\ v.val.tid = (IF p.tr = 0 THEN T!NoneId ELSE TidHex[p.tr])
       /\ v.val.sid = (IF p.sp = 0 THEN T!NoneId ELSE SidHex[p.sp])

\* what every thread must observe
ObsA(s, f) ==
    [t \in Threads |->
        LET c == CurAIn(s, f, t)
        IN [tp |-> c.tp, ts |-> c.ts,
            valid |-> c.tp.tr # 0 /\ c.tp.sp # 0,
            sampled |-> Sampled(c.tp),
            ids |-> IF Sampled(c.tp) THEN <<c.tp.tr, c.tp.sp>> ELSE <<0, 0>>]]

-----------------------------------------------------------------------------
(* Level B *)
CurB(t) == CtxOf(tl[t])                                  \* current(): active or (empty, empty)

Init ==
    /\ tl = [t \in Threads |-> NoneB]
    /\ fr = [f \in Frames |-> NoFrame]
    /\ stk = [t \in Threads |-> <<>>]
    /\ nops = 0
    /\ hist = <<>>

Log(rec) == hist' = Append(hist, rec @@ [exp |-> ObsA(stk', fr')])

Make(t, slot, a, rec) ==
    /\ nops < MaxOps /\ Free # {}
    /\ fr' = [fr EXCEPT ![NextFrame] = [st |-> "idle", slot |-> slot, a |-> a, how |-> rec.op]]
    /\ nops' = nops + 1
    /\ UNCHANGED <<tl, stk>>
    /\ Log(rec @@ [t |-> t, f |-> NextFrame])

\* Traceparent::push: tracestate: active.tracestate, else empty
PushTp(t, p) ==
    Make(t, SomeB(p, IF tl[t].some THEN tl[t].ts ELSE 0),
         [tp |-> p, ts |-> CurA(t).ts], [op |-> "push_tp", p |-> p])

\* Tracestate::push: traceparent: active.traceparent, else empty
PushTs(t, s) ==
    Make(t, SomeB(IF tl[t].some THEN tl[t].tp ELSE EmptyTp, s),
         [tp |-> CurA(t).tp, ts |-> s], [op |-> "push_ts", s |-> s])

\* emit_traceparent::push(p, s)
PushBoth(t, p, s) ==
    Make(t, SomeB(p, s), [tp |-> p, ts |-> s], [op |-> "push_both", p |-> p, s |-> s])

\* Frame::current(TraceparentCtxt): open_push(Empty): slot = get_active_traceparent(), active
FrameCurrent(t) ==
    Make(t, tl[t], CurA(t), [op |-> "current"])

\* Ctxt::enter: frame.slot = set_active_traceparent(frame.slot.take())
Enter(t, f) ==
    /\ nops < MaxOps
    /\ fr[f].st = "idle"
    /\ Len(stk[t]) < MaxDepth
    /\ tl' = [tl EXCEPT ![t] = fr[f].slot]
    /\ fr' = [fr EXCEPT ![f].st = "in", ![f].slot = tl[t]]
    /\ stk' = [stk EXCEPT ![t] = Append(@, f)]
    /\ nops' = nops + 1
    /\ Log([op |-> "enter", t |-> t, f |-> f])

\* Ctxt::exit (the guard is dropped): swap back
Exit(t) ==
    /\ nops < MaxOps
    /\ stk[t] # <<>>
    /\ stk' = [stk EXCEPT ![t] = SubSeq(@, 1, Len(@) - 1)]
    /\ nops' = nops + 1
    /\ LET f == Top(t) IN
          /\ tl' = [tl EXCEPT ![t] = fr[f].slot]
          /\ fr' = [fr EXCEPT ![f].st = "idle", ![f].slot = tl[t]]
          /\ Log([op |-> "exit", t |-> t, f |-> f])

Next ==
    \/ \E t \in Threads, p \in TPs : PushTp(t, p)
    \/ \E t \in Threads, s \in TSs : PushTs(t, s)
    \/ \E t \in Threads, ps \in Pairs : PushBoth(t, ps[1], ps[2])
    \/ \E t \in Threads : FrameCurrent(t)
    \/ \E t \in Threads, f \in Frames : Enter(t, f)
    \/ \E t \in Threads : Exit(t)

Spec == Init /\ [][Next]_vars

-----------------------------------------------------------------------------
(* Properties *)

\* the current context is that of the innermost entered frame, else empty
CurrentIsInnermost == \A t \in Threads : CurB(t) = CurA(t)

\* a frame that is not entered carries its own context (it can move to another thread)
FrameCarries == \A f \in Frames : fr[f].st = "idle" => CtxOf(fr[f].slot) = fr[f].a

\* leaving a frame restores what was current before it was entered
Restored ==
    [][\A t \in Threads : Len(stk'[t]) < Len(stk[t]) =>
            CtxOf(tl'[t]) = (IF stk'[t] = <<>> THEN EmptyCtx ELSE fr[stk'[t][Len(stk'[t])]].a)]_vars

\* threads do not see each other's context
ThreadsApart ==
    [][\A t \in Threads : (stk'[t] = stk[t]) => tl'[t] = tl[t]]_vars

\* the header of every context that can be current parses back to the same value
HeaderRoundTrip == \A t \in Threads : ParsedBack(CurB(t).tp)

EmitReplay == Emit => PrintT(<<"REPLAY", ToJson([steps |-> hist'])>>)
=============================================================================
