\* X02 Extent quick: 4 instants (epoch, 0.999999999s, 1s, 1.000000001s), every base source (Empty, Timestamp, Range<Timestamp>
\* incl. empty and backwards, Range<Option<Timestamp>> with every present/absent combination, Extent point/range, None::<T>)
\* under <= 2 transparent wrappers (Some, &, Option<Extent>, Metric, Span). Exhaustive.
SPECIFICATION Spec
CONSTANTS
    Instants <- MC_Instants4
    Depth = 2
    Emit = TRUE
INVARIANTS ConversionRule PointXorRange AsPointRule AsRangeRule LenRule PropsRule CarrierRule LenSanity
ACTION_CONSTRAINT EmitReplay
CHECK_DEADLOCK FALSE
