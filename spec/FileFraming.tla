---------------------------- MODULE FileFraming ----------------------------
(***************************************************************************)
(* C10 - the front half of the public emit path of a rolling file set:     *)
(* what is queued for an event, i.e. the complete bytes E(e) the file      *)
(* level (FileSetBase) treats as one token.  Bytes are symbols: "x" stands *)
(* for the event's text (which holds no byte of the separator), "cr" and   *)
(* "lf" for themselves.                                                    *)
(*                                                                         *)
(* The writer may finish its output with the separator or not (crate       *)
(* docs): "sep" it does; "none" it stops after the text; "last" / "first"  *)
(* its output ends with only the last / the first byte of a multi-byte     *)
(* separator (a line-oriented writer under a "\r\n" separator).            *)
(* FileSet::emit queues the output as it is when it ends with the WHOLE    *)
(* separator, and the output followed by the separator otherwise.          *)
(***************************************************************************)
EXTENDS Naturals, Sequences

SepOf(f) == CASE f = "nl" -> <<"lf">> [] f = "crlf" -> <<"cr", "lf">>
AllWriterEnds == {"sep", "none", "last", "first"}
\* (for a one-byte separator "last" and "first" are "sep")
EndsFor(f, ends) == IF Len(SepOf(f)) = 1 THEN ends \cap {"sep", "none"} ELSE ends
WriterOut(f, we) ==
    LET sep == SepOf(f)
    IN <<"x">> \o (CASE we = "sep" -> sep [] we = "none" -> <<>>
                      [] we = "last" -> <<sep[Len(sep)]>> [] we = "first" -> <<sep[1]>>)
EndsWithSeq(out, sep) == Len(out) >= Len(sep) /\ SubSeq(out, Len(out) - Len(sep) + 1, Len(out)) = sep
Queued(f, we) ==
    LET out == WriterOut(f, we) IN IF EndsWithSeq(out, SepOf(f)) THEN out ELSE out \o SepOf(f)
\* what every reader of the file relies on: a queued event ends with the whole separator and
\* is the writer's output, with at most one separator added
FramedOk(f, we) ==
    /\ EndsWithSeq(Queued(f, we), SepOf(f))
    /\ Len(Queued(f, we)) <= Len(WriterOut(f, we)) + Len(SepOf(f))
    /\ SubSeq(Queued(f, we), 1, Len(WriterOut(f, we))) = WriterOut(f, we)
=============================================================================
