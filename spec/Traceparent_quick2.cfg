\* C18 quick (headers): TraceparentFilter with sampler AND in_sampled_trace_filter(true); 1 thread, <= 2 spans, <= 3 frames, nesting <= 3;
\* incoming headers sampled(trace 101) / unsampled(trace 102) / invalid with the sampled flag (no ids, span id only, trace id only), nested header pushes, Frame::current, events, panics; every transition replayed.
SPECIFICATION Spec
CONSTANTS
    NThreads = 1
    MaxSpans = 2
    MaxFrames = 3
    MaxTasks = 0
    MaxDepth = 3
    Headers <- MC_HeadersInvS
    InSampled = TRUE
    SnapshotOnPush = TRUE
    WithLazy = FALSE
    WithCurrent = TRUE
    FrameKinds <- MC_NoKinds
    Sampler = TRUE
    CtxForms <- MC_Forms
    Panics = TRUE
    Emit = TRUE
VIEW tview
INVARIANTS SamplerOncePerTrace DecisionGoverns UnsampledSilent SampledConsistent NoTraceNoParent FrameCarries
PROPERTIES Restored
ACTION_CONSTRAINT EmitReplay
CHECK_DEADLOCK FALSE
