\* C18 quick (headers + hand-off): TraceparentFilter with sampler AND in_sampled_trace_filter(true); 2 threads, <= 2 spans, <= 3 frames, nesting <= 2;
\* incoming headers sampled(trace 101) / unsampled(trace 102) / invalid(no ids), Frame::current and span frames handed to the other thread, events everywhere; every transition replayed.
SPECIFICATION Spec
CONSTANTS
    NThreads = 2
    MaxSpans = 2
    MaxFrames = 3
    MaxTasks = 0
    MaxDepth = 2
    Headers <- MC_Headers3
    InSampled = TRUE
    SnapshotOnPush = TRUE
    WithLazy = FALSE
    WithCurrent = TRUE
    Emit = TRUE
VIEW tview
INVARIANTS SamplerOncePerTrace DecisionGoverns UnsampledSilent SampledConsistent NoTraceNoParent FrameCarries
PROPERTIES Restored
ACTION_CONSTRAINT EmitReplay
CHECK_DEADLOCK FALSE
