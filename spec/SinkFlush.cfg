\* trace validation of sink flushes (code -> spec); the trace file is named by env TRACE
SPECIFICATION Spec
POSTCONDITION TraceAccepted
CHECK_DEADLOCK FALSE
