\* C05 typed chains: ALL sequences (not only shortest paths: the history is part of the state)
\* of <= 3 operations out of {with_mdl, with_name, with_props, map_props, with_completion x2,
\* start} after New (both verdicts, completions rec1 / dfltl (level only) / dfltp (panic level
\* only), clock forwards / backwards), each followed by every terminal operation (complete_with also with the completion forms
\* recRef / recSS / fromE / empty, with_completion with rec2 / fromE); replayed on
\* statically typed guards.
SPECIFICATION Spec
CONSTANTS
    Mdls = {"m1"}
    Names = {"n1"}
    PropVals = {1}
    NewComps = {"rec1", "dfltl", "dfltp"}
    WithComps = {"rec2", "fromE"}
    CwComps = {"rec3", "dfltL", "ok", "err", "recRef", "recSS", "fromE", "empty"}
    Scripts <- MC_ScriptsTyped
    Forms = {"none"}
    Frames = {"in"}
    Carriers = {"fn", "async_fn", "block"}
    MaxLen = 3
    F2Bug = FALSE
    Emit = TRUE
VIEW viewAll
INVARIANTS TypeOK AtMostOnce ExactlyOnceIffEnabledStarted EnabledIsFilterVerdict
    ReturnValueTruthful ExtentIsStartToEnd CarriesLatestData PanicAddsErrAndLevel
    RefinesStatement LiveGuardWhole SetupBracketsSpan
PROPERTY ProbesAgree
ACTION_CONSTRAINT EmitReplay
CHECK_DEADLOCK FALSE
