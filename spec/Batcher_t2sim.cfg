\* Batcher t2: s1 = send,send; s2 = send, blocking send; s3 = try_send; f1 = blocking flush (no timeout); Cap 1, MaxRetry 10 (hard-coded by bounded()), <= 1 processor faults, AnyRemainder FALSE, receiver kill TRUE; idle spinning cut at 3 ms. Simulation (seeded random behaviours up to depth 60), one replay per behaviour.
SPECIFICATION Spec
CONSTANTS
    SenderOps <- T2_SenderOps
    FlusherOps <- T2_FlusherOps
    Cap = 1
    MaxRetry = 10
    MaxFail = 1
    AnyRemainder = FALSE
    NonEmptyRem = FALSE
    OutcomeSet = {"ok", "fail", "retry", "panic", "panicFut"}
    AllowKill = TRUE
    MaxIdleDelay = 500
    Emit = TRUE
CONSTRAINT IdleBound
INVARIANTS TypeOK Bounded Partition StatusConsistent TruncCounted FlushMeansDone FlushRetTruthful RetryBounded BackoffBounded CallbackOnce SendNeverWaits
ACTION_CONSTRAINT EmitAtEnd
CHECK_DEADLOCK FALSE
