\* Batcher q1: s1 = send,send; s2 = blocking send (no timeout); f1 = blocking flush (no timeout); Cap 1, MaxRetry 10 (hard-coded by bounded()), <= 2 processor faults, FALSE remainders, receiver kill FALSE; idle spinning cut at 3 ms. Exhaustive.
SPECIFICATION Spec
CONSTANTS
    SenderOps <- Q_SenderOps
    FlusherOps <- Q_FlusherOps
    Cap = 1
    MaxRetry = 10
    MaxFail = 2
    AnyRemainder = FALSE
    NonEmptyRem = FALSE
    OutcomeSet = {"ok", "fail", "retry", "panic", "panicFut"}
    AllowKill = FALSE
    MaxIdleDelay = 3
    Emit = TRUE
VIEW view
CONSTRAINT IdleBound
INVARIANTS TypeOK Bounded Partition StatusConsistent TruncCounted FlushMeansDone FlushRetTruthful RetryBounded BackoffBounded CallbackOnce SendNeverWaits
ACTION_CONSTRAINT EmitReplay
CHECK_DEADLOCK FALSE
