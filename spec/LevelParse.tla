---------------------------- MODULE LevelParse ----------------------------
(***************************************************************************)
(* The lenient level grammar (src/level.rs, `impl FromStr for Level`),     *)
(* shared by C15 (parsers are total and accept the documented grammar) and *)
(* C17 (event level of a textual `lvl` value).                             *)
(*                                                                         *)
(* A text is a sequence of one-character strings.  Trim (white space of any *)
(* class, at both ends); the first letter                                  *)
(* selects the word; following letters must spell the word (any case);     *)
(* the first printable ASCII non-letter ends the match; a control or       *)
(* non-ASCII character, or a letter beyond / different from the word, is   *)
(* an error.  Result: 1..4 (Debug, Info, Warn, Error) or 0 (no level).     *)
(***************************************************************************)
EXTENDS Naturals, Sequences

Lower == <<"a","b","c","d","e","f","g","h","i","j","k","l","m","n","o","p","q","r","s","t","u","v","w","x","y","z">>
UpperS == <<"A","B","C","D","E","F","G","H","I","J","K","L","M","N","O","P","Q","R","S","T","U","V","W","X","Y","Z">>
LowerSet == {Lower[i] : i \in 1..26}
UpperSet == {UpperS[i] : i \in 1..26}
IsLetter(c) == c \in LowerSet \cup UpperSet
Up(c) == IF c \in LowerSet THEN UpperS[CHOOSE i \in 1..26 : Lower[i] = c] ELSE c
\* the characters the models use beyond letters
PrintableNonLetter == {"0","1","2","3","4","5","6","7","8","9","(",")"," ","-","_",":","."}
\* White space is what `str::trim` removes (Unicode White_Space), by class: the ASCII space; the ASCII
\* controls that are white space - tab, line feed, carriage return ("\r\n" is two of them); non-ASCII
\* white space - U+00A0 NO-BREAK SPACE (2 bytes), U+2003 EM SPACE (3 bytes).  Only the space is a
\* printable ASCII character (inside a text it ends the match; the others are errors there).
NBSP == " "
EMSP == " "
Whitespace == {" ", "\t", "\n", "\r", NBSP, EMSP}
\* what may stand, independently, before and after a token: nothing, or white space of one class
WsClasses == {<<>>, <<" ">>, <<"\t">>, <<"\n">>, <<"\r", "\n">>, <<NBSP>>, <<EMSP>>}

RECURSIVE TrimL(_)
TrimL(s) == IF s # <<>> /\ Head(s) \in Whitespace THEN TrimL(Tail(s)) ELSE s
RECURSIVE TrimR(_)
TrimR(s) == IF s # <<>> /\ s[Len(s)] \in Whitespace THEN TrimR(SubSeq(s, 1, Len(s) - 1)) ELSE s
Trim(s) == TrimR(TrimL(s))

\* TRUE iff text t (first character already matched) is a lenient match of word w
RECURSIVE WordOK(_, _, _)
WordOK(t, w, i) ==
    IF i > Len(t) THEN TRUE
    ELSE IF IsLetter(t[i]) THEN
            IF i > Len(w) \/ Up(t[i]) # w[i] THEN FALSE ELSE WordOK(t, w, i + 1)
    ELSE IF t[i] \in PrintableNonLetter THEN TRUE
    ELSE FALSE

INFORMATION == <<"I","N","F","O","R","M","A","T","I","O","N">>
DEBUG == <<"D","E","B","U","G">>
DBG == <<"D","B","G">>
ERROR == <<"E","R","R","O","R">>
WARNING == <<"W","A","R","N","I","N","G">>
WRN == <<"W","R","N">>

ParseLevel(s) ==
    LET t == Trim(s) IN
    IF t = <<>> THEN 0
    ELSE LET c == Up(t[1]) IN
         IF c = "I" THEN (IF WordOK(t, INFORMATION, 2) THEN 2 ELSE 0)
         ELSE IF c = "D" THEN (IF WordOK(t, DEBUG, 2) \/ WordOK(t, DBG, 2) THEN 1 ELSE 0)
         ELSE IF c = "E" THEN (IF WordOK(t, ERROR, 2) THEN 4 ELSE 0)
         ELSE IF c = "W" THEN (IF WordOK(t, WARNING, 2) \/ WordOK(t, WRN, 2) THEN 3 ELSE 0)
         ELSE 0

RECURSIVE Concat(_)
Concat(s) == IF s = <<>> THEN "" ELSE Head(s) \o Concat(Tail(s))
=============================================================================
