\* C12 level-B conformance of recorded request sequences (quick: 3 events per signal stream).
SPECIFICATION CSpec
CONSTANTS
    NEvents = 3
    Sizes = {1, 2}
    Limits = {1, 2, 3}
    MidFlushes = {{}}
    Faults = {"reject", "stall", "stallbody", "stalltrail", "rstbody", "dropb", "dropa", "refuse"}
    MaxFaults = 12
    MaxRetry = 10
    DoublePop = FALSE
    Emit = FALSE
INVARIANTS AtLeastOnce ResendSame FreshConnAfterBreak
CHECK_DEADLOCK FALSE
