\* C13 quick: kinds log/span/metric x extents none/point/range; header per kind plus <= 2 extra
\* properties: every (key, shape) pair once (23 atoms incl. a re-entrant value and Display-only / Debug-only captured values, 29 composites over 8 inner
\* atoms, 3 user keys, 4 keys needing escaping x 6 shapes, 18 well-known pairs), all ordered pairs over 24
\* core properties (duplicates, F17 trigger, ids, re-entrant value, escaped key); 24 metric headers
\* (agg x value shape).  Transcription with the F8/F9 repairs; F17 carved out.
\* + empty / backwards range extents (every metric header, a few extras per kind); map keys: text, bool,
\* i64, f64, bytes, sequence.
\* + carriers: the properties as one slice, as And of two maps, as event + ambient ThreadLocalCtxt frame through
\* emit_core::emit (12 x 12 cross-side pairs x 3 kinds x 2 carriers).
\* + value forms (fixed-size arrays / Options of primitives, borrowed byte array), template forms (formatted hole,
\* literal), 128-bit metric values; the terminal sink as stdout / stderr, colored or not.
\* + map keys: null, Option, a map as key, a compound key (null, bytes, bool, float, nested sequence / map), borrowed
\* bytes; metric values that are no points (null, None, bool, text, sequence of texts, nested sequence, map, struct,
\* unit variant: carried as a log record) and 128-bit typed values that fit 64 bits; range extents by length class
\* (zero, ns, us, ms, s, min) with the terminal's rendering of the length; module paths of one / two / three segments;
\* metric samples without a metric_name / without a metric_value.
SPECIFICATION Spec
CONSTANTS
    Events <- MC_Events
    FixF8 = TRUE
    FixF9 = TRUE
    AndClaimsUnique = FALSE
    CarveF17 = TRUE
    Emit = TRUE
    MaxExtras = 2
    Tier = "quick"
INVARIANTS TypeOK UniqueClaimSound AttrKeysUnique EveryPropOnce FirstWins WellKnownLifted Total Refines
ACTION_CONSTRAINT EmitReplay
CHECK_DEADLOCK FALSE
