------------------------------ MODULE FileChan ------------------------------
(***************************************************************************)
(* C09 carry-through to rolling files: the `emit_batcher::Channel`         *)
(* contract as the batcher relies on it, for emit_file's own channel type  *)
(* (emitter/file/src/lib.rs `impl emit_batcher::Channel for EventBatch`),  *)
(* composed with `Sender::send` and the receiver's hand-over - with the    *)
(* STORAGE the channel object retains as part of the state ("emitting ...  *)
(* never grows without bound; overflow drops the oldest").                 *)
(*                                                                         *)
(* Level A (the statement): the events accepted and not yet handed over    *)
(* never exceed the capacity; a send that finds the queue full discards    *)
(* the whole pending queue and counts one truncation; what the channel     *)
(* RETAINS (the formatted buffers it keeps alive) is what is pending -     *)
(* so it is bounded by the capacity too, however many truncations there    *)
(* were and however long the worker is stalled.                            *)
(* Level B (the code): `bufs` (the buffers), `index` (a read cursor that   *)
(* `advance` moves while a batch is being written), `len() = bufs.len() -  *)
(* index`; `push` appends; `clear` empties `bufs` and resets the cursor;   *)
(* the receiver's take moves the whole object away and leaves a new one.   *)
(*                                                                         *)
(* LazyClear = TRUE is the design in which `clear` only moves the cursor   *)
(* past the pending buffers ("they are freed along with the batch"):       *)
(* len(), the truncation counter and the files are all unchanged, but the  *)
(* object grows by a full queue per truncation while the worker is busy    *)
(* (FileChan_lazy.cfg must violate StoreBounded on every run).             *)
(***************************************************************************)
EXTENDS Naturals, Sequences, FiniteSets, TLC, Json

CONSTANTS Capacity, MaxOps, LazyClear, Emit

VARIABLES bufs, index,        \* level B
          pending,            \* level A: events accepted and not handed over
          trunc, nsent, nops, stalled,
          hist
vars == <<bufs, index, pending, trunc, nsent, nops, stalled, hist>>
view == <<bufs, index, pending, trunc, nsent, nops, stalled>>

LenB == Len(bufs) - index
ClearB == IF LazyClear THEN [b |-> bufs, i |-> Len(bufs)] ELSE [b |-> <<>>, i |-> 0]

Init ==
    /\ bufs = <<>> /\ index = 0 /\ pending = <<>> /\ trunc = 0 /\ nsent = 0 /\ nops = 0
    /\ stalled = FALSE /\ hist = <<>>

\* Sender::send: if len() >= capacity { clear(); truncated += 1 }; push
Send ==
    /\ nops < MaxOps
    /\ LET full == LenB >= Capacity
           c == IF full THEN ClearB ELSE [b |-> bufs, i |-> index]
           e == nsent + 1
       IN /\ bufs' = Append(c.b, e) /\ index' = c.i
          /\ pending' = Append(IF full THEN <<>> ELSE pending, e)
          /\ trunc' = IF full THEN trunc + 1 ELSE trunc
          /\ nsent' = e /\ nops' = nops + 1
          /\ hist' = Append(hist, [op |-> "send", pending |-> Len(pending'), trunc |-> trunc', retained |-> Len(pending')])
    /\ UNCHANGED stalled

\* the receiver's hand-over: the whole object moves to the worker (which is then busy with it:
\* while it is, nothing is taken again); a fresh object takes its place
Take ==
    /\ nops < MaxOps /\ ~stalled /\ LenB > 0
    /\ bufs' = <<>> /\ index' = 0 /\ pending' = <<>>
    /\ stalled' = TRUE
    /\ nops' = nops + 1
    /\ hist' = Append(hist, [op |-> "take", pending |-> 0, trunc |-> trunc, retained |-> 0])
    /\ UNCHANGED <<trunc, nsent>>

\* the worker finishes the batch it holds
Finish ==
    /\ nops < MaxOps /\ stalled
    /\ stalled' = FALSE /\ nops' = nops + 1
    /\ hist' = Append(hist, [op |-> "finish", pending |-> Len(pending), trunc |-> trunc, retained |-> Len(pending)])
    /\ UNCHANGED <<bufs, index, pending, trunc, nsent>>

Next == Send \/ Take \/ Finish
Spec == Init /\ [][Next]_vars

TypeOK == index \in 0..Len(bufs) /\ trunc \in Nat
\* the channel's own length is the number of pending events
LenRefines == LenB = Len(pending)
PendingBounded == Len(pending) <= Capacity
\* what the object keeps alive is what is pending
StoreBounded == Len(bufs) <= Capacity
StoreIsPending == Len(bufs) = Len(pending)

\* The real worker cannot be held back from taking: when it is idle and something is pending it takes at once.
\* The replayed behaviours are the eager ones (FileChan_replay_*.cfg); the invariants are checked on all of them.
Eager == (~stalled /\ LenB > 0) => stalled'

EmitReplay == Emit => PrintT(<<"REPLAY", ToJson([cap |-> Capacity, ops |-> hist'])>>)
=============================================================================
