\* Batcher liveness 2: two sends, (async flush, blocking callback, raw when_empty callback) plus receiver kill off; weak fairness on the receiver,
\* on every sender/flusher thread and on the final sender drop. No state constraint.
SPECIFICATION FairSpec
CONSTANTS
    SenderOps <- L2_SenderOps
    FlusherOps <- L2_FlusherOps
    Cap = 1
    MaxRetry = 1
    MaxFail = 1
    AnyRemainder = FALSE
    NonEmptyRem = FALSE
    OutcomeSet = {"ok", "fail", "retry", "panic", "panicFut"}
    AllowKill = FALSE
    MaxIdleDelay = 500
    Emit = FALSE
VIEW view
PROPERTIES FlushLive Drain DrainClean AllProcessed BlockedSenderWakes EmptyLive
CHECK_DEADLOCK FALSE
