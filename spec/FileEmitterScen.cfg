\* end-to-end scenario environments: capacity {2, 4, 1000} x max_files {2, 32} x max size {8, 1000} x reuse x
\* (no fault | {err, short, burst, nocreate} x call index {1,2,3,4,5,6,8,10,13}) x stall at write/sync call {0 (none), 1, 3, 6}
\* x writer failures {none, every 2nd event after partial output, every 3rd after partial output, every 3rd before any output}
\* x template form {full, noext, nodir, invalid (inert emitter; without fault / stall)} x separator {"\n", "\r\n"}
SPECIFICATION Spec
CONSTANTS
    Caps = {2, 4, 1000}
    MaxFilesSet = {2, 32}
    MaxSizeSet = {8, 1000}
    ReuseSet = {TRUE, FALSE}
    FaultKinds = {"err", "short", "burst", "nocreate"}
    FaultAt = {1, 2, 3, 4, 5, 6, 8, 10, 13}
    Stalls = {0, 1, 3, 6}
    WriterFails <- QuickWriterFails
    Templates = {"full", "noext", "nodir", "invalid"}
    Seps = {"nl", "crlf"}
INVARIANTS Printed Framed
CHECK_DEADLOCK FALSE
