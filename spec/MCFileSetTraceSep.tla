------------------------- MODULE MCFileSetTraceSep -------------------------
\* production runs with a multi-byte separator: the event's text is padded so that every record
\* (text, what the writer put after it, the separator) is 8 bytes (harness/vh_file SEP_REC);
\* a separator written on its own (recovery on reuse) counts 1 as everywhere, which cannot
\* change a fits / does-not-fit decision for the size limits used (1, 2 x 8 + 2, 100 000)
EXTENDS FileSetTrace
MC_EvSize == [e \in 1..30 |-> 8]
=============================================================================
