-------------------------------- MODULE Emit --------------------------------
(***************************************************************************)
(* C01 - an event is emitted iff the effective filter accepts the fully    *)
(* built event.                                                            *)
(*                                                                         *)
(* Filter trees   leaf [op, p, id] | none | opt | and | or                 *)
(*                | ref | box | arc | erased | assert (AssertInternal)     *)
(* Emitter trees  leaf [op, id] | none | opt | and | wrap [op, f, t]       *)
(*                | ref | box | arc | erased | assert                      *)
(*                | wrapfn [op, kind, t]: wrapping::from_fn that drops,    *)
(*                  passes, or passes with a=77 put in front               *)
(*                | rt [op, f, amb, clock, id, t]: a nested Runtime used   *)
(*                  as a destination; it runs the pipeline again with its  *)
(*                  own filter, ambient properties and clock               *)
(* Entry points: Runtime::emit ("rt"), Emitter::emit on a Runtime, emit_core::emit ("core"),  *)
(* emit!(extent:, props:) ("macro"), info!(..) ("macro_lvl"), emit!(evt: Event::new(..))     *)
(* ("macro_evt"), emit!(evt: evt!(extent:, ..)) ("evt_macro"), a Span / Metric event with an *)
(* explicit extent through Runtime::emit ("span_evt", "metric_evt"), a SpanGuard whose       *)
(* extent is computed from two clock readings (programmatic "span_guard", new_span!          *)
(* "span_macro"), Emitter::emit on the destination tree ("direct").                          *)
(* A configuration is [own, extent, ambient, clock, clock2, rtf, csf, em, entry, env]: *)
(* the event's own properties (a sequence of [k, v], duplicates allowed),  *)
(* its extent, the ambient properties, the clock (None or a reading), the  *)
(* runtime's filter, the call-site filter ([op |-> "absent"] when there is *)
(* none), the destination tree and the entry point.                        *)
(*                                                                         *)
(* Level A is the logical definition: Truth (plain boolean logic), InvA    *)
(* (which leaves a left-to-right short-circuit evaluation consults),       *)
(* Reach (which destinations are behind passing branches), Built (the      *)
(* event as destinations must see it).  Level B is a small state machine   *)
(* mirroring emit_core::emit and the combinators' emit/matches bodies      *)
(* (core/src/lib.rs, emitter.rs, filter.rs, src/macro_hooks.rs).           *)
(***************************************************************************)
EXTENDS Naturals, Sequences, FiniteSets, TLC, Json

CONSTANTS
    Scens,      \* the configurations explored are UNION {Scen(s) : s \in Scens}
    Scen(_),    \* (TLC computes initial states on one thread and enumerates a union of
                \* big sets quadratically, so the initial states are only the scenario
                \* descriptions and a scenario's configurations are successors of its seed)
    ClockT,     \* the reading of a working clock
    Emit        \* TRUE: print one REPLAY line per finished configuration

None == 0

VARIABLES
    cfg,     \* the configuration (never changes once picked)
    pc,      \* "pick" | "start" | "extent" | "filter" | "dispatch" | "done"
    amb,     \* the snapshot of the ambient properties
    ext,     \* the resolved extent
    log,     \* what was consulted / reached, in order:
             \*   [t |-> "ctxt", id], [t |-> "clock", id] (id 0: the runtime emitted through, else a nested one),
             \*   [t |-> "f", id] filter leaf, [t |-> "e", id, ev] delivery
    work     \* dispatch: stack of [t |-> emitter subtree, ev |-> event]

vars == <<cfg, pc, amb, ext, log, work>>

FWrap == {"opt", "ref", "box", "arc", "erased", "assert"}
\* forms of the same thing (level A does not tell them apart):
\*   leaf / fnleaf: a closure (`from_fn`) or a plain `fn` pointer as filter / destination;
\*   none / always: Option::None or `filter::always()`;
\*   the field wf of wrap / wrapfn: the wrapping given by value ("owned"), borrowed ("ref":
\*   `Wrapping for &T`) or type-erased ("erased": `&(dyn ErasedWrapping + Send + Sync)`);
\*   the entry "rt_with": the event put together with with_props / with_mdl / with_extent;
\*   the entry "rt_map": its properties put together with map_props, the event passed borrowed
\*   and type-erased (`&evt.erase()`);
\*   the field env: the form in which the runtime holds its ambient context, clock and rng -
\*   by value ("plain"), borrowed, boxed, shared, Some(..), type-erased (`Box<dyn ErasedCtxt ..>`,
\*   `Box<dyn ErasedClock ..>`), AssertInternal(..); and, for "no clock, nothing ambient",
\*   Option::None ("optnone") and Empty ("empty") in place of components that yield nothing
LeafOps == {"leaf", "fnleaf"}
Strippable == {"ref", "box", "arc", "erased", "assert"}
EnvForms == {"plain", "ref", "box", "arc", "opt", "erased", "assert"}
EnvAbsent == {"optnone", "empty"}
Pipeline == {"rt", "rt_with", "rt_map", "rt_as_emitter", "core", "macro", "macro_evt", "macro_lvl", "evt_macro",
             "span_evt", "metric_evt", "span_guard", "span_macro"}
\* entries whose event gets its extent from two readings of the runtime's clock (at start
\* and at completion); the configuration's `extent` is not used by them
SpanGuards == {"span_guard", "span_macro"}

Range(a, b) == [kind |-> "range", a |-> a, b |-> b]

\* what an entry point itself puts in front of the event's own properties
\* (evt_kind Span = 31 / Metric = 32, names and the metric value as in C02; lvl Info = 52)
EntryPrefix(entry) ==
    CASE entry \in {"span_evt", "span_guard", "span_macro"} ->
            <<[k |-> "evt_kind", v |-> 31], [k |-> "span_name", v |-> 41]>>
      [] entry = "metric_evt" ->
            <<[k |-> "evt_kind", v |-> 32], [k |-> "metric_name", v |-> 42],
              [k |-> "metric_agg", v |-> 43], [k |-> "metric_value", v |-> 44]>>
      [] entry = "macro_lvl" -> <<[k |-> "lvl", v |-> 52]>>
      [] OTHER -> <<>>

NoExtent == [kind |-> "none", a |-> 0, b |-> 0]
Point(t) == [kind |-> "point", a |-> t, b |-> t]

-----------------------------------------------------------------------------
(* events and leaf predicates *)

FirstVal(props, k) ==
    IF \E i \in 1..Len(props) : props[i].k = k
    THEN props[CHOOSE i \in 1..Len(props) : props[i].k = k /\ \A j \in 1..(i - 1) : props[j].k # k].v
    ELSE None

\* chosen so that a filter can tell whether it saw the ambient properties, the
\* own-first order and the resolved extent
PredHolds(p, ev) ==
    CASE p = "true" -> TRUE
      [] p = "false" -> FALSE
      [] p = "has_a" -> FirstVal(ev.props, "a") # None
      [] p = "has_b" -> FirstVal(ev.props, "b") # None
      [] p = "a_is_1" -> FirstVal(ev.props, "a") = 1          \* an own value
      [] p = "a_is_11" -> FirstVal(ev.props, "a") = 11        \* an ambient value
      [] p = "two_props" -> Len(ev.props) = 2
      [] p = "ext_none" -> ev.ext.kind = "none"
      [] p = "ext_point" -> ev.ext.kind = "point"
      [] p = "ext_range" -> ev.ext.kind = "range"
      [] p = "ext_inverted" -> ev.ext.kind = "range" /\ ev.ext.b < ev.ext.a    \* ends before it starts
      [] p = "ext_empty" -> ev.ext.kind = "range" /\ ev.ext.b = ev.ext.a
      [] p = "ext_clock" -> ev.ext = Point(ClockT)
      [] p = "ext_9" -> ev.ext = Point(9)                     \* the reading of a nested runtime's clock

OwnEvent(c) == [props |-> c.own, ext |-> c.extent]

\* the event's own extent: whatever was given - absent, a point, a forward, empty or
\* inverted range are all extents of their own - or, for a span guard, the range between
\* the clock's two readings
OwnExtent(c) ==
    IF c.entry \in SpanGuards
    THEN (IF c.clock # None THEN Range(c.clock, c.clock2) ELSE NoExtent)
    ELSE c.extent

OwnProps(c) == EntryPrefix(c.entry) \o c.own

\* the event exactly as destinations must see it
Built(c) ==
    [props |-> OwnProps(c) \o c.ambient,
     ext |-> IF OwnExtent(c).kind # "none" THEN OwnExtent(c)
             ELSE IF c.clock # None THEN Point(c.clock) ELSE NoExtent]

\* what a rewriting wrapping passes on: a = 77 in front (so it wins)
Prepend(ev) == [props |-> <<[k |-> "a", v |-> 77]>> \o ev.props, ext |-> ev.ext]

\* the event as the destinations of a nested runtime must see it: its ambient properties
\* appended, its clock's reading when there is still no extent
Rebuilt(n, ev) ==
    [props |-> ev.props \o n.amb,
     ext |-> IF ev.ext.kind # "none" THEN ev.ext
             ELSE IF n.clock # None THEN Point(n.clock) ELSE NoExtent]

\* the effective filter: the call-site filter when one is given, otherwise the runtime's
Eff(c) == IF c.csf.op # "absent" THEN c.csf ELSE c.rtf

-----------------------------------------------------------------------------
(* Level A: logical definitions *)

RECURSIVE Truth(_, _)
Truth(f, ev) ==
    CASE f.op \in LeafOps -> PredHolds(f.p, ev)
      [] f.op \in {"none", "always"} -> TRUE
      [] f.op \in FWrap -> Truth(f.t, ev)
      [] f.op = "and" -> Truth(f.l, ev) /\ Truth(f.r, ev)
      [] f.op = "or" -> Truth(f.l, ev) \/ Truth(f.r, ev)

\* `and_when`: "if self evaluates to true then other will be evaluated"; `or_when`: "if
\* self evaluates to false then other will be evaluated"
RECURSIVE InvA(_, _)
InvA(f, ev) ==
    CASE f.op \in LeafOps -> <<f.id>>
      [] f.op \in {"none", "always"} -> <<>>
      [] f.op \in FWrap -> InvA(f.t, ev)
      [] f.op = "and" -> InvA(f.l, ev) \o (IF Truth(f.l, ev) THEN InvA(f.r, ev) ELSE <<>>)
      [] f.op = "or" -> InvA(f.l, ev) \o (IF Truth(f.l, ev) THEN <<>> ELSE InvA(f.r, ev))

\* destinations behind present, passing branches, with the event each must receive
RECURSIVE Reach(_, _)
Reach(e, ev) ==
    CASE e.op \in LeafOps -> {[id |-> e.id, ev |-> ev]}
      [] e.op = "none" -> {}
      [] e.op \in FWrap -> Reach(e.t, ev)
      [] e.op = "and" -> Reach(e.l, ev) \cup Reach(e.r, ev)
      [] e.op = "wrap" -> IF Truth(e.f, ev) THEN Reach(e.t, ev) ELSE {}
      [] e.op = "wrapfn" -> (CASE e.kind = "drop" -> {}
                               [] e.kind = "pass" -> Reach(e.t, ev)
                               [] e.kind = "prepend" -> Reach(e.t, Prepend(ev)))
      \* the statement again, for the nested runtime and the event it is given
      [] e.op = "rt" -> IF Truth(e.f, Rebuilt(e, ev)) THEN Reach(e.t, Rebuilt(e, ev)) ELSE {}

RECURSIVE LeafIds(_)
LeafIds(e) ==
    CASE e.op \in LeafOps -> {e.id}
      [] e.op = "none" -> {}
      [] e.op \in FWrap -> LeafIds(e.t)
      [] e.op = "and" -> LeafIds(e.l) \cup LeafIds(e.r)
      [] e.op \in {"wrap", "wrapfn", "rt"} -> LeafIds(e.t)

\* filter leaves consulted by the wrappings on the way to the destinations (a set:
\* the order between branches is not specified)
RECURSIVE WrapInv(_, _)
WrapInv(e, ev) ==
    CASE e.op \in LeafOps \cup {"none"} -> {}
      [] e.op \in FWrap -> WrapInv(e.t, ev)
      [] e.op = "and" -> WrapInv(e.l, ev) \cup WrapInv(e.r, ev)
      [] e.op = "wrap" ->
            {InvA(e.f, ev)[i] : i \in 1..Len(InvA(e.f, ev))}
            \cup (IF Truth(e.f, ev) THEN WrapInv(e.t, ev) ELSE {})
      [] e.op = "wrapfn" -> (CASE e.kind = "drop" -> {}
                               [] e.kind = "pass" -> WrapInv(e.t, ev)
                               [] e.kind = "prepend" -> WrapInv(e.t, Prepend(ev)))
      [] e.op = "rt" ->
            {InvA(e.f, Rebuilt(e, ev))[i] : i \in 1..Len(InvA(e.f, Rebuilt(e, ev)))}
            \cup (IF Truth(e.f, Rebuilt(e, ev)) THEN WrapInv(e.t, Rebuilt(e, ev)) ELSE {})

\* blocking_flush: a tree has flushed when every destination in it has (all of the model's
\* destinations flush at once; None and Empty have nothing to flush)
RECURSIVE FlushA(_)
FlushA(e) ==
    CASE e.op \in LeafOps \cup {"none"} -> TRUE
      [] e.op = "and" -> FlushA(e.l) /\ FlushA(e.r)
      [] OTHER -> FlushA(e.t)

\* removing the reference / box / arc / erasure layers
RECURSIVE Strip(_)
Strip(t) ==
    CASE t.op \in Strippable -> Strip(t.t)
      [] t.op = "opt" -> [op |-> "opt", t |-> Strip(t.t)]
      [] t.op \in {"and", "or"} -> [op |-> t.op, l |-> Strip(t.l), r |-> Strip(t.r)]
      [] t.op = "wrap" -> [op |-> "wrap", f |-> Strip(t.f), t |-> Strip(t.t)]
      [] t.op = "wrapfn" -> [op |-> "wrapfn", kind |-> t.kind, t |-> Strip(t.t)]
      [] t.op = "rt" -> [op |-> "rt", f |-> Strip(t.f), amb |-> t.amb, clock |-> t.clock, id |-> t.id,
                         t |-> Strip(t.t)]
      [] OTHER -> t

-----------------------------------------------------------------------------
(* Level B: the code *)

\* Filter::matches of every combinator (core/src/filter.rs): result and consulted leaves
RECURSIVE Eval(_, _)
Eval(f, ev) ==
    CASE f.op \in LeafOps -> [res |-> PredHolds(f.p, ev), inv |-> <<f.id>>]
      [] f.op \in {"none", "always"} -> [res |-> TRUE, inv |-> <<>>]            \* Empty.matches
      [] f.op \in FWrap -> Eval(f.t, ev)                          \* (**self).matches(evt)
      [] f.op = "and" ->                                          \* l.matches(&evt) && r.matches(&evt)
            LET l == Eval(f.l, ev)
            IN IF l.res THEN LET r == Eval(f.r, ev) IN [res |-> r.res, inv |-> l.inv \o r.inv]
               ELSE l
      [] f.op = "or" ->
            LET l == Eval(f.l, ev)
            IN IF l.res THEN l
               ELSE LET r == Eval(f.r, ev) IN [res |-> r.res, inv |-> l.inv \o r.inv]

FLog(inv) == [i \in 1..Len(inv) |-> [t |-> "f", id |-> inv[i]]]

Init ==
    /\ cfg \in Scens
    /\ pc = "pick"
    /\ amb = <<>>
    /\ ext = NoExtent
    /\ log = <<>>
    /\ work = <<>>

Pick ==
    /\ pc = "pick"
    /\ cfg' \in Scen(cfg)
    /\ pc' = "start"
    /\ UNCHANGED <<amb, ext, log, work>>

\* Emitter::emit straight on the destination tree
Direct ==
    /\ pc = "start" /\ cfg.entry = "direct"
    /\ pc' = "dispatch"
    /\ work' = <<[t |-> cfg.em, ev |-> OwnEvent(cfg)]>>
    /\ ext' = cfg.extent
    /\ UNCHANGED <<cfg, amb, log>>

\* a read of the runtime's context / clock as the scripted components record it (None and
\* Empty in their place have nothing that could record)
CtxtRead == IF cfg.env \in EnvAbsent THEN <<>> ELSE <<[t |-> "ctxt", id |-> 0]>>
ClockRead == IF cfg.env \in EnvAbsent THEN <<>> ELSE <<[t |-> "clock", id |-> 0]>>

\* ctxt.with_current(|ctxt| ..)
SnapshotCtxt ==
    /\ pc = "start" /\ cfg.entry \in Pipeline
    /\ amb' = cfg.ambient
    /\ log' = log \o CtxtRead
    /\ pc' = "extent"
    /\ UNCHANGED <<cfg, ext, work>>

\* evt.extent().cloned().or_else(|| clock.now().to_extent())
\* a span guard: Timer::start reads the clock, Timer::extent reads it again; the completion
\* then emits with an Empty clock
ResolveExtent ==
    /\ pc = "extent"
    /\ IF cfg.entry \in SpanGuards
       THEN /\ ext' = OwnExtent(cfg)
            /\ log' = log \o ClockRead \o ClockRead
       ELSE IF cfg.extent.kind # "none"
       THEN ext' = cfg.extent /\ log' = log
       ELSE /\ ext' = IF cfg.clock # None THEN Point(cfg.clock) ELSE NoExtent
            /\ log' = log \o ClockRead
    /\ pc' = "filter"
    /\ UNCHANGED <<cfg, amb, work>>

\* if filter.matches(&evt) { emitter.emit(evt) }   with   FirstDefined(when, rt.filter())
EvalFilter ==
    /\ pc = "filter"
    \* (a span guard's filter is consulted when the span begins, on the span without its
    \* extent - documented; the configurations give such entries filters that do not look
    \* at the extent, so this is the event of the statement for them too)
    /\ LET ev == [props |-> OwnProps(cfg) \o amb, ext |-> ext]
           r == Eval(Eff(cfg), IF cfg.entry \in SpanGuards THEN [ev EXCEPT !.ext = NoExtent] ELSE ev)
       IN /\ log' = log \o FLog(r.inv)
          /\ IF r.res
             THEN pc' = "dispatch" /\ work' = <<[t |-> cfg.em, ev |-> ev]>>
             ELSE pc' = "done" /\ work' = <<>>
    /\ UNCHANGED <<cfg, amb, ext>>

\* one emit() body of core/src/emitter.rs per step
Dispatch ==
    /\ pc = "dispatch" /\ work # <<>>
    /\ LET top == Head(work)
           e == top.t
           rest == Tail(work)
       IN CASE e.op \in LeafOps ->
                 /\ log' = Append(log, [t |-> "e", id |-> e.id, ev |-> top.ev])
                 /\ work' = rest
            [] e.op = "none" -> log' = log /\ work' = rest               \* Empty.emit
            [] e.op \in FWrap -> log' = log /\ work' = <<[t |-> e.t, ev |-> top.ev]>> \o rest
            [] e.op = "and" ->                                           \* left, then right
                 /\ log' = log
                 /\ work' = <<[t |-> e.l, ev |-> top.ev], [t |-> e.r, ev |-> top.ev]>> \o rest
            [] e.op = "wrap" ->                                          \* wrapping::FromFilter
                 LET r == Eval(e.f, top.ev)
                 IN /\ log' = log \o FLog(r.inv)
                    /\ work' = IF r.res THEN <<[t |-> e.t, ev |-> top.ev]>> \o rest ELSE rest
            [] e.op = "wrapfn" ->                                        \* wrapping::from_fn
                 /\ log' = log
                 /\ work' = (CASE e.kind = "drop" -> rest
                               [] e.kind = "pass" -> <<[t |-> e.t, ev |-> top.ev]>> \o rest
                               [] e.kind = "prepend" -> <<[t |-> e.t, ev |-> Prepend(top.ev)]>> \o rest)
            [] e.op = "rt" ->                   \* Emitter for Runtime: self.emit(evt), i.e. emit() again
                 LET ev2 == Rebuilt(e, top.ev)
                     r == Eval(e.f, ev2)
                 IN /\ log' = log \o <<[t |-> "ctxt", id |-> e.id]>>
                               \o (IF top.ev.ext.kind = "none" THEN <<[t |-> "clock", id |-> e.id]>> ELSE <<>>)
                               \o FLog(r.inv)
                    /\ work' = IF r.res THEN <<[t |-> e.t, ev |-> ev2]>> \o rest ELSE rest
    /\ pc' = IF work' = <<>> THEN "done" ELSE "dispatch"
    /\ UNCHANGED <<cfg, amb, ext>>

Next == Pick \/ Direct \/ SnapshotCtxt \/ ResolveExtent \/ EvalFilter \/ Dispatch

Spec == Init /\ [][Next]_vars

-----------------------------------------------------------------------------
(* Properties (about finished runs) *)

Deliveries == SelectSeq(log, LAMBDA x : x.t = "e")
Consulted == SelectSeq(log, LAMBDA x : x.t = "f")
CountFor(i) == Len(SelectSeq(Deliveries, LAMBDA x : x.id = i))

IsEffLeaf(id) == id < 200        \* runtime filter leaves: 1.., call-site: 101.., wrappings: 201..

\* each destination receives the event exactly once iff the effective filter accepts
\* the fully built event (and the destination is behind passing branches), and what it
\* receives is that event
ExactlyOnce ==
    (pc = "done" /\ cfg.entry \in Pipeline) =>
        LET ev == Built(cfg)
            want == IF Truth(Eff(cfg), ev) THEN Reach(cfg.em, ev) ELSE {}
        IN /\ \A i \in LeafIds(cfg.em) : CountFor(i) = (IF \E r \in want : r.id = i THEN 1 ELSE 0)
           /\ \A n \in 1..Len(Deliveries) : [id |-> Deliveries[n].id, ev |-> Deliveries[n].ev] \in want

\* borrowed / boxed / shared / erased layers change nothing
WrappersTransparent ==
    pc = "done" =>
        LET ev == IF cfg.entry \in Pipeline THEN Built(cfg) ELSE OwnEvent(cfg)
        IN /\ Eval(Strip(Eff(cfg)), ev) = Eval(Eff(cfg), ev)
           /\ Reach(Strip(cfg.em), ev) = Reach(cfg.em, ev)
           /\ WrapInv(Strip(cfg.em), ev) = WrapInv(cfg.em, ev)

\* emitting straight to a destination bypasses filter, clock and ambient context (of the
\* runtime; a nested runtime that is itself the destination applies its own)
DirectBypass ==
    (pc = "done" /\ cfg.entry = "direct") =>
        /\ \A n \in 1..Len(log) : log[n].t \in {"ctxt", "clock"} => log[n].id # 0
        /\ \A n \in 1..Len(Consulted) : ~IsEffLeaf(Consulted[n].id)
        /\ \A i \in LeafIds(cfg.em) :
              CountFor(i) = (IF \E r \in Reach(cfg.em, OwnEvent(cfg)) : r.id = i THEN 1 ELSE 0)
        /\ \A n \in 1..Len(Deliveries) :
              [id |-> Deliveries[n].id, ev |-> Deliveries[n].ev] \in Reach(cfg.em, OwnEvent(cfg))

\* the effective filter consults exactly the leaves the logical definition names, in
\* that order; the other filter is never consulted; wrappings consult theirs
ShortCircuit ==
    (pc = "done" /\ cfg.entry \in Pipeline) =>
        LET ev == Built(cfg)
            eff == SelectSeq(Consulted, LAMBDA x : IsEffLeaf(x.id))
            wr == SelectSeq(Consulted, LAMBDA x : ~IsEffLeaf(x.id))
        IN /\ [n \in 1..Len(eff) |-> eff[n].id] = InvA(Eff(cfg), ev)
           /\ {wr[n].id : n \in 1..Len(wr)} =
                 (IF Truth(Eff(cfg), ev) THEN WrapInv(cfg.em, ev) ELSE {})

-----------------------------------------------------------------------------
(* spec -> code: the configuration and the statement's prediction *)
Prediction(c) ==
    LET pipe == c.entry \in Pipeline
        ev == IF pipe THEN Built(c) ELSE OwnEvent(c)
        ok == IF pipe THEN Truth(Eff(c), ev) ELSE TRUE
    IN [ev |-> ev,
        deliver |-> IF ok THEN Reach(c.em, ev) ELSE {},
        leaves |-> LeafIds(c.em),
        eff |-> IF pipe THEN InvA(Eff(c), ev) ELSE <<>>,
        wraps |-> IF ok THEN WrapInv(c.em, ev) ELSE {},
        flush |-> FlushA(c.em),
        bypass |-> ~pipe]

EmitReplay ==
    (Emit /\ pc' = "done") =>
        PrintT(<<"REPLAY", ToJson([cfg |-> cfg, expect |-> Prediction(cfg), logB |-> log'])>>)
=============================================================================
