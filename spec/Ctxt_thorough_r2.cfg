\* C03 thorough (replay 2): 1 thread; instances default(), setup()-built, shared(); property maps {a:1},{a:2,b:1}; kinds push/root; guard form (frames re-entered);
\* <= 3 frames, 1 task, nesting <= 3, panic unwinding; every transition replayed.
SPECIFICATION Spec
CONSTANTS
    NThreads = 1
    StoreOf <- MC_StoreS
    InstKind <- MC_KindS
    NKeys = 2
    PropChoices <- MC_Props2
    DupChoices <- MC_Dups
    Kinds <- MC_PushRoot
    Forms <- MC_Guard
    MaxFrames = 3
    MaxTasks = 1
    MaxDepth = 3
    Panics = TRUE
    Discards = TRUE
    Emit = TRUE
VIEW cview
INVARIANTS InnermostWins NoTrace StackOK
PROPERTIES ExitRestores Isolation
ACTION_CONSTRAINT EmitReplay
CHECK_DEADLOCK FALSE
