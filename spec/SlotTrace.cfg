\* C20 trace validation: rounds of <= 3 racing initialisers and 3 observers with <= 3
\* operations each, recorded from real threads on a fresh AmbientSlot per round and on the
\* process-global shared and internal slots (one round per child process); initialisers use
\* every public entry point of the round's kind of slot.
SPECIFICATION TSpec
CONSTANTS
    Inits = {1, 2, 3}
    Observers = {1, 2, 3}
    InitKinds = {"try_init_slot", "init_slot", "slot_init", "try_init", "init", "try_init_internal", "init_internal", "internal_slot_init"}
    ObsOps = {"is_enabled", "emit", "span", "flush", "probe"}
    MaxObs = 3
    HandleOps = {"h_probe", "h_flush", "h_guard_drop"}
    MaxHandle = 3
    Design = "oncelock"
INVARIANTS AtMostOneWinner ExactlyOneWinner LosersNeverReceive AllFiveTogether
    EnabledMeansInstalled InertBefore Stable HandleIsInstalled
POSTCONDITION TraceAccepted
CHECK_DEADLOCK FALSE
