\* C20 trace validation: rounds of <= 3 racing initialisers and 3 observers with <= 3
\* operations each, recorded from real threads on a fresh AmbientSlot per round and on the
\* process-global shared and internal slots (one round per child process); initialisers use
\* every public entry point of the round's kind of slot and every form of building the configuration
\* (Setup::emit_to / and_emit_to / both / map_emitter; Runtime::build / Setup::init_runtime / Runtime::default
\* + with_*); what a Setup form hands back is used (Init::get / blocking_flush / flush_on_drop, the guard
\* dropped normally or by an unwinding panic) by the winner and guarded by a loser.
SPECIFICATION TSpec
CONSTANTS
    Inits = {1, 2, 3}
    Observers = {1, 2, 3}
    InitKinds = {"try_init_slot", "init_slot", "slot_init", "try_init", "init", "try_init_internal", "init_internal", "internal_slot_init"}
    ObsOps = {"is_enabled", "emit", "span", "flush", "probe"}
    MaxObs = 3
    Forms = {"emit_to", "and_emit_to", "emit_to_and", "map_emitter", "build", "init_runtime", "default_with", "init_runtime_and"}
    HandleOps = {"h_probe", "h_flush", "h_guard_drop", "h_guard_unwind"}
    MaxHandle = 3
    Design = "oncelock"
INVARIANTS AtMostOneWinner ExactlyOneWinner LosersNeverReceive AllFiveTogether
    EnabledMeansInstalled InertBefore Stable HandleIsInstalled GuardInertWhenLost WholeEmitter
POSTCONDITION TraceAccepted
CHECK_DEADLOCK FALSE
