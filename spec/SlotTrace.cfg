\* C20 trace validation: rounds of <= 3 racing initialisers and 3 observers with <= 3
\* operations each, recorded from real threads on a fresh AmbientSlot per round.
SPECIFICATION TSpec
CONSTANTS
    Inits = {1, 2, 3}
    Observers = {1, 2, 3}
    InitKinds = {"try_init_slot", "init", "init_slot"}
    ObsOps = {"is_enabled", "emit", "span", "flush", "probe"}
    MaxObs = 3
    Design = "oncelock"
INVARIANTS AtMostOneWinner ExactlyOneWinner LosersNeverReceive AllFiveTogether
    EnabledMeansInstalled InertBefore Stable
POSTCONDITION TraceAccepted
CHECK_DEADLOCK FALSE
