\* Batcher q5: retry budget per batch: s1 = send,send; outcomes ok and retry with a non-empty remainder only (so that exhaustion is the only way to many failures); up to 13 failing attempts; Cap 2, MaxRetry 10 (hard-coded by bounded()), <= 13 processor faults, AnyRemainder FALSE, receiver kill FALSE; idle spinning cut at 3 ms. Exhaustive.
SPECIFICATION Spec
CONSTANTS
    SenderOps <- R2_SenderOps
    FlusherOps <- R2_FlusherOps
    Cap = 2
    MaxRetry = 10
    MaxFail = 13
    AnyRemainder = FALSE
    NonEmptyRem = TRUE
    OutcomeSet = {"ok", "retry"}
    AllowKill = FALSE
    MaxIdleDelay = 3
    Emit = TRUE
VIEW view
CONSTRAINT IdleBound
INVARIANTS TypeOK Bounded Partition StatusConsistent TruncCounted FlushMeansDone FlushRetTruthful RetryBounded BackoffBounded CallbackOnce SendNeverWaits
ACTION_CONSTRAINT EmitReplay
CHECK_DEADLOCK FALSE
