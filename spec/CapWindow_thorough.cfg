\* X10 thorough: window 32; scripts of 1 - 2 runs [length, count] over 12 lengths (1, 5, 9, 10, 19, 100, 10^9+5, 2^63, the saturation edge and edge+1, usize::MAX-1, usize::MAX) x counts
\* {1, 2, 31, 32, 33, 64}, plus 324 burst-quiet-tail scripts of three runs; every hint of every batch. Exhaustive.
SPECIFICATION Spec
CONSTANTS
    W = 32
    Scripts <- MC_Scripts
    Which = "thorough"
    Emit = TRUE
INVARIANTS WindowRefines Covers NotWasteful Forgets NoOverflow
ACTION_CONSTRAINT EmitReplay
CHECK_DEADLOCK FALSE
