\* C20 quick: 3 racing initialisers (try_init_slot / init_slot), 2 observers with one
\* operation each out of {is_enabled, emit, flush, probe}; all interleavings.
SPECIFICATION Spec
CONSTANTS
    Inits = {1, 2, 3}
    Observers = {1, 2}
    InitKinds = {"try_init_slot", "init_slot"}
    ObsOps = {"is_enabled", "emit", "flush", "probe"}
    MaxObs = 1
    Forms = {"emit_to"}
    HandleOps = {}
    MaxHandle = 0
    Design = "oncelock"
INVARIANTS TypeOK AtMostOneWinner ExactlyOneWinner LosersNeverReceive AllFiveTogether
    EnabledMeansInstalled InertBefore Stable WholeEmitter
CHECK_DEADLOCK FALSE
