---------------------------- MODULE MCFileWorker ----------------------------
EXTENDS FileWorker
\* event e has MC_EvSize[e] bytes including the separator (>= 3, so that a torn 1-byte
\* prefix followed by a separator differs from every complete event)
MC_EvSize == <<3, 4, 3, 4, 3, 4, 3, 4, 3, 4, 3, 4, 3, 4, 3, 4, 3, 4, 3, 4, 3, 4, 3, 4, 3, 4, 3, 4, 3, 4>>
=============================================================================
