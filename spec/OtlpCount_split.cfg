\* C14 OtlpCount split: two threads, one discard each, the counter as a separate load and store (NOT the code): must violate CountExact on every run.
SPECIFICATION Spec
CONSTANTS
    Scripts <- MC_Scripts_split
    Atomic = FALSE
    Emit = FALSE
INVARIANTS TypeOK CountExact NeverAhead
CHECK_DEADLOCK FALSE
