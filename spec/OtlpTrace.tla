----------------------------- MODULE OtlpTrace -----------------------------
(***************************************************************************)
(* C12, level A: the observable monitor.  Decides traces recorded from a   *)
(* real emit_otlp emitter talking to the scripted loopback collector.      *)
(*                                                                         *)
(* Trace events (ndjson, in the order of the recorder's single mutex):     *)
(*   Reset(sc, http1, res, hdr)  a new scenario starts; the resource tag    *)
(*                               and custom header values it configures     *)
(*   Emit(id, sig)               the harness is about to emit event id,    *)
(*                               which qualifies for signal sig            *)
(*   Connect(ep, conn)           the collector accepted a connection       *)
(*   Req(ep, sig, conn, known, ids, dec, ack, bad)                         *)
(*                               the collector decided a request (logged   *)
(*                               before the reply is written)              *)
(*   Flush(ok, clientfails, short) blocking_flush returned (short: called   *)
(*                               with a timeout far below a scripted outage)*)
(*                                                                         *)
(* Variables are what the statement talks about: which events were         *)
(* emitted, how many acknowledged requests contained each, which request   *)
(* failed last per signal, which connection was broken.  Every clause of   *)
(* the statement is a named predicate evaluated at the event it concerns;  *)
(* a failed clause is appended to `verdicts` (the run continues so one TLC *)
(* run decides all concatenated scenarios) and printed at the end.         *)
(***************************************************************************)
EXTENDS Naturals, Sequences, FiniteSets, TLC, Json, IOUtils

CONSTANT StreakK      \* SignalsIndependent: consecutive failures of one signal after which
                      \* the other, healthy signals must have been delivered

Rec == ndJsonDeserialize(IOEnv.TRACE)

Sigs == {"logs", "traces", "metrics"}
NoPend == [st |-> "none", ids |-> {}]

VARIABLES l, sc, http1, wantRes, wantHdr, emitted, sigOf, acked, dirty, pend, broken, conns, streak,
          failedEver, verdicts

vars == <<l, sc, http1, wantRes, wantHdr, emitted, sigOf, acked, dirty, pend, broken, conns, streak,
          failedEver, verdicts>>

E == Rec[l]
IsEv(name) == l <= Len(Rec) /\ E.ev = name

Flag(ok, name) == IF ok THEN <<>> ELSE <<[sc |-> sc, at |-> l, clause |-> name]>>

Init ==
    /\ l = 1 /\ sc = 0 /\ http1 = TRUE /\ wantRes = "" /\ wantHdr = ""
    /\ emitted = {} /\ sigOf = <<>> /\ acked = <<>>
    /\ dirty = FALSE
    /\ pend = [s \in Sigs |-> NoPend]
    /\ broken = [s \in Sigs |-> 0]
    /\ conns = {}
    /\ streak = [s \in Sigs |-> 0]
    /\ failedEver = [s \in Sigs |-> FALSE]
    /\ verdicts = <<>>

Reset ==
    /\ IsEv("Reset")
    /\ sc' = E.sc /\ http1' = E.http1 /\ wantRes' = E.res /\ wantHdr' = E.hdr
    /\ emitted' = {} /\ sigOf' = <<>> /\ acked' = <<>>
    /\ dirty' = FALSE
    /\ pend' = [s \in Sigs |-> NoPend]
    /\ broken' = [s \in Sigs |-> 0]
    /\ conns' = {}
    /\ streak' = [s \in Sigs |-> 0]
    /\ failedEver' = [s \in Sigs |-> FALSE]
    /\ verdicts' = verdicts
    /\ l' = l + 1

EmitEv ==
    /\ IsEv("Emit")
    /\ emitted' = emitted \cup {E.id}
    /\ sigOf' = (E.id :> E.sig) @@ sigOf
    /\ acked' = (E.id :> 0) @@ acked
    /\ verdicts' = verdicts \o Flag(E.id \notin emitted, "TraceIdsUnique")
    /\ l' = l + 1
    /\ UNCHANGED <<sc, http1, wantRes, wantHdr, dirty, pend, broken, conns, streak, failedEver>>

Connect ==
    /\ IsEv("Connect")
    /\ conns' = conns \cup {<<E.ep, E.conn>>}
    /\ verdicts' = verdicts \o Flag(\A c \in conns : c[2] # E.conn, "ConnIdsFresh")
    /\ l' = l + 1
    /\ UNCHANGED <<sc, http1, wantRes, wantHdr, emitted, sigOf, acked, dirty, pend, broken, streak, failedEver>>

Req ==
    /\ IsEv("Req")
    /\ LET ep == E.ep
           idset == {E.ids[i] : i \in 1..Len(E.ids)}
           \* the request is a well-formed export request of the endpoint's own signal
           WellFormed == ~E.bad /\ (E.known => E.sig = ep)
           NoDupInRequest == Cardinality(idset) = Len(E.ids)
           \* only events that were emitted, and only through the signal they qualify for
           OnlyEmitted == idset \subseteq emitted /\ \A i \in idset \cap emitted : sigOf[i] = ep
           \* the request that follows a failed one carries the same events
           ResendSame == (E.known /\ pend[ep].st = "ids") => idset = pend[ep].ids
           \* a broken connection is replaced by a fresh one
           FreshConnAfterBreak == broken[ep] # 0 => E.conn # broken[ep]
           OnKnownConn == <<ep, E.conn>> \in conns
           \* configuration forms the delivery rules do not depend on: every request carries the
           \* configured resource (none when not configured) and the configured custom headers
           \* (all values of a repeated key, in order; none when not configured)
           ResourceCarried == (E.known /\ ~E.bad) => E.res = wantRes
           HeadersCarried == E.known => E.hdr = wantHdr
           isAck == E.ack /\ WellFormed
           \* (dec: ack | reject | stall | stallbody | stalltrail | dropb | dropa | after_stall;
           \*  a stall after the response head leaves the connection usable)
           breaks == E.dec \in {"dropb", "dropa"} \/ (http1 /\ E.dec \in {"stall", "after_stall"})
           nstreak == IF isAck THEN 0 ELSE streak[ep] + 1
           \* an outage of one signal's endpoint does not stop the others
           SignalsIndependent ==
               nstreak = StreakK =>
                   \A i \in emitted : (sigOf[i] # ep /\ ~failedEver[sigOf[i]]) => acked[i] >= 1
       IN
       /\ acked' = IF isAck
                   THEN [i \in DOMAIN acked |-> IF i \in idset THEN acked[i] + 1 ELSE acked[i]]
                   ELSE acked
       /\ dirty' = (dirty \/ ~isAck)
       /\ pend' = [pend EXCEPT ![ep] = IF isAck THEN NoPend
                                        ELSE IF E.known THEN [st |-> "ids", ids |-> idset]
                                        ELSE [st |-> "unknown", ids |-> {}]]
       /\ broken' = [broken EXCEPT ![ep] = IF ~isAck /\ breaks THEN E.conn ELSE 0]
       /\ streak' = [streak EXCEPT ![ep] = nstreak]
       /\ failedEver' = [failedEver EXCEPT ![ep] = @ \/ ~isAck]
       /\ verdicts' = verdicts \o Flag(WellFormed, "WellFormedRequest")
                               \o Flag(NoDupInRequest, "NoDuplicateInRequest")
                               \o Flag(OnlyEmitted, "OnlyEmittedEvents")
                               \o Flag(ResendSame, "ResendSame")
                               \o Flag(FreshConnAfterBreak, "FreshConnAfterBreak")
                               \o Flag(OnKnownConn, "RequestOnAcceptedConn")
                               \o Flag(ResourceCarried, "ResourceCarried")
                               \o Flag(HeadersCarried, "HeadersCarried")
                               \o Flag(SignalsIndependent, "SignalsIndependent")
    /\ l' = l + 1
    /\ UNCHANGED <<sc, http1, wantRes, wantHdr, emitted, sigOf, conns>>

Flush ==
    /\ IsEv("Flush")
    /\ LET \* flush reports success only after every event emitted before was acknowledged
           AtLeastOnce == E.ok => \A i \in emitted : acked[i] >= 1
           \* ... exactly once when no request failed (at the collector or in the client)
           ExactlyOnceWhenClean ==
               (E.ok /\ ~dirty /\ E.clientfails = 0) => \A i \in emitted : acked[i] = 1
           \* no failed request is left without its resend
           NoPendingRetry == E.ok => \A s \in Sigs : pend[s].st = "none"
           \* bounded liveness: the scripts are finite and the flush timeout is many times the
           \* total back-off, so a failed flush means a failed request was not sent again
           \* (a flush the harness gave a deliberately short timeout may fail)
           FlushCompletes == E.ok \/ E.short
       IN verdicts' = verdicts \o Flag(AtLeastOnce, "AtLeastOnce")
                               \o Flag(ExactlyOnceWhenClean, "ExactlyOnceWhenClean")
                               \o Flag(NoPendingRetry, "NoPendingRetry")
                               \o Flag(FlushCompletes, "FlushCompletes")
    /\ l' = l + 1
    /\ UNCHANGED <<sc, http1, wantRes, wantHdr, emitted, sigOf, acked, dirty, pend, broken, conns, streak, failedEver>>

Done ==
    /\ l = Len(Rec) + 1
    /\ PrintT(<<"VERDICTS", ToJson([n |-> Len(verdicts), first |-> SubSeq(verdicts, 1, IF Len(verdicts) > 40 THEN 40 ELSE Len(verdicts))])>>)
    /\ l' = l + 1
    /\ UNCHANGED <<sc, http1, wantRes, wantHdr, emitted, sigOf, acked, dirty, pend, broken, conns, streak, failedEver, verdicts>>

Next == Reset \/ EmitEv \/ Connect \/ Req \/ Flush \/ Done

Spec == Init /\ [][Next]_vars

\* the whole trace was consumed (an event no action matches stops the run early)
TraceAccepted ==
    LET d == TLCGet("stats").diameter IN
    IF d - 2 = Len(Rec) THEN TRUE
    ELSE Print(<<"UNMATCHED", d, IF d <= Len(Rec) THEN ToJson(Rec[d]) ELSE "end">>, FALSE)
=============================================================================
