----------------------------- MODULE OtlpTrace -----------------------------
(***************************************************************************)
(* C12, level A: the observable monitor.  Decides traces recorded from a   *)
(* real emit_otlp emitter talking to the scripted loopback collector.      *)
(*                                                                         *)
(* Trace events (ndjson, in the order of the recorder's single mutex):     *)
(*   Reset(sc, http1, res, hdr)  a new scenario starts; the resource tag    *)
(*                               and custom header values it configures     *)
(*   Built(inert)                the emitter the scenario configured was   *)
(*                               built; inert: the build failed (counted   *)
(*                               in configuration_failed): nothing is      *)
(*                               accepted, everything emitted is discarded *)
(*   Emit(id, sig)               the harness is about to emit event id,    *)
(*                               which qualifies for signal sig            *)
(*   EmitBurst(lo, hi, sig)      ... events lo..hi, one after the other    *)
(*   Trunc(sig, n)               the signal's queue_full_truncated counter *)
(*                               was seen to have risen by n: n times the  *)
(*                               channel was full and dropped what was     *)
(*                               pending (at most Capacity events each)    *)
(*   Connect(ep, conn)           the collector accepted a connection       *)
(*   Req(ep, sig, conn, known, ids, dec, ack, bad)                         *)
(*                               the collector decided a request (logged   *)
(*                               before the reply is written)              *)
(*   Flush(ok, clientfails, short) blocking_flush returned (short: called   *)
(*                               with a timeout far below a scripted outage)*)
(*                                                                         *)
(* Variables are what the statement talks about: which events were         *)
(* emitted, how many acknowledged requests contained each, which request   *)
(* failed last per signal, which connection was broken.  Every clause of   *)
(* the statement is a named predicate evaluated at the event it concerns;  *)
(* a failed clause is appended to `verdicts` (the run continues so one TLC *)
(* run decides all concatenated scenarios) and printed at the end.         *)
(***************************************************************************)
EXTENDS Naturals, Sequences, FiniteSets, TLC, Json, IOUtils

CONSTANT StreakK      \* SignalsIndependent: consecutive failures of one signal after which
                      \* the other, healthy signals must have been delivered
CONSTANT Capacity     \* events a signal's channel holds before it truncates

Rec == ndJsonDeserialize(IOEnv.TRACE)

Sigs == {"logs", "traces", "metrics"}
NoPend == [st |-> "none", ids |-> {}]

VARIABLES l, sc, http1, wantRes, wantHdr, emitted, emBy, ack1, ack2, dirty, pend, broken, conns, streak,
          failedEver, verdicts,
          \* (emBy[s]: the accepted events that qualify for signal s; ack1 / ack2: the events
          \*  contained in at least one / at least two acknowledged requests - sets rather than
          \*  functions, so that bursts of thousands of events stay cheap)
          inert,      \* the emitter's build failed: it accepts nothing
          discarded,  \* events emitted to an inert emitter (never accepted)
          covered,    \* accepted events a counted truncation may have dropped: those not yet
                      \* acknowledged when the counter was seen to rise
          budget      \* per signal: Capacity x counted truncations

vars == <<l, sc, http1, wantRes, wantHdr, emitted, emBy, ack1, ack2, dirty, pend, broken, conns, streak,
          failedEver, verdicts, inert, discarded, covered, budget>>
accept == <<inert, discarded, covered, budget>>

E == Rec[l]
IsEv(name) == l <= Len(Rec) /\ E.ev = name

Flag(ok, name) == IF ok THEN <<>> ELSE <<[sc |-> sc, at |-> l, clause |-> name]>>

Init ==
    /\ l = 1 /\ sc = 0 /\ http1 = TRUE /\ wantRes = "" /\ wantHdr = ""
    /\ emitted = {} /\ emBy = [s \in Sigs |-> {}] /\ ack1 = {} /\ ack2 = {}
    /\ dirty = FALSE
    /\ pend = [s \in Sigs |-> NoPend]
    /\ broken = [s \in Sigs |-> 0]
    /\ conns = {}
    /\ streak = [s \in Sigs |-> 0]
    /\ failedEver = [s \in Sigs |-> FALSE]
    /\ verdicts = <<>>
    /\ inert = FALSE /\ discarded = {} /\ covered = {} /\ budget = [s \in Sigs |-> 0]

Reset ==
    /\ IsEv("Reset")
    /\ sc' = E.sc /\ http1' = E.http1 /\ wantRes' = E.res /\ wantHdr' = E.hdr
    /\ emitted' = {} /\ emBy' = [s \in Sigs |-> {}] /\ ack1' = {} /\ ack2' = {}
    /\ dirty' = FALSE
    /\ pend' = [s \in Sigs |-> NoPend]
    /\ broken' = [s \in Sigs |-> 0]
    /\ conns' = {}
    /\ streak' = [s \in Sigs |-> 0]
    /\ failedEver' = [s \in Sigs |-> FALSE]
    /\ verdicts' = verdicts
    /\ inert' = FALSE /\ discarded' = {} /\ covered' = {} /\ budget' = [s \in Sigs |-> 0]
    /\ l' = l + 1

\* OtlpBuilder::spawn returned: an emitter whose configuration was refused accepts nothing
Built ==
    /\ IsEv("Built")
    /\ inert' = E.inert
    /\ l' = l + 1
    /\ UNCHANGED <<sc, http1, wantRes, wantHdr, emitted, emBy, ack1, ack2, dirty, pend, broken, conns, streak,
                   failedEver, verdicts, discarded, covered, budget>>

\* `emitted` holds the ACCEPTED events: what an inert emitter is given is discarded
EmitEv ==
    /\ IsEv("Emit")
    /\ emitted' = IF inert THEN emitted ELSE emitted \cup {E.id}
    /\ discarded' = IF inert THEN discarded \cup {E.id} ELSE discarded
    /\ emBy' = IF inert THEN emBy ELSE [emBy EXCEPT ![E.sig] = @ \cup {E.id}]
    /\ UNCHANGED <<ack1, ack2>>
    /\ verdicts' = verdicts \o Flag(E.id \notin emitted \cup discarded, "TraceIdsUnique")
    /\ l' = l + 1
    /\ UNCHANGED <<sc, http1, wantRes, wantHdr, dirty, pend, broken, conns, streak, failedEver, inert, covered, budget>>

EmitBurst ==
    /\ IsEv("EmitBurst")
    /\ LET ids == E.lo..E.hi IN
       /\ emitted' = IF inert THEN emitted ELSE emitted \cup ids
       /\ discarded' = IF inert THEN discarded \cup ids ELSE discarded
       /\ emBy' = IF inert THEN emBy ELSE [emBy EXCEPT ![E.sig] = @ \cup ids]
       /\ UNCHANGED <<ack1, ack2>>
       /\ verdicts' = verdicts \o Flag(ids \cap (emitted \cup discarded) = {}, "TraceIdsUnique")
    /\ l' = l + 1
    /\ UNCHANGED <<sc, http1, wantRes, wantHdr, dirty, pend, broken, conns, streak, failedEver, inert, covered, budget>>

\* a counted overflow: what was pending (accepted, in no acknowledged request so far) may be
\* gone, at most Capacity events per truncation
Trunc ==
    /\ IsEv("Trunc")
    /\ covered' = covered \cup (emBy[E.sig] \ ack1)
    /\ budget' = [budget EXCEPT ![E.sig] = @ + E.n * Capacity]
    /\ l' = l + 1
    /\ UNCHANGED <<sc, http1, wantRes, wantHdr, emitted, emBy, ack1, ack2, dirty, pend, broken, conns, streak,
                   failedEver, verdicts, inert, discarded>>

Connect ==
    /\ IsEv("Connect")
    /\ conns' = conns \cup {<<E.ep, E.conn>>}
    /\ verdicts' = verdicts \o Flag(\A c \in conns : c[2] # E.conn, "ConnIdsFresh")
    /\ l' = l + 1
    /\ UNCHANGED <<sc, http1, wantRes, wantHdr, emitted, emBy, ack1, ack2, dirty, pend, broken, streak, failedEver>>
    /\ UNCHANGED accept

Req ==
    /\ IsEv("Req")
    /\ LET ep == E.ep
           idset == {E.ids[i] : i \in 1..Len(E.ids)}
           \* the request is a well-formed export request of the endpoint's own signal
           WellFormed == ~E.bad /\ (E.known => E.sig = ep)
           NoDupInRequest == Cardinality(idset) = Len(E.ids)
           \* only events that were emitted, and only through the signal they qualify for
           OnlyEmitted == idset \subseteq emBy[ep]
           \* the request that follows a failed one carries the same events
           ResendSame == (E.known /\ pend[ep].st = "ids") => idset = pend[ep].ids
           \* a broken connection is replaced by a fresh one
           FreshConnAfterBreak == broken[ep] # 0 => E.conn # broken[ep]
           OnKnownConn == <<ep, E.conn>> \in conns
           \* configuration forms the delivery rules do not depend on: every request carries the
           \* configured resource (none when not configured) and the configured custom headers
           \* (all values of a repeated key, in order; none when not configured)
           ResourceCarried == (E.known /\ ~E.bad) => E.res = wantRes
           HeadersCarried == E.known => E.hdr = wantHdr
           isAck == E.ack /\ WellFormed
           \* (dec: ack | reject | stall | stallbody | stalltrail | dropb | dropa | after_stall;
           \*  a stall after the response head leaves the connection usable)
           breaks == E.dec \in {"dropb", "dropa"} \/ (http1 /\ E.dec \in {"stall", "after_stall"})
           nstreak == IF isAck THEN 0 ELSE streak[ep] + 1
           \* an outage of one signal's endpoint does not stop the others
           SignalsIndependent ==
               nstreak = StreakK =>
                   \A s \in Sigs \ {ep} : ~failedEver[s] => emBy[s] \subseteq ack1
       IN
       \* (only accepted events count; anything else in a request is flagged by OnlyEmitted)
       /\ ack1' = IF isAck THEN ack1 \cup (idset \cap emitted) ELSE ack1
       /\ ack2' = IF isAck THEN ack2 \cup (idset \cap ack1) ELSE ack2
       /\ dirty' = (dirty \/ ~isAck)
       /\ pend' = [pend EXCEPT ![ep] = IF isAck THEN NoPend
                                        ELSE IF E.known THEN [st |-> "ids", ids |-> idset]
                                        ELSE [st |-> "unknown", ids |-> {}]]
       /\ broken' = [broken EXCEPT ![ep] = IF ~isAck /\ breaks THEN E.conn ELSE 0]
       /\ streak' = [streak EXCEPT ![ep] = nstreak]
       /\ failedEver' = [failedEver EXCEPT ![ep] = @ \/ ~isAck]
       /\ verdicts' = verdicts \o Flag(WellFormed, "WellFormedRequest")
                               \o Flag(NoDupInRequest, "NoDuplicateInRequest")
                               \o Flag(OnlyEmitted, "OnlyEmittedEvents")
                               \o Flag(ResendSame, "ResendSame")
                               \o Flag(FreshConnAfterBreak, "FreshConnAfterBreak")
                               \o Flag(OnKnownConn, "RequestOnAcceptedConn")
                               \o Flag(ResourceCarried, "ResourceCarried")
                               \o Flag(HeadersCarried, "HeadersCarried")
                               \o Flag(SignalsIndependent, "SignalsIndependent")
    /\ l' = l + 1
    /\ UNCHANGED <<sc, http1, wantRes, wantHdr, emitted, emBy, conns>>
    /\ UNCHANGED accept

Flush ==
    /\ IsEv("Flush")
    /\ LET \* flush reports success only after every accepted event emitted before was
           \* acknowledged; accepted excludes what counted truncations dropped (events pending
           \* when the counter rose, at most Capacity for each count)
           unacked(s) == emBy[s] \ ack1
           AtLeastOnce == E.ok => /\ emitted \subseteq ack1 \cup covered
                                  /\ \A s \in Sigs : budget[s] = 0 \/ Cardinality(unacked(s)) <= budget[s]
           \* ... exactly once when no request failed (at the collector or in the client)
           ExactlyOnceWhenClean ==
               (E.ok /\ ~dirty /\ E.clientfails = 0) =>
                   /\ emitted \cap ack2 = {}
                   /\ emitted \subseteq ack1 \cup covered
           \* no failed request is left without its resend
           NoPendingRetry == E.ok => \A s \in Sigs : pend[s].st = "none"
           \* bounded liveness: the scripts are finite and the flush timeout is many times the
           \* total back-off, so a failed flush means a failed request was not sent again
           \* (a flush the harness gave a deliberately short timeout may fail)
           FlushCompletes == E.ok \/ E.short
       IN verdicts' = verdicts \o Flag(AtLeastOnce, "AtLeastOnce")
                               \o Flag(ExactlyOnceWhenClean, "ExactlyOnceWhenClean")
                               \o Flag(NoPendingRetry, "NoPendingRetry")
                               \o Flag(FlushCompletes, "FlushCompletes")
    /\ l' = l + 1
    /\ UNCHANGED <<sc, http1, wantRes, wantHdr, emitted, emBy, ack1, ack2, dirty, pend, broken, conns, streak, failedEver>>
    /\ UNCHANGED accept

Done ==
    /\ l = Len(Rec) + 1
    /\ PrintT(<<"VERDICTS", ToJson([n |-> Len(verdicts), first |-> SubSeq(verdicts, 1, IF Len(verdicts) > 40 THEN 40 ELSE Len(verdicts))])>>)
    /\ l' = l + 1
    /\ UNCHANGED <<sc, http1, wantRes, wantHdr, emitted, emBy, ack1, ack2, dirty, pend, broken, conns, streak, failedEver, verdicts>>
    /\ UNCHANGED accept

Next == Reset \/ Built \/ EmitEv \/ EmitBurst \/ Trunc \/ Connect \/ Req \/ Flush \/ Done

Spec == Init /\ [][Next]_vars

\* the whole trace was consumed (an event no action matches stops the run early)
TraceAccepted ==
    LET d == TLCGet("stats").diameter IN
    IF d - 2 = Len(Rec) THEN TRUE
    ELSE Print(<<"UNMATCHED", d, IF d <= Len(Rec) THEN ToJson(Rec[d]) ELSE "end">>, FALSE)
=============================================================================
