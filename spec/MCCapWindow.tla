----------------------------- MODULE MCCapWindow -----------------------------
EXTENDS CapWindow
CONSTANT Which
R(l, c) == [len |-> l, count |-> c]
L1 == <<0, 0, 1>>
L5 == <<0, 0, 5>>
L9 == <<0, 0, 9>>
L10 == <<0, 0, 10>>
L19 == <<0, 0, 19>>
L100 == <<0, 0, 100>>
LG == <<0, 1, 5>>                                   \* 10^9 + 5
L63 == <<9, 223372036, 854775808>>                   \* 2^63
LEdge == <<16, 769767339, 735956014>>                \* the largest x with x + x/10 <= usize::MAX (the sum is exactly usize::MAX)
LEdge1 == <<16, 769767339, 735956015>>               \* one more: saturates
LMax1 == <<18, 446744073, 709551614>>
LMax == <<18, 446744073, 709551615>>
LensQ == {L1, L10, L100, LEdge, LMax}
LensT == {L1, L5, L9, L10, L19, L100, LG, L63, LEdge, LEdge1, LMax1, LMax}
CountsQ == {1, 31, 32, 33}
CountsT == {1, 2, 31, 32, 33, 64}
Lens == IF Which = "quick" THEN LensQ ELSE LensT
Counts == IF Which = "quick" THEN CountsQ ELSE CountsT
Runs == {R(l, c) : l \in Lens, c \in Counts}
MC_Scripts == {<<a>> : a \in Runs} \cup {<<a, b>> : a \in Runs, b \in Runs}
              \cup (IF Which = "quick" THEN {<<R(L100, 1), R(L1, c), R(L10, d)>> : c \in {30, 31, 32}, d \in {1, 2}}
                    ELSE {<<a, b, c>> : a \in {R(l, k) : l \in {L100, LMax, LEdge1}, k \in {1, 2}}, b \in {R(l, k) : l \in {L1, L10}, k \in {30, 31, 32}},
                                         c \in {R(l, k) : l \in {L5, L19, L63}, k \in {1, 2, 33}}})
=============================================================================
