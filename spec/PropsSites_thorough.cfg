\* C02 thorough, macro call sites: identifiers out of {a, b, c, r#type}, <= 3 keys, ascending, descending and rotated
\* source order, 12 per-key features (plain, key renamed smaller/larger/non-identifier/empty, optional Some/None, cfg on/off,
\* renamed+optional, renamed+cfg) on 1- and 2-key sites, 8 on 3-key sites, no bound on non-plain keys; distinct final names.
SPECIFICATION Spec
CONSTANTS
    KeyOrder <- MC_KeyOrder
    IdOrder <- MC_IdOrder
    NModes <- MC_NModes
    Seeds <- MC_Seeds
    Rights <- MC_Rights
    Wraps <- MC_Wraps
    SpanPrefix <- MC_SpanPrefix
    MetricPrefix <- MC_MetricPrefix
    Which = "sites_thorough"
    GrowLeaves <- MC_GrowLeaves
    MaxGrow = 0
    MacroGet = "bsearch_scan"
    Emit = TRUE
INVARIANTS GetIsFirst DedupOnceFirst UniqueClaimSound BreakStops EnumIsSpec SerIsEnum
ACTION_CONSTRAINT EmitReplay
CHECK_DEADLOCK FALSE
