------------------------------- MODULE Extent -------------------------------
(***************************************************************************)
(* X02 - extents: `ToExtent` conversions and the accessors of `Extent`     *)
(* (core/src/extent.rs; carriers Event / Metric / Span).                   *)
(*                                                                         *)
(* A source is a tree: a base value                                        *)
(*   empty | ts t | range s e | rangeopt so eo | xpoint t | xrange s e     *)
(*   | none of T          (Empty, Timestamp, Range<Timestamp>,             *)
(*                         Range<Option<Timestamp>>, Extent, None::<T>)    *)
(* under transparent wrappers                                              *)
(*   some | ref | reext (converted once, then Option<Extent> as a source)  *)
(*   | metric | span      (Metric::new / Span::new carrying it; both impl  *)
(*                         ToExtent).                                      *)
(*                                                                         *)
(* Level A: Den(src), the extent the source denotes: a timestamp is a      *)
(* point, a range a range (also when empty or backwards), a range of       *)
(* optional bounds is a range when both are present, a point at the only   *)
(* present bound, nothing when neither is; wrappers change nothing.        *)
(* Level B: ConvB(src), the `to_extent` bodies.  One behaviour = pick a    *)
(* source, convert, observe every accessor (ExtentBase!ObsA / ObsB).       *)
(***************************************************************************)
EXTENDS ExtentBase, Json

CONSTANTS Depth,     \* wrapper nesting bound
          Emit

Wrappers == {"some", "ref", "reext", "metric", "span"}
NoneTypes == {"ts", "range", "rangeopt", "extent"}

Base ==
    {[k |-> "empty"]}
    \cup {[k |-> "ts", t |-> t] : t \in Instants}
    \cup {[k |-> "range", s |-> s, e |-> e] : s \in Instants, e \in Instants}
    \cup {[k |-> "rangeopt", s |-> s, e |-> e] : s \in OptInstants, e \in OptInstants}
    \cup {[k |-> "xpoint", t |-> t] : t \in Instants}
    \cup {[k |-> "xrange", s |-> s, e |-> e] : s \in Instants, e \in Instants}
    \cup {[k |-> "none", of |-> ty] : ty \in NoneTypes}

RECURSIVE Sources(_)
Sources(n) ==
    IF n = 0 THEN Base
    ELSE LET S == Sources(n - 1) IN S \cup {[k |-> w, x |-> a] : w \in Wrappers, a \in S}

VARIABLES src, ext, phase
vars == <<src, ext, phase>>

-----------------------------------------------------------------------------
(* Level A *)
RECURSIVE Den(_)
Den(t) ==
    CASE t.k = "empty" -> NoX
      [] t.k = "none" -> NoX
      [] t.k = "ts" -> PointX(t.t)
      [] t.k = "xpoint" -> PointX(t.t)
      [] t.k = "range" -> RangeX(t.s, t.e)
      [] t.k = "xrange" -> RangeX(t.s, t.e)
      [] t.k = "rangeopt" ->
            IF t.s # Absent /\ t.e # Absent THEN RangeX(t.s, t.e)
            ELSE IF t.s # Absent THEN PointX(t.s)
            ELSE IF t.e # Absent THEN PointX(t.e)
            ELSE NoX
      [] OTHER -> Den(t.x)

(* Level B: the impls of ToExtent *)
RECURSIVE ConvB(_)
ConvB(t) ==
    CASE t.k = "empty" -> NoneB                           \* impl ToExtent for Empty
      [] t.k = "none" -> NoneB                            \* Option: as_ref().and_then(..)
      [] t.k = "ts" -> PointB(t.t)                        \* Some(Extent::point(*self))
      [] t.k = "xpoint" -> PointB(t.t)                    \* Some(self.clone())
      [] t.k = "range" -> RangeB(t.s, t.e)                \* Some(Extent::range(self.clone()))
      [] t.k = "xrange" -> RangeB(t.s, t.e)
      [] t.k = "rangeopt" ->
            \* match (self.start, self.end)
            IF t.s # Absent /\ t.e # Absent THEN ConvB([k |-> "range", s |-> t.s, e |-> t.e])
            ELSE IF t.s # Absent THEN ConvB([k |-> "ts", t |-> t.s])
            ELSE IF t.e # Absent THEN ConvB([k |-> "ts", t |-> t.e])
            ELSE ConvB([k |-> "none", of |-> "ts"])
      [] OTHER -> ConvB(t.x)                              \* &T, Option<T>, Metric, Span: delegate

-----------------------------------------------------------------------------
Init ==
    /\ src \in Sources(Depth)
    /\ ext = NoneB
    /\ phase = "ready"

Convert ==
    /\ phase = "ready"
    /\ ext' = ConvB(src)
    /\ phase' = "done"
    /\ UNCHANGED src

Next == Convert
Spec == Init /\ [][Next]_vars

-----------------------------------------------------------------------------
(* Properties: the code's conversion and accessors say what the statement says *)
Done == phase = "done"
A == ObsA(Den(src))
B == ObsB(ext)

ConversionRule == Done => B.some = A.some
PointXorRange  == Done /\ A.some => (B.is_point = A.is_point /\ B.is_range = A.is_range
                                     /\ B.is_point # B.is_range)
AsPointRule    == Done => B.point = A.point
AsRangeRule    == Done => B.range = A.range
LenRule        == Done => B.len = A.len
PropsRule      == Done => B.props = A.props
CarrierRule    == Done => B.ts = A.ts /\ B.ts_start = A.ts_start
\* a backwards range has no length, an empty one has length zero
LenSanity      == Done /\ A.is_range =>
                    /\ (A.range[1] = A.range[2] => A.len = <<0, 0>>)
                    /\ (~LeI(A.range[1], A.range[2]) => A.len = Absent)
                    /\ (A.len # Absent => AddD(A.range[1], A.len) = A.range[2])

EmitReplay ==
    Emit => PrintT(<<"REPLAY", ToJson([src |-> src', obs |-> ObsA(Den(src'))])>>)
=============================================================================
