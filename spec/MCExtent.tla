------------------------------ MODULE MCExtent ------------------------------
EXTENDS Extent
\* epoch (Timestamp::MIN), a nanosecond before / at / after a second boundary (borrow in the
\* duration arithmetic), a late instant
MC_Instants4 == {<<0, 0>>, <<0, 999999999>>, <<1, 0>>, <<1, 1>>}
MC_Instants6 == MC_Instants4 \cup {<<2, 500000000>>, <<1000000000, 5>>}
=============================================================================
