\* X11 quick: signal {logs, traces} x {HTTP+protobuf, HTTP+JSON, gRPC} x {gzip, plain}; <= 2 single-event batches (plain event | span), each
\* answered by <= 2 failures (HTTP: 500, 404, connection dropped after the request; gRPC: HTTP 500, grpc-status 14, dropped) and then acknowledged;
\* an event that matches no configured signal is discarded. Exhaustive.
SPECIFICATION Spec
CONSTANTS
    Configs <- MC_Configs
    FailKinds <- MC_FailKinds
    MaxBatches = 2
    MaxFails = 2
    Emit = TRUE
VIEW view
INVARIANTS EveryEventAccounted RequestsAccounted BatchesAccounted ChannelAccounted GzipAccounted ConnectionsAccounted DiagnosticsAccounted
ACTION_CONSTRAINT EmitReplay
CHECK_DEADLOCK FALSE
