\* C03 quick (deep): 1 thread; one default() instance; keys a,b with property maps {a:1},{a:2,b:1}; kinds push/root/disabled/current;
\* guard form (frames re-entered); <= 3 frames, 1 task, nesting <= 3, panic unwinding; every transition replayed.
SPECIFICATION Spec
CONSTANTS
    NThreads = 1
    StoreOf <- MC_Store1
    InstKind <- MC_KindD1
    NKeys = 2
    PropChoices <- MC_Props2
    DupChoices <- MC_Dups
    Kinds <- MC_AllKinds
    Forms <- MC_Guard
    MaxFrames = 3
    MaxTasks = 1
    MaxDepth = 3
    Panics = TRUE
    Discards = TRUE
    Emit = TRUE
VIEW cview
INVARIANTS InnermostWins NoTrace StackOK
PROPERTIES ExitRestores Isolation
ACTION_CONSTRAINT EmitReplay
CHECK_DEADLOCK FALSE
