---------------------------- MODULE BatcherCore ----------------------------
(***************************************************************************)
(* The queue discipline of the batching channel, distilled from            *)
(* Batcher.tla to what C09's bound depends on: the pending queue, the      *)
(* capacity, the open flag.  Any number of items, any capacity >= 1.       *)
(*                                                                         *)
(* TLAPS proves  Spec => []Bounded  for ALL capacities and item sets       *)
(* (BatcherCore_proofs below); TLC checks that Batcher.tla implements      *)
(* this module under the obvious projection (Batcher_refine.cfg), so the   *)
(* unbounded argument carries over to the implementation-shaped spec.      *)
(***************************************************************************)
EXTENDS Naturals, Sequences, TLAPS

CONSTANTS Cap, Elem
ASSUME CapPos == Cap \in Nat /\ Cap >= 1

VARIABLES pending, isOpen
vars == <<pending, isOpen>>

TypeOK == pending \in Seq(Elem) /\ isOpen \in BOOLEAN
Bounded == Len(pending) <= Cap

Init == pending = <<>> /\ isOpen = TRUE

\* Sender::send: truncate when full, then push unless closed
Send(i) ==
    /\ LET p1 == IF Len(pending) >= Cap THEN <<>> ELSE pending
       IN pending' = IF isOpen THEN Append(p1, i) ELSE p1
    /\ UNCHANGED isOpen

\* Sender::try_send: push only when open and there is room
TrySend(i) ==
    /\ pending' = IF isOpen /\ Len(pending) < Cap THEN Append(pending, i) ELSE pending
    /\ UNCHANGED isOpen

\* the receiver swaps the queue out
Take == pending' = <<>> /\ UNCHANGED isOpen

\* a sender or the receiver is dropped
Close == isOpen' = FALSE /\ UNCHANGED pending

Next == (\E i \in Elem : Send(i) \/ TrySend(i)) \/ Take \/ Close
Spec == Init /\ [][Next]_vars

Inv == TypeOK /\ Bounded

THEOREM Safety == Spec => []Bounded
<1>1. Init => Inv
  BY CapPos DEF Init, Inv, TypeOK, Bounded
<1>2. Inv /\ [Next]_vars => Inv'
  <2> SUFFICES ASSUME Inv, [Next]_vars PROVE Inv'
    OBVIOUS
  <2>1. ASSUME NEW i \in Elem, Send(i) PROVE Inv'
    <3>1. CASE Len(pending) >= Cap
      BY <2>1, <3>1, CapPos DEF Send, Inv, TypeOK, Bounded
    <3>2. CASE ~(Len(pending) >= Cap)
      BY <2>1, <3>2, CapPos DEF Send, Inv, TypeOK, Bounded
    <3> QED BY <3>1, <3>2
  <2>2. ASSUME NEW i \in Elem, TrySend(i) PROVE Inv'
    BY <2>2, CapPos DEF TrySend, Inv, TypeOK, Bounded
  <2>3. CASE Take
    BY <2>3, CapPos DEF Take, Inv, TypeOK, Bounded
  <2>4. CASE Close
    BY <2>4 DEF Close, Inv, TypeOK, Bounded
  <2>5. CASE UNCHANGED vars
    BY <2>5 DEF vars, Inv, TypeOK, Bounded
  <2> QED BY <2>1, <2>2, <2>3, <2>4, <2>5 DEF Next
<1>3. Inv => Bounded
  BY DEF Inv
<1> QED BY <1>1, <1>2, <1>3, PTL DEF Spec
=============================================================================
