\* C04 sensitivity demonstration (finding F30, repaired): the model of the code before the repair (PushLastWins = TRUE) must violate ExplicitIdsWin.
SPECIFICATION SSpec
CONSTANTS
    NThreads = 1
    StoreOf <- MC_Store1
    InstKind <- MC_Kind1
    NKeys = 3
    PropChoices <- MC_None
    DupChoices <- MC_NoDups
    Kinds <- MC_None
    Forms <- MC_None
    MaxFrames = 3
    MaxTasks = 0
    MaxDepth = 3
    Panics = TRUE
    Discards = FALSE
    MaxSpans = 3
    IncomingKinds <- MC_IncAll
    WithLazy = FALSE
    HasRng = TRUE
    ExplicitKinds <- MC_ExBoth
    WithCancel = FALSE
    CancelOwnIds = FALSE
    CtxForms <- MC_Forms
    Emit = FALSE
VIEW sview
INVARIANTS ExplicitIdsWin
ACTION_CONSTRAINT SEmitReplay
CHECK_DEADLOCK FALSE
