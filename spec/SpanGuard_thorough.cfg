\* C05 thorough: every sequence (any length) of the 11 guard operations over 2 alternative
\* modules / names / property values, completions new{rec1,dflt,dfltL} with{rec2,dflt,dfltL}
\* complete_with{rec3,dflt,dfltL,ok,err}, 6 clock scripts (forwards, backwards, standing still,
\* no reading at start / at completion / at all), both filter verdicts, forms
\* none/plain/result/guard, operations inside and after the span's frame.
SPECIFICATION Spec
CONSTANTS
    Mdls = {"m1", "m2"}
    Names = {"n1", "n2"}
    PropVals = {1, 2}
    NewComps = {"rec1", "dflt", "dfltL"}
    WithComps = {"rec2", "dflt", "dfltL"}
    CwComps = {"rec3", "dflt", "dfltL", "ok", "err"}
    Scripts <- MC_ScriptsThorough
    Forms = {"none", "plain", "result", "guard"}
    Frames = {"in", "out"}
    F2Bug = FALSE
    Emit = TRUE
VIEW view
INVARIANTS TypeOK AtMostOnce ExactlyOnceIffEnabledStarted EnabledIsFilterVerdict
    ReturnValueTruthful ExtentIsStartToEnd CarriesLatestData PanicAddsErrAndLevel
    RefinesStatement LiveGuardWhole
PROPERTY ProbesAgree
ACTION_CONSTRAINT EmitReplay
CHECK_DEADLOCK FALSE
