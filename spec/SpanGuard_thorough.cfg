\* C05 thorough: every sequence (any length) of the 11 guard operations over 2 alternative
\* modules / names / property values; default completions with level / panic level each absent
\* or present: new{rec1,dflt,dfltl,dfltp,dfltL} with{rec2,dfltl,dfltL,recRef,fromE,empty}
\* complete_with{rec3,dflt,dfltp,dfltL,ok,err}; macro result completions with ok_lvl / err_lvl /
\* err-mapper each absent or present {ok,okD,err,errD,errM,errMD}; 6 clock scripts (forwards,
\* backwards, standing still, no reading at start / at completion / at all), both filter verdicts,
\* forms none/plain/setup/result{,_o,_e}/resultM{,_m}/guard/newspan, operations inside and after
\* the frame; terminals also while the thread is unwinding.
SPECIFICATION Spec
CONSTANTS
    Mdls = {"m1", "m2"}
    Names = {"n1", "n2"}
    PropVals = {1, 2}
    NewComps = {"rec1", "dflt", "dfltl", "dfltp", "dfltL"}
    WithComps = {"rec2", "dfltl", "dfltL", "recRef", "fromE", "empty"}
    CwComps = {"rec3", "dflt", "dfltp", "dfltL", "ok", "okD", "err", "errD", "errM", "errMD", "recRef", "recSS", "fromE", "empty"}
    Scripts <- MC_ScriptsThorough
    Forms = {"none", "plain", "setup", "result", "result_o", "result_e", "resultM", "resultM_m", "guard", "newspan"}
    Frames = {"in", "out"}
    Carriers = {"fn", "async_fn", "block"}
    MaxLen = 0
    F2Bug = FALSE
    Emit = TRUE
VIEW view
INVARIANTS TypeOK AtMostOnce ExactlyOnceIffEnabledStarted EnabledIsFilterVerdict
    ReturnValueTruthful ExtentIsStartToEnd CarriesLatestData PanicAddsErrAndLevel
    RefinesStatement LiveGuardWhole SetupBracketsSpan
PROPERTY ProbesAgree
ACTION_CONSTRAINT EmitReplay
CHECK_DEADLOCK FALSE
