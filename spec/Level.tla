------------------------------- MODULE Level -------------------------------
(***************************************************************************)
(* C17 - level filtering follows the most specific module rule.            *)
(*                                                                         *)
(* Level A (the statement): a map  reg : Path -> Level | None  plus a      *)
(* default; MinFor(m) is the level registered for the longest registered   *)
(* path that is m or an ancestor of m at `::` boundaries.                  *)
(*                                                                         *)
(* Level B (the code, src/level.rs MinLevelPathMap): a trie whose nodes    *)
(* keep their children in a Vec sorted by segment, insertion at the        *)
(* position a binary search reports, lookup walking the segments of the    *)
(* module, remembering the deepest level seen and stopping at the first    *)
(* missing child.                                                          *)
(*                                                                         *)
(* Segments are integers; SegName[i] is the text and the integer order is  *)
(* the byte order of the texts (what Str's Ord gives the binary search).   *)
(***************************************************************************)
EXTENDS Naturals, Sequences, FiniteSets, TLC, Json

CONSTANTS
    SegName,      \* sequence of segment texts in byte order
    SegChars,     \* the same texts as sequences of one-character strings (for the byte-level rule)
    RegPaths,     \* paths that may be registered (sequences of segment indices)
    Modules,      \* event modules that are looked up
    Levels,       \* 1..4  (Debug < Info < Warn < Error)
    MaxOps,       \* bound on the number of registration operations
    Emit          \* TRUE: print one REPLAY line per transition

None == 0
LevelOrNone == Levels \cup {None}

VARIABLES
    reg,      \* level A: [RegPaths -> LevelOrNone]
    dflt,     \* level A: LevelOrNone
    kids,     \* level B: node (path) -> sequence of child segments, in Vec order
    nlvl,     \* level B: node (path) -> LevelOrNone
    nops,     \* number of operations so far
    hist      \* history: the operations, in order (hidden from the fingerprint by VIEW)

vars == <<reg, dflt, kids, nlvl, nops, hist>>
view == <<reg, dflt, kids, nlvl, nops>>

Prefixes(p) == {SubSeq(p, 1, n) : n \in 0..Len(p)}
Nodes == DOMAIN kids

IsPrefixOf(p, m) == Len(p) <= Len(m) /\ SubSeq(m, 1, Len(p)) = p

-----------------------------------------------------------------------------
(* Level A *)

Candidates(m) == {p \in RegPaths : reg[p] # None /\ IsPrefixOf(p, m)}

Longest(S) == CHOOSE p \in S : \A q \in S : Len(q) <= Len(p)

MinFor(m) ==
    IF Candidates(m) # {} THEN reg[Longest(Candidates(m))]
    ELSE dflt          \* None = accept everything

\* the registered path that governs m (<<>> = none: the default applies)
Governing(m) == IF Candidates(m) # {} THEN Longest(Candidates(m)) ELSE <<>>

-----------------------------------------------------------------------------
(* The matching rule as documented: "Event modules are matched based on
   Path::is_child_of" (src/level.rs, doc of MinLevelPathMap).

   Level A: p governs m when p is m or an ancestor of m at `::` boundaries (IsPrefixOf on
   segments).  Level B: core/src/path.rs `is_child_of`, which works on the *text* of the two
   paths at byte offsets:
       if child.is_char_boundary(parent.len()) {
           let (prefix, suffix) = child.split_at(parent.len());
           prefix == parent && (suffix.is_empty() || suffix.starts_with("::"))
       } else { false }
   A text is a sequence of characters, each 1..4 bytes wide; a byte offset is a character
   boundary when it is the byte length of some prefix of the characters (0 and the whole
   length included, anything beyond the length is not). *)
ByteW(c) == IF c \in {"é"} THEN 2 ELSE 1
RECURSIVE ByteLen(_)
ByteLen(t) == IF t = <<>> THEN 0 ELSE ByteW(Head(t)) + ByteLen(Tail(t))

RECURSIVE PathChars(_)
PathChars(p) ==
    IF p = <<>> THEN <<>>
    ELSE IF Len(p) = 1 THEN SegChars[p[1]]
    ELSE SegChars[p[1]] \o <<":", ":">> \o PathChars(Tail(p))

IsChildOfB(child, parent) ==
    LET n == ByteLen(parent)
        cuts == {k \in 0..Len(child) : ByteLen(SubSeq(child, 1, k)) = n}      \* is_char_boundary(n)
    IN IF cuts = {} THEN FALSE
       ELSE LET k == CHOOSE k \in cuts : TRUE
                prefix == SubSeq(child, 1, k)
                suffix == SubSeq(child, k + 1, Len(child))
            IN prefix = parent
               /\ (suffix = <<>> \/ (Len(suffix) >= 2 /\ suffix[1] = ":" /\ suffix[2] = ":"))

AllPaths == RegPaths \cup Modules
\* evaluated once (a constant): the relation is_child_of computes on the texts of all paths
ChildOfTable == [m \in AllPaths |-> {p \in AllPaths : IsChildOfB(PathChars(m), PathChars(p))}]

\* is_child_of is the statement's "is the module or an ancestor of it at `::` boundaries"
ChildOfIsSelfOrAncestor == \A m \in AllPaths, p \in AllPaths : (p \in ChildOfTable[m]) <=> IsPrefixOf(p, m)

-----------------------------------------------------------------------------
(* Level B: the trie *)

\* std's binary search contract on a sorted, duplicate-free vector:
\* <<TRUE, idx>> when present, <<FALSE, insertion point>> otherwise.
BinSearch(s, key) ==
    IF \E i \in 1..Len(s) : s[i] = key
    THEN <<TRUE, CHOOSE i \in 1..Len(s) : s[i] = key>>
    ELSE <<FALSE, Cardinality({i \in 1..Len(s) : s[i] < key}) + 1>>

InsertAt(s, idx, x) == SubSeq(s, 1, idx - 1) \o <<x>> \o SubSeq(s, idx, Len(s))

\* min_level(path, lvl): walk/create the nodes for every prefix, then set the level.
RECURSIVE Walk(_, _, _, _)
Walk(k, l, path, i) ==
    IF i > Len(path) THEN <<k, l>>
    ELSE LET node == SubSeq(path, 1, i - 1)
             seg  == path[i]
             child == SubSeq(path, 1, i)
             bs   == BinSearch(k[node], seg)
         IN IF bs[1] THEN Walk(k, l, path, i + 1)
            ELSE Walk((child :> <<>>) @@ [k EXCEPT ![node] = InsertAt(k[node], bs[2], seg)],
                      (child :> None) @@ l, path, i + 1)

\* matches(): lookup of the deepest level along the module's segments.
RECURSIVE Look(_, _, _)
Look(m, i, best) ==
    IF i > Len(m) THEN best
    ELSE LET node == SubSeq(m, 1, i - 1)
             bs == BinSearch(kids[node], m[i])
         IN IF ~bs[1] THEN best
            ELSE LET child == SubSeq(m, 1, i)
                 IN Look(m, i + 1, IF nlvl[child] # None THEN nlvl[child] ELSE best)

TrieLookup(m) == Look(m, 1, nlvl[<<>>])

-----------------------------------------------------------------------------
Init ==
    /\ reg = [p \in RegPaths |-> None]
    /\ dflt = None
    /\ kids = (<<>> :> <<>>)
    /\ nlvl = (<<>> :> None)
    /\ nops = 0
    /\ hist = <<>>

Register(p, l) ==
    /\ nops < MaxOps
    /\ reg' = [reg EXCEPT ![p] = l]
    /\ LET w == Walk(kids, nlvl, p, 1)
       IN /\ kids' = w[1]
          /\ nlvl' = [w[2] EXCEPT ![p] = l]
    /\ nops' = nops + 1
    /\ hist' = Append(hist, [op |-> "reg", path |-> p, lvl |-> l])
    /\ UNCHANGED dflt

SetDefault(l) ==
    /\ nops < MaxOps
    /\ dflt' = l
    /\ nlvl' = [nlvl EXCEPT ![<<>>] = l]
    /\ nops' = nops + 1
    /\ hist' = Append(hist, [op |-> "dflt", path |-> <<>>, lvl |-> l])
    /\ UNCHANGED <<reg, kids>>

Next ==
    \/ \E p \in RegPaths, l \in Levels : Register(p, l)
    \/ \E l \in Levels : SetDefault(l)

Spec == Init /\ [][Next]_vars

-----------------------------------------------------------------------------
(* Properties *)

TypeOK ==
    /\ reg \in [RegPaths -> LevelOrNone]
    /\ dflt \in LevelOrNone
    /\ nops \in 0..MaxOps

\* the binary search relies on this
ChildrenSorted ==
    \A n \in Nodes : \A i, j \in 1..Len(kids[n]) : i < j => kids[n][i] < kids[n][j]

\* the code's lookup is the statement's lookup, for every module
TrieRefinesMap == \A m \in Modules : TrieLookup(m) = MinFor(m)

\* the documented matching rule: what the trie answers is the level of the most specific
\* registered path the module is_child_of (level B of the relation), else the default
ChildOfCandidates(m) == {p \in RegPaths : reg[p] # None /\ p \in ChildOfTable[m]}
MapMatchesByIsChildOf ==
    \A m \in Modules :
        /\ ChildOfCandidates(m) = Candidates(m)
        /\ TrieLookup(m) = (IF ChildOfCandidates(m) # {} THEN reg[Longest(ChildOfCandidates(m))] ELSE dflt)

\* a registration changes the entry of that path only
RegisterLocal ==
    [][\A p \in RegPaths : reg'[p] # reg[p] =>
          \E l \in Levels : <<Register(p, l)>>_vars]_vars

\* Order independence follows from TrieRefinesMap: TrieLookup is a function of (reg, dflt).

-----------------------------------------------------------------------------
(* spec -> code: one REPLAY line per transition: the operations so far and the
   minimum level the statement predicts for every module afterwards. *)
ModName(m) == [i \in 1..Len(m) |-> SegName[m[i]]]
\* the history keeps segment numbers: TLC's on-disk state queue does not preserve non-ASCII
\* strings inside state variables, so the texts are only looked up when the line is printed
HistNamed(h) == [k \in 1..Len(h) |-> [op |-> h[k].op, path |-> ModName(h[k].path), lvl |-> h[k].lvl]]

EmitReplay ==
    Emit => PrintT(<<"REPLAY", ToJson([ops |-> HistNamed(hist'),
                 expect |-> {[mdl |-> ModName(m), min |-> MinFor(m)', by |-> ModName(Governing(m)')] : m \in Modules}])>>)

\* printed once: is_child_of for every ordered pair of paths of the universe
ChildOfLine ==
    PrintT(<<"CHILDOF", ToJson({[child |-> ModName(m), parent |-> ModName(p), is |-> IsPrefixOf(p, m)] :
                                    m \in AllPaths, p \in AllPaths})>>)
=============================================================================
