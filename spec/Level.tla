------------------------------- MODULE Level -------------------------------
(***************************************************************************)
(* C17 - level filtering follows the most specific module rule.            *)
(*                                                                         *)
(* Level A (the statement): a map  reg : Path -> Level | None  plus a      *)
(* default; MinFor(m) is the level registered for the longest registered   *)
(* path that is m or an ancestor of m at `::` boundaries.                  *)
(*                                                                         *)
(* Level B (the code, src/level.rs MinLevelPathMap): a trie whose nodes    *)
(* keep their children in a Vec sorted by segment, insertion at the        *)
(* position a binary search reports, lookup walking the segments of the    *)
(* module, remembering the deepest level seen and stopping at the first    *)
(* missing child.                                                          *)
(*                                                                         *)
(* Segments are integers; SegName[i] is the text and the integer order is  *)
(* the byte order of the texts (what Str's Ord gives the binary search).   *)
(***************************************************************************)
EXTENDS Naturals, Sequences, FiniteSets, TLC, Json

CONSTANTS
    SegName,      \* sequence of segment texts in byte order
    RegPaths,     \* paths that may be registered (sequences of segment indices)
    Modules,      \* event modules that are looked up
    Levels,       \* 1..4  (Debug < Info < Warn < Error)
    MaxOps,       \* bound on the number of registration operations
    Emit          \* TRUE: print one REPLAY line per transition

None == 0
LevelOrNone == Levels \cup {None}

VARIABLES
    reg,      \* level A: [RegPaths -> LevelOrNone]
    dflt,     \* level A: LevelOrNone
    kids,     \* level B: node (path) -> sequence of child segments, in Vec order
    nlvl,     \* level B: node (path) -> LevelOrNone
    nops,     \* number of operations so far
    hist      \* history: the operations, in order (hidden from the fingerprint by VIEW)

vars == <<reg, dflt, kids, nlvl, nops, hist>>
view == <<reg, dflt, kids, nlvl, nops>>

Prefixes(p) == {SubSeq(p, 1, n) : n \in 0..Len(p)}
Nodes == DOMAIN kids

IsPrefixOf(p, m) == Len(p) <= Len(m) /\ SubSeq(m, 1, Len(p)) = p

-----------------------------------------------------------------------------
(* Level A *)

Candidates(m) == {p \in RegPaths : reg[p] # None /\ IsPrefixOf(p, m)}

Longest(S) == CHOOSE p \in S : \A q \in S : Len(q) <= Len(p)

MinFor(m) ==
    IF Candidates(m) # {} THEN reg[Longest(Candidates(m))]
    ELSE dflt          \* None = accept everything

-----------------------------------------------------------------------------
(* Level B: the trie *)

\* std's binary search contract on a sorted, duplicate-free vector:
\* <<TRUE, idx>> when present, <<FALSE, insertion point>> otherwise.
BinSearch(s, key) ==
    IF \E i \in 1..Len(s) : s[i] = key
    THEN <<TRUE, CHOOSE i \in 1..Len(s) : s[i] = key>>
    ELSE <<FALSE, Cardinality({i \in 1..Len(s) : s[i] < key}) + 1>>

InsertAt(s, idx, x) == SubSeq(s, 1, idx - 1) \o <<x>> \o SubSeq(s, idx, Len(s))

\* min_level(path, lvl): walk/create the nodes for every prefix, then set the level.
RECURSIVE Walk(_, _, _, _)
Walk(k, l, path, i) ==
    IF i > Len(path) THEN <<k, l>>
    ELSE LET node == SubSeq(path, 1, i - 1)
             seg  == path[i]
             child == SubSeq(path, 1, i)
             bs   == BinSearch(k[node], seg)
         IN IF bs[1] THEN Walk(k, l, path, i + 1)
            ELSE Walk((child :> <<>>) @@ [k EXCEPT ![node] = InsertAt(k[node], bs[2], seg)],
                      (child :> None) @@ l, path, i + 1)

\* matches(): lookup of the deepest level along the module's segments.
RECURSIVE Look(_, _, _)
Look(m, i, best) ==
    IF i > Len(m) THEN best
    ELSE LET node == SubSeq(m, 1, i - 1)
             bs == BinSearch(kids[node], m[i])
         IN IF ~bs[1] THEN best
            ELSE LET child == SubSeq(m, 1, i)
                 IN Look(m, i + 1, IF nlvl[child] # None THEN nlvl[child] ELSE best)

TrieLookup(m) == Look(m, 1, nlvl[<<>>])

-----------------------------------------------------------------------------
Init ==
    /\ reg = [p \in RegPaths |-> None]
    /\ dflt = None
    /\ kids = (<<>> :> <<>>)
    /\ nlvl = (<<>> :> None)
    /\ nops = 0
    /\ hist = <<>>

Register(p, l) ==
    /\ nops < MaxOps
    /\ reg' = [reg EXCEPT ![p] = l]
    /\ LET w == Walk(kids, nlvl, p, 1)
       IN /\ kids' = w[1]
          /\ nlvl' = [w[2] EXCEPT ![p] = l]
    /\ nops' = nops + 1
    /\ hist' = Append(hist, [op |-> "reg", path |-> p, lvl |-> l])
    /\ UNCHANGED dflt

SetDefault(l) ==
    /\ nops < MaxOps
    /\ dflt' = l
    /\ nlvl' = [nlvl EXCEPT ![<<>>] = l]
    /\ nops' = nops + 1
    /\ hist' = Append(hist, [op |-> "dflt", path |-> <<>>, lvl |-> l])
    /\ UNCHANGED <<reg, kids>>

Next ==
    \/ \E p \in RegPaths, l \in Levels : Register(p, l)
    \/ \E l \in Levels : SetDefault(l)

Spec == Init /\ [][Next]_vars

-----------------------------------------------------------------------------
(* Properties *)

TypeOK ==
    /\ reg \in [RegPaths -> LevelOrNone]
    /\ dflt \in LevelOrNone
    /\ nops \in 0..MaxOps

\* the binary search relies on this
ChildrenSorted ==
    \A n \in Nodes : \A i, j \in 1..Len(kids[n]) : i < j => kids[n][i] < kids[n][j]

\* the code's lookup is the statement's lookup, for every module
TrieRefinesMap == \A m \in Modules : TrieLookup(m) = MinFor(m)

\* a registration changes the entry of that path only
RegisterLocal ==
    [][\A p \in RegPaths : reg'[p] # reg[p] =>
          \E l \in Levels : <<Register(p, l)>>_vars]_vars

\* Order independence follows from TrieRefinesMap: TrieLookup is a function of (reg, dflt).

-----------------------------------------------------------------------------
(* spec -> code: one REPLAY line per transition: the operations so far and the
   minimum level the statement predicts for every module afterwards. *)
ModName(m) == [i \in 1..Len(m) |-> SegName[m[i]]]
\* the history keeps segment numbers: TLC's on-disk state queue does not preserve non-ASCII
\* strings inside state variables, so the texts are only looked up when the line is printed
HistNamed(h) == [k \in 1..Len(h) |-> [op |-> h[k].op, path |-> ModName(h[k].path), lvl |-> h[k].lvl]]

EmitReplay ==
    Emit => PrintT(<<"REPLAY", ToJson([ops |-> HistNamed(hist'),
                 expect |-> {[mdl |-> ModName(m), min |-> MinFor(m)'] : m \in Modules}])>>)
=============================================================================
