------------------------------- MODULE MCText -------------------------------
(* Case generation for C15: the sets of texts are enumerated by TLC and every text is
   printed with the verdict of every acceptor of Text.tla (CASE lines); formatted values
   with the predicted text (FMT, FLAG, TPFMT, LVLFMT, KINDFMT lines).
   (This file is generated once from readable strings; S("ab") is written <<"a", "b">>.) *)
EXTENDS Text, Json

CONSTANTS Tier,      \* "quick" | "thorough"
          Emit       \* TRUE: print the cases
Quick == Tier = "quick"

\* one representative per character class
ShortAlpha == {"0", "1", "a", "F", "g", "-", ":", ".", "T", "Z", "+", " ", "\t", "\n", "é", "€", "😀", "_"}
ReplAlpha == ShortAlpha \cup {"9", "f", "A", "x", "t", "z", "3", "(", "s", "N"} \cup Wide
LevelGAlpha == {"d", "e", "b", "g", "u", "D", "3", " ", "\t", "\n", NBSP, "é"}
PathGAlpha == {"a", "é", "1", "_", ":", "-", "€"}
HexAlpha == HexSet \cup {"g", "G"}

TsBases == {
    <<"1", "9", "7", "0", "-", "0", "1", "-", "0", "1", "T", "0", "0", ":", "0", "0", ":", "0", "0", "Z">>,
    <<"2", "0", "2", "4", "-", "0", "2", "-", "2", "9", "T", "2", "3", ":", "5", "9", ":", "5", "9", ".", "9", "Z">>,
    <<"9", "9", "9", "9", "-", "1", "2", "-", "3", "1", "T", "2", "3", ":", "5", "9", ":", "5", "9", ".", "9", "9", "9", "9", "9", "9", "9", "9", "9", "Z">>,
    <<"2", "0", "0", "0", "-", "1", "0", "-", "1", "0", "T", "1", "0", ":", "1", "0", ":", "1", "0", ".", "1", "2", "3", "4", "5", "6", "Z">>,
    <<"1", "9", "9", "9", "-", "1", "2", "-", "3", "1", "T", "1", "2", ":", "3", "4", ":", "5", "6", ".", "0", "0", "0", "Z">>,
    <<"1", "9", "7", "0", "-", "0", "1", "-", "0", "1", "T", "0", "0", ":", "0", "0", ":", "0", "0", ".", "0", "0", "Z">>,
    <<"2", "0", "3", "8", "-", "0", "1", "-", "1", "9", "T", "0", "3", ":", "1", "4", ":", "0", "8", ".", "1", "2", "3", "4", "5", "6", "7", "8", "Z">> }
TidBases == {
    <<"4", "b", "f", "9", "2", "f", "3", "5", "7", "7", "b", "3", "4", "d", "a", "6", "a", "3", "c", "e", "9", "2", "9", "d", "0", "e", "0", "e", "4", "7", "3", "6">>,
    <<"0", "0", "0", "0", "0", "0", "0", "0", "0", "0", "0", "0", "0", "0", "0", "0", "0", "0", "0", "0", "0", "0", "0", "0", "0", "0", "0", "0", "0", "0", "0", "1">>,
    <<"F", "F", "F", "F", "F", "F", "F", "F", "F", "F", "F", "F", "F", "F", "F", "F", "F", "F", "F", "F", "F", "F", "F", "F", "F", "F", "F", "F", "F", "F", "F", "F">>,
    <<"8", "0", "0", "0", "0", "0", "0", "0", "0", "0", "0", "0", "0", "0", "0", "0", "0", "0", "0", "0", "0", "0", "0", "0", "0", "0", "0", "0", "0", "0", "0", "0">>,
    <<"0", "0", "0", "0", "0", "0", "0", "0", "0", "0", "0", "0", "0", "0", "0", "0", "f", "f", "f", "f", "f", "f", "f", "f", "f", "f", "f", "f", "f", "f", "f", "f">>,
    <<"0", "0", "0", "0", "0", "0", "0", "0", "0", "0", "0", "0", "0", "0", "0", "0", "8", "0", "0", "0", "0", "0", "0", "0", "0", "0", "0", "0", "0", "0", "0", "0">>,
    <<"0", "0", "0", "0", "0", "0", "0", "0", "0", "0", "0", "0", "0", "0", "0", "0", "0", "0", "0", "0", "0", "0", "0", "0", "0", "0", "0", "0", "0", "0", "0", "0">> }
SidBases == {
    <<"0", "0", "f", "0", "6", "7", "a", "a", "0", "b", "a", "9", "0", "2", "b", "7">>,
    <<"0", "0", "0", "0", "0", "0", "0", "0", "0", "0", "0", "0", "0", "0", "0", "1">>,
    <<"f", "f", "f", "f", "f", "f", "f", "f", "f", "f", "f", "f", "f", "f", "f", "f">>,
    <<"8", "0", "0", "0", "0", "0", "0", "0", "0", "0", "0", "0", "0", "0", "0", "0">>,
    <<"A", "B", "C", "D", "E", "F", "0", "1", "2", "3", "4", "5", "6", "7", "8", "9">>,
    <<"0", "0", "0", "0", "0", "0", "0", "0", "0", "0", "0", "0", "0", "0", "0", "0">> }
TpBases == {
    <<"0", "0", "-", "4", "b", "f", "9", "2", "f", "3", "5", "7", "7", "b", "3", "4", "d", "a", "6", "a", "3", "c", "e", "9", "2", "9", "d", "0", "e", "0", "e", "4", "7", "3", "6", "-", "0", "0", "f", "0", "6", "7", "a", "a", "0", "b", "a", "9", "0", "2", "b", "7", "-", "0", "1">>,
    <<"0", "0", "-", "0", "0", "0", "0", "0", "0", "0", "0", "0", "0", "0", "0", "0", "0", "0", "0", "0", "0", "0", "0", "0", "0", "0", "0", "0", "0", "0", "0", "0", "0", "0", "0", "-", "0", "0", "0", "0", "0", "0", "0", "0", "0", "0", "0", "0", "0", "0", "0", "0", "-", "0", "0">>,
    <<"0", "0", "-", "f", "f", "f", "f", "f", "f", "f", "f", "f", "f", "f", "f", "f", "f", "f", "f", "f", "f", "f", "f", "f", "f", "f", "f", "f", "f", "f", "f", "f", "f", "f", "f", "-", "f", "f", "f", "f", "f", "f", "f", "f", "f", "f", "f", "f", "f", "f", "f", "f", "-", "f", "f">>,
    <<"0", "0", "-", "0", "0", "0", "0", "0", "0", "0", "0", "0", "0", "0", "0", "0", "0", "0", "0", "0", "0", "0", "0", "0", "0", "0", "0", "0", "0", "0", "0", "0", "0", "0", "1", "-", "0", "0", "0", "0", "0", "0", "0", "0", "0", "0", "0", "0", "0", "0", "0", "0", "-", "a", "0">> }
KindBases == {<<"s", "p", "a", "n">>, <<"m", "e", "t", "r", "i", "c">>, <<"S", "P", "A", "N">>, <<"M", "e", "t", "r", "i", "c">>, <<" ", "s", "p", "a", "n", " ">>, <<"\t", "m", "e", "t", "r", "i", "c", " ">>}
PathBases == {<<"a", ":", ":", "b">>, <<"a", ":", ":", "b", ":", ":", "c">>, <<"é", "1", ":", ":", "_", "b">>, <<"a", "_", "1">>, <<"e", "m", "i", "t", ":", ":", "l", "e", "v", "e", "l">>}
LevelBases == {<<"d", "e", "b", "u", "g">>, <<"i", "n", "f", "o">>, <<"w", "a", "r", "n">>, <<"e", "r", "r", "o", "r">>, <<"W", "A", "R", "N", "I", "N", "G">>, <<"I", "n", "f", "o", "r", "m", "a", "t", "i", "o", "n">>, <<"d", "b", "g">>, <<"W", "R", "N">>, <<" ", "i", "n", "f", "o", "(", "3", ")", " ">>}

\* (no UNION over large families: TLC's union is quadratic)
NearMissBases ==
    (IF Quick THEN {t \in TsBases : Len(t) \in {20, 22, 30}} ELSE TsBases)
    \cup (IF Quick THEN {t \in TidBases : t[1] \in {"4", "F"}} ELSE TidBases)
    \cup (IF Quick THEN {t \in SidBases : t[3] \in {"f", "C"}} ELSE SidBases)
    \cup (IF Quick THEN {t \in TpBases : t[54] \in {"0"}} ELSE TpBases)
    \cup KindBases \cup PathBases \cup LevelBases
AllBases == TsBases \cup TidBases \cup SidBases \cup TpBases
FlagBases == {<<"0", "0">>, <<"f", "f">>, <<"0", "1">>, <<"A", "9">>}
\* the fixed-width grammars: byte-length-preserving multi-byte substitutions (WideMutants)
FixedWidthBases ==
    (IF Quick THEN {t \in TsBases : Len(t) \in {20, 22, 30}} ELSE TsBases)
    \cup (IF Quick THEN {t \in TidBases : t[1] \in {"4", "0"} /\ t[32] \in {"6", "1"}} ELSE TidBases)
    \cup (IF Quick THEN {t \in SidBases : t[3] \in {"f", "0"} /\ t[16] \in {"7", "1"}} ELSE SidBases)
    \cup (IF Quick THEN {t \in TpBases : t[54] \in {"0"}} ELSE TpBases)
    \cup FlagBases

\* level words: every prefix, in several cases, with suffixes and padding
Lo(c) == IF c \in UpperSet THEN Lower[CHOOSE i \in 1..26 : UpperS[i] = c] ELSE c
Cased(w, mode) ==
    [i \in 1..Len(w) |->
        IF mode = 1 THEN w[i]
        ELSE IF mode = 2 THEN Lo(w[i])
        ELSE IF mode = 3 THEN (IF i = 1 THEN w[i] ELSE Lo(w[i]))
        ELSE (IF i % 2 = 0 THEN w[i] ELSE Lo(w[i]))]
LevelWordSet == {INFORMATION, DEBUG, DBG, ERROR, WARNING, WRN}
LevelSuffixes == {<<>>, <<"3">>, <<"(", "4", ")">>, <<" ", "x">>, <<"x">>, <<"é">>, <<"\t", "x">>, <<"_">>, <<"s">>}
LevelPads == {<< <<>>, <<>> >>, << <<" ">>, <<" ">> >>, << <<"\t">>, <<>> >>}
LevelTexts ==
    {p[1] \o Cased(SubSeq(w, 1, MinN(n, Len(w))), mode) \o sfx \o p[2] :
        w \in LevelWordSet, n \in 1..11, mode \in 1..4, sfx \in LevelSuffixes, p \in LevelPads}
\* white space of every class (LevelParse.tla WsClasses), independently before and after a level / kind word
WsSides == WsClasses \X WsClasses
WsLevelTexts ==
    {p[1] \o Cased(w, mode) \o sfx \o p[2] :
        w \in LevelWordSet, mode \in {1, 2}, sfx \in {<<>>, <<"(", "4", ")">>, <<" ", "x">>}, p \in WsSides}
WsKindTexts == {p[1] \o k \o p[2] : k \in {b \in KindBases : Len(b) \in {4, 6} /\ b[1] # " "}, p \in WsSides}
\* white space inside a word is not trimmed: of the classes only the plain space ends a level match
WsInside == {w \o c \o <<"x">> : w \in {<<"w", "a", "r", "n">>, <<"s", "p", "a", "n">>}, c \in WsClasses \ {<<>>}}
ASSUME \A t \in WsLevelTexts : LevelVerdict(t).v = "a"
ASSUME \A t \in WsKindTexts : KindVerdict(t).v = "a"
ASSUME \A t \in WsInside : KindVerdict(t).v = "r" /\ (LevelVerdict(t).v = "a" <=> (t[1] = "w" /\ t[5] = " "))


\* ---- formatted values
BoundaryYears == {1970, 1971, 1972, 1999, 2000, 2001, 2038, 2100, 2399, 2400, 9999}
QuickDays == UNION {{DaysFromCivil(y, m, 1), DaysFromCivil(y, m, DaysInMonth(y, m))} : y \in BoundaryYears, m \in 1..12}
TimeOfDay == {<<0, 0>>, <<86399, 999999999>>, <<45296, 123456789>>, <<3661, 1000>>, <<1, 100000000>>}
Precisions == 0..9 \cup {12}
QuickInstants == {<<[d |-> d, s |-> tod[1], n |-> tod[2]], p>> : d \in QuickDays, tod \in TimeOfDay, p \in Precisions}
FmtLine(x) ==
    PrintT(<<"FMT", ToJson([v |-> x[1], p |-> x[2], text |-> FormatTs(x[1], x[2]),
                            back |-> TruncTs(x[1], x[2]), parts |-> PartsOf(x[1])])>>)

IdPool32 == {t \in TidBases : ~AllZero(t, 1, 32) /\ ~\E i \in 1..32 : IsUpperHex(t[i])} \cup {NoneId}
IdPool16 == {t \in SidBases : ~AllZero(t, 1, 16) /\ ~\E i \in 1..16 : IsUpperHex(t[i])} \cup {NoneId}
Zeros(n) == [i \in 1..n |-> "0"]
TpFmtLine(tid, sid, fl) ==
    PrintT(<<"TPFMT", ToJson([tid |-> tid, sid |-> sid, fl |-> fl,
        text |-> FormatTp(IF tid = NoneId THEN Zeros(32) ELSE tid, IF sid = NoneId THEN Zeros(16) ELSE sid, fl)])>>)

\* ---- sanity of the specification's own definitions
ASSUME DaysFromCivil(1970, 1, 1) = 0 /\ DaysFromCivil(2000, 3, 1) = 11017 /\ DaysFromCivil(9999, 12, 31) = MaxDay
ASSUME \A d \in QuickDays : LET c == CivilFromDays(d) IN DaysFromCivil(c.y, c.m, c.d) = d
ASSUME \A y \in (IF Quick THEN BoundaryYears ELSE 1970..9998), m \in 1..12 :
    DaysFromCivil(IF m = 12 THEN y + 1 ELSE y, IF m = 12 THEN 1 ELSE m + 1, 1) - DaysFromCivil(y, m, 1) = DaysInMonth(y, m)
\* the formatted forms are accepted with the value they were formatted from (spec-level round trip)
ASSUME \A x \in QuickInstants : TsVerdict(FormatTs(x[1], x[2])) = Accept(TruncTs(x[1], x[2]))
ASSUME \A l \in 1..4 : LevelVerdict(LevelText[l]) = Accept(l)
ASSUME \A k \in 1..2 : KindVerdict(KindText[k]) = Accept(k)
ASSUME \A b \in 0..255 : FlagsVerdict(Hex2(b)) = Accept(b)
\* the bases are what they are meant to be
ASSUME \A t \in TsBases : TsVerdict(t).v = "a"
ASSUME \A t \in TpBases : TpVerdict(t).v = "a"
ASSUME \A t \in PathBases : IsPath(t)

ASSUME PrintT(<<"FORMS", ToJson([casts |-> CastForms, channels |-> ValueChannels, typed |-> TypedCastForms, dontcare |-> CastDontCare,
                                flagforms |-> FlagForms,
                                errors |-> [ch \in ErrorChannels |-> ErrorVia(ch)]])>>)
\* ---- spec -> code
CaseLine(t) == PrintT(<<"CASE", ToJson(Verdicts(t))>>)
ASSUME Emit => \A k \in 0..(IF Quick THEN 3 ELSE 4) : \A t \in [1..k -> ShortAlpha] : CaseLine(t)
ASSUME Emit => \A k \in 1..(IF Quick THEN 4 ELSE 5) : \A t \in [1..k -> LevelGAlpha] : CaseLine(t)
ASSUME Emit => \A k \in 1..(IF Quick THEN 5 ELSE 6) : \A t \in [1..k -> PathGAlpha] : CaseLine(t)
ASSUME Emit => \A t \in [1..2 -> HexAlpha] : CaseLine(t)
ASSUME Emit => \A b \in NearMissBases : \A t \in Mutants(b, ReplAlpha) : CaseLine(t)
ASSUME Emit => \A b \in FixedWidthBases : \A t \in WideMutants(b, Wide) : CaseLine(t)
ASSUME Emit => \A c \in Wide : CaseLine(<<c>>) /\ CaseLine(<<c, c>>) /\ CaseLine(<<"a", c>>) /\ CaseLine(<<"a", ":", ":", c>>)
ASSUME Emit => \A t \in AllBases \cup LevelTexts : CaseLine(t)
ASSUME Emit => \A t \in WsLevelTexts \cup WsKindTexts \cup WsInside : CaseLine(t)
\* every byte-length-preserving substitution is rejected by every fixed-width grammar
ASSUME \A b \in FixedWidthBases : \A t \in WideMutants(b, Wide) :
    LET v == Verdicts(t) IN v.ts.v = "r" /\ v.tid.v = "r" /\ v.sid.v = "r" /\ v.fl.v = "r" /\ v.tp.v = "r"
ASSUME Emit => \A x \in QuickInstants : FmtLine(x)
\* thorough: the first and the last nanosecond of every month of every year
ASSUME (Emit /\ ~Quick) => \A y \in 1970..9999, m \in 1..12 :
    /\ FmtLine(<<[d |-> DaysFromCivil(y, m, 1), s |-> 0, n |-> 0], (y + m) % 10>>)
    /\ FmtLine(<<[d |-> DaysFromCivil(y, m, DaysInMonth(y, m)), s |-> 86399, n |-> 999999999], (y + 7 * m) % 10>>)
ASSUME Emit => \A b \in 0..255 : PrintT(<<"FLAG", ToJson([b |-> b, text |-> Hex2(b), forms |-> [f \in FlagForms |-> FlagOperands(f, b)]])>>)
ASSUME Emit => \A tid \in IdPool32, sid \in IdPool16, fl \in {0, 1, 2, 128, 255} : TpFmtLine(tid, sid, fl)
ASSUME Emit => \A l \in 1..4 : PrintT(<<"LVLFMT", ToJson([val |-> l, text |-> LevelText[l]])>>)
ASSUME Emit => \A k \in 1..2 : PrintT(<<"KINDFMT", ToJson([val |-> k, text |-> KindText[k]])>>)
=============================================================================
