\* Batcher q2: s1 = try_send,send; s2 = blocking send (timeout 0); f1 = blocking flush (timeout 0); f2 = panicking flush callback; Cap 2, MaxRetry 10 (hard-coded by bounded()), <= 1 processor faults, TRUE remainders, receiver kill FALSE; idle spinning cut at 3 ms. Exhaustive.
SPECIFICATION Spec
CONSTANTS
    SenderOps <- Q2_SenderOps
    FlusherOps <- Q2_FlusherOps
    Cap = 2
    MaxRetry = 10
    MaxFail = 1
    AnyRemainder = TRUE
    NonEmptyRem = FALSE
    OutcomeSet = {"ok", "fail", "retry", "panic", "panicFut"}
    AllowKill = FALSE
    MaxIdleDelay = 3
    Emit = TRUE
VIEW view
CONSTRAINT IdleBound
INVARIANTS TypeOK Bounded Partition StatusConsistent TruncCounted FlushMeansDone FlushRetTruthful RetryBounded BackoffBounded CallbackOnce SendNeverWaits
ACTION_CONSTRAINT EmitReplay
CHECK_DEADLOCK FALSE
