\* C03 quick (wrapper + empty sets): 1 thread; instances default(), TraceparentCtxt<ThreadLocalCtxt> (own storage), emit::Empty as a Ctxt; property maps {a:1},{a:2,b:1} and the EMPTY map (also as emit::Empty itself); all kinds and forms; <= 2 frames, 1 task, nesting <= 2, panics, discards; every transition replayed.
SPECIFICATION Spec
CONSTANTS
    NThreads = 1
    StoreOf <- MC_StoreW
    InstKind <- MC_KindW
    NKeys = 2
    PropChoices <- MC_Props2E
    DupChoices <- MC_NoDups
    Kinds <- MC_AllKinds
    Forms <- MC_AllForms
    MaxFrames = 2
    MaxTasks = 1
    MaxDepth = 2
    Panics = TRUE
    Discards = TRUE
    Emit = TRUE
VIEW cview
INVARIANTS InnermostWins NoTrace StackOK
PROPERTIES ExitRestores Isolation
ACTION_CONSTRAINT EmitReplay
CHECK_DEADLOCK FALSE
