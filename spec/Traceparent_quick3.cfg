\* C18 quick (hand-off): TraceparentFilter with sampler AND in_sampled_trace_filter(true); 2 threads, <= 2 spans, <= 3 frames, nesting <= 2;
\* Frame::current and span frames created on one thread and entered on the other, events everywhere; every transition replayed.
SPECIFICATION Spec
CONSTANTS
    NThreads = 2
    MaxSpans = 2
    MaxFrames = 3
    MaxTasks = 0
    MaxDepth = 2
    Headers <- MC_NoHeaders
    InSampled = TRUE
    SnapshotOnPush = TRUE
    WithLazy = FALSE
    WithCurrent = TRUE
    FrameKinds <- MC_NoKinds
    Sampler = TRUE
    CtxForms <- MC_Forms
    Panics = TRUE
    Emit = TRUE
VIEW tview
INVARIANTS SamplerOncePerTrace DecisionGoverns UnsampledSilent SampledConsistent NoTraceNoParent FrameCarries
PROPERTIES Restored
ACTION_CONSTRAINT EmitReplay
CHECK_DEADLOCK FALSE
