------------------------------- MODULE Setup -------------------------------
(***************************************************************************)
(* X03 - the algebra of the `Setup` builder (src/setup.rs).                *)
(*                                                                         *)
(* A configuration is a sequence of builder calls                          *)
(*   emit_to d | and_emit_to d | map_emitter m                             *)
(*   | emit_when p | and_emit_when p                                       *)
(*   | with_ctxt c | map_ctxt plus | with_clock t | with_rng r             *)
(* followed by init_slot on a fresh slot / init_runtime.                   *)
(*                                                                         *)
(* Level A (what the calls denote, a fold over the call sequence):         *)
(*   dests   the destinations, each with the guards wrapped around it:     *)
(*           emit_to replaces all of them (last one wins), and_emit_to     *)
(*           adds one, map_emitter wraps the ones present at that moment   *)
(*           (when p: guard p on each; drop: none left; id: no change)     *)
(*   filt    the set of predicates that must all hold: emit_when replaces, *)
(*           and_emit_when adds (conjunction)                              *)
(*   cx      the ambient context: with_ctxt replaces (and forgets earlier  *)
(*           wrappers), map_ctxt wraps the current one                     *)
(*   clk, rng   the last one given, else the default                       *)
(* An event emitted through the runtime is completed (ambient properties   *)
(* of cx, an extent from clk when it has none), must pass filt, and then   *)
(* reaches exactly the destinations whose guards hold, once each.  Emitted *)
(* directly through the runtime's emitter it skips completion and filt but *)
(* not the guards.                                                         *)
(*                                                                         *)
(* Level B (the code): the builder's fields as the values the calls build  *)
(* (`And`, wrappers, boxes) and emit_core::emit over them.                 *)
(***************************************************************************)
EXTENDS Naturals, Sequences, FiniteSets, TLC, Json

CONSTANTS
    Dests,       \* recording destinations, e.g. {1, 2, 3}
    Preds,       \* predicates used as filters
    WrapPreds,   \* predicates used by map_emitter(when p)
    Ctxts,       \* fixed contexts c: ambient property ctx = c
    Clocks,      \* readings of configured clocks; 0 = a clock without a reading
    Rngs,        \* configured generators (they answer the constant r)
    Events,      \* [a, b : BOOLEAN, ext : 0 (none) or an instant]
    SysT,        \* stands for the reading of the default (system) clock
    MaxCalls,
    Emit

Calls ==
    {[c |-> "emit_to", d |-> d] : d \in Dests}
    \cup {[c |-> "and_emit_to", d |-> d] : d \in Dests}
    \cup {[c |-> "map_emitter", m |-> "when", p |-> p] : p \in WrapPreds}
    \cup {[c |-> "map_emitter", m |-> m, p |-> "-"] : m \in {"drop", "id"}}
    \cup {[c |-> "emit_when", p |-> p] : p \in Preds}
    \cup {[c |-> "and_emit_when", p |-> p] : p \in Preds}
    \cup {[c |-> "with_ctxt", x |-> x] : x \in Ctxts}
    \cup {[c |-> "map_ctxt", m |-> "plus"]}
    \cup {[c |-> "with_clock", t |-> t] : t \in Clocks}
    \cup {[c |-> "with_rng", r |-> r] : r \in Rngs}

VARIABLES
    dests, filt, cx,          \* level A
    em, fl, cxb,              \* level B
    clk, rng,                 \* both levels: a plain field overwritten by with_clock / with_rng
    n, hist
vars == <<dests, filt, cx, em, fl, cxb, clk, rng, n, hist>>
view == <<dests, filt, cx, em, fl, cxb, clk, rng, n>>

-----------------------------------------------------------------------------
(* events as the pipeline sees them *)
Extra == [k |-> "extra", v |-> 1]
CtxProp(c) == [k |-> "ctx", v |-> c]

PredHolds(p, e) ==
    CASE p = "has_a" -> e.a
      [] p = "has_b" -> e.b
      [] p = "ctx1" -> \E i \in 1..Len(e.amb) : e.amb[i] = CtxProp(1)     \* sees the ambient properties
      [] p = "extra" -> \E i \in 1..Len(e.amb) : e.amb[i] = Extra
      [] p = "timed" -> e.ext # 0                                         \* sees the assigned extent

Completed(e, amb, clock) == [a |-> e.a, b |-> e.b, ext |-> IF e.ext # 0 THEN e.ext ELSE clock, amb |-> amb]
Raw(e) == [a |-> e.a, b |-> e.b, ext |-> e.ext, amb |-> <<>>]

SelSeq(s, T(_)) == LET F[i \in 0..Len(s)] == IF i = 0 THEN <<>> ELSE IF T(s[i]) THEN Append(F[i - 1], s[i]) ELSE F[i - 1]
                   IN F[Len(s)]

-----------------------------------------------------------------------------
(* Level A *)
AmbientA == [i \in 1..cx.plus |-> Extra] \o (IF cx.base = 0 THEN <<>> ELSE <<CtxProp(cx.base)>>)

SeenA(via, e) == IF via = "rt" THEN Completed(e, AmbientA, clk) ELSE Raw(e)

ReceiveA(via, e) ==
    LET f == SeenA(via, e)
        pass == via = "direct" \/ \A p \in filt : PredHolds(p, f)
        open == SelSeq(dests, LAMBDA x : \A p \in x.g : PredHolds(p, f))
    IN IF pass THEN [i \in 1..Len(open) |-> open[i].d] ELSE <<>>

(* Level B *)
EmptyT == [k |-> "empty"]
RECURSIVE AmbientB(_)
AmbientB(t) ==
    CASE t.k = "default" -> <<>>                                  \* nothing was pushed
      [] t.k = "fixed" -> <<CtxProp(t.c)>>
      [] t.k = "plus" -> <<Extra>> \o AmbientB(t.t)

RECURSIVE MatchB(_, _)
MatchB(t, f) ==
    CASE t.k = "empty" -> TRUE                                    \* Filter for Empty
      [] t.k = "leaf" -> PredHolds(t.p, f)
      [] t.k = "and" -> MatchB(t.l, f) /\ MatchB(t.r, f)          \* And<T, U>: left && right

RECURSIVE DeliverB(_, _)
DeliverB(t, f) ==
    CASE t.k = "empty" -> <<>>
      [] t.k = "leaf" -> <<t.d>>
      [] t.k = "and" -> DeliverB(t.l, f) \o DeliverB(t.r, f)      \* And<T, U>: left then right
      [] t.k = "wrap" -> IF PredHolds(t.p, f) THEN DeliverB(t.t, f) ELSE <<>>   \* wrapping::from_filter
      [] t.k = "box" -> DeliverB(t.t, f)

SeenB(via, e) == IF via = "rt" THEN Completed(e, AmbientB(cxb), clk) ELSE Raw(e)

\* emit_core::emit: with_current, extent.or_else(clock.now()), if filter.matches { emitter.emit }
ReceiveB(via, e) ==
    LET f == SeenB(via, e)
    IN IF via = "direct" THEN DeliverB(em, f)
       ELSE IF MatchB(fl, f) THEN DeliverB(em, f) ELSE <<>>

-----------------------------------------------------------------------------
Init ==
    /\ dests = <<>> /\ filt = {} /\ cx = [base |-> 0, plus |-> 0]
    /\ em = EmptyT /\ fl = EmptyT /\ cxb = [k |-> "default"]
    /\ clk = SysT /\ rng = 0
    /\ n = 0 /\ hist = <<>>

Guard(x, p) == [d |-> x.d, g |-> x.g \cup {p}]

Call(c) ==
    /\ n < MaxCalls
    /\ n' = n + 1
    /\ hist' = Append(hist, c)
    /\ CASE c.c = "emit_to" ->
              /\ dests' = <<[d |-> c.d, g |-> {}]>>
              /\ em' = [k |-> "leaf", d |-> c.d]                                     \* emitter,
              /\ UNCHANGED <<filt, cx, fl, cxb, clk, rng>>
         [] c.c = "and_emit_to" ->
              /\ dests' = Append(dests, [d |-> c.d, g |-> {}])
              /\ em' = [k |-> "and", l |-> em, r |-> [k |-> "leaf", d |-> c.d]]      \* self.emitter.and_to(emitter)
              /\ UNCHANGED <<filt, cx, fl, cxb, clk, rng>>
         [] c.c = "map_emitter" ->
              /\ dests' = CASE c.m = "when" -> [i \in 1..Len(dests) |-> Guard(dests[i], c.p)]
                            [] c.m = "drop" -> <<>>
                            [] c.m = "id" -> dests
              /\ em' = CASE c.m = "when" -> [k |-> "wrap", p |-> c.p, t |-> em]      \* map(self.emitter)
                         [] c.m = "drop" -> EmptyT
                         [] c.m = "id" -> [k |-> "box", t |-> em]
              /\ UNCHANGED <<filt, cx, fl, cxb, clk, rng>>
         [] c.c = "emit_when" ->
              /\ filt' = {c.p}
              /\ fl' = [k |-> "leaf", p |-> c.p]                                     \* filter,
              /\ UNCHANGED <<dests, cx, em, cxb, clk, rng>>
         [] c.c = "and_emit_when" ->
              /\ filt' = filt \cup {c.p}
              /\ fl' = [k |-> "and", l |-> fl, r |-> [k |-> "leaf", p |-> c.p]]      \* self.filter.and_when(filter)
              /\ UNCHANGED <<dests, cx, em, cxb, clk, rng>>
         [] c.c = "with_ctxt" ->
              /\ cx' = [base |-> c.x, plus |-> 0]
              /\ cxb' = [k |-> "fixed", c |-> c.x]
              /\ UNCHANGED <<dests, filt, em, fl, clk, rng>>
         [] c.c = "map_ctxt" ->
              /\ cx' = [cx EXCEPT !.plus = @ + 1]
              /\ cxb' = [k |-> "plus", t |-> cxb]                                    \* map(self.ctxt)
              /\ UNCHANGED <<dests, filt, em, fl, clk, rng>>
         [] c.c = "with_clock" ->
              /\ clk' = c.t
              /\ UNCHANGED <<dests, filt, cx, em, fl, cxb, rng>>
         [] c.c = "with_rng" ->
              /\ rng' = c.r
              /\ UNCHANGED <<dests, filt, cx, em, fl, cxb, clk>>

Next == \E c \in Calls : Call(c)
Spec == Init /\ [][Next]_vars

-----------------------------------------------------------------------------
(* Properties *)
Vias == {"rt", "direct"}

\* the built runtime delivers what the calls denote
BuilderRefinesAlgebra ==
    \A e \in Events, via \in Vias :
        /\ ReceiveB(via, e) = ReceiveA(via, e)
        /\ SeenB(via, e) = SeenA(via, e)

\* no destination receives an event twice unless it was added twice
OncePerRegistration ==
    \A e \in Events, via \in Vias, d \in Dests :
        Cardinality({i \in 1..Len(ReceiveB(via, e)) : ReceiveB(via, e)[i] = d})
            <= Cardinality({i \in 1..Len(dests) : dests[i].d = d})

\* the runtime filter never lets through what a direct emit would not deliver
FilterOnlyRemoves ==
    \A e \in Events : ReceiveB("rt", e) # <<>> =>
        \A p \in filt : PredHolds(p, SeenA("rt", e))

\* the last emit_to wins: right after it exactly that destination is configured
LastEmitToWins ==
    [][\A d \in Dests : <<Call([c |-> "emit_to", d |-> d])>>_vars => dests' = <<[d |-> d, g |-> {}]>>]_vars

EvJson(e) == [a |-> e.a, b |-> e.b, ext |-> e.ext]
EmitReplay ==
    Emit => PrintT(<<"REPLAY", ToJson([calls |-> hist', rng |-> rng', clk |-> clk',
        expect |-> {[ev |-> EvJson(e), via |-> via, dests |-> ReceiveA(via, e)', amb |-> SeenA(via, e).amb',
                     ext |-> SeenA(via, e).ext'] : e \in Events, via \in Vias}])>>)
=============================================================================
