\* C05 long sequences: random behaviours (TLC -simulate) of the thorough configuration,
\* depth 40; every step is replayed on the real guard.
SPECIFICATION Spec
CONSTANTS
    Mdls = {"m1", "m2"}
    Names = {"n1", "n2"}
    PropVals = {1, 2}
    NewComps = {"rec1", "dflt", "dfltl", "dfltp", "dfltL"}
    WithComps = {"rec2", "dfltl", "dfltL", "recRef", "fromE", "empty"}
    CwComps = {"rec3", "dflt", "dfltp", "dfltL", "ok", "okD", "err", "errD", "errM", "errMD", "recRef", "recSS", "fromE", "empty"}
    Scripts <- MC_ScriptsThorough
    Forms = {"none", "plain", "setup", "result", "result_o", "result_e", "resultM", "resultM_m", "guard", "newspan"}
    Frames = {"in", "out"}
    Carriers = {"fn", "async_fn", "block"}
    MaxLen = 0
    F2Bug = FALSE
    Emit = TRUE
VIEW view
INVARIANTS TypeOK AtMostOnce ExactlyOnceIffEnabledStarted EnabledIsFilterVerdict
    ReturnValueTruthful ExtentIsStartToEnd CarriesLatestData PanicAddsErrAndLevel
    RefinesStatement LiveGuardWhole SetupBracketsSpan
PROPERTY ProbesAgree
ACTION_CONSTRAINT EmitReplay
CHECK_DEADLOCK FALSE
