\* C10 thorough (b): max_files 3, max size {8, 1000}, reuse on/off; <= 3 submitted batches of <= 2 events, <= 5 on_batch
\* calls, 1 injected fault + 1 crash at any call boundary + 1 clean restart; clock same/next period.
SPECIFICATION Spec
CONSTANTS
    EvSize <- MC_EvSize
    MaxFilesSet = {3}
    MaxSizeSet = {8, 1000}
    ReuseSet = {TRUE, FALSE}
    NumEvents = 6
    MaxEv = 2
    MaxBatches = 3
    MaxCalls = 5
    MaxFaults = 1
    MaxCrashes = 1
    MaxReopens = 1
    MaxFmtFail = 0
    FmtFails = {}
    SepForms = {"nl"}
    WriterEnds = {"sep"}
    Ticks = {"same", "next"}
    RetryTicks = {"same"}
    Phantoms = {0}
    RidDirs = {"up"}
    MaxPeriod = 3
    MaxMs = 2
    Emit = TRUE
VIEW view
INVARIANTS Durable RecordsWellFormed RetryIsWhole AckOnlyAfterSync NoGarbage
    OneFilePerBatch RollOnlyWhen MustRoll NameIs NewestFirst Retained OldestFirst NoPanic OwnSetOnly
    EnvOk ActiveIsLastGood
ACTION_CONSTRAINT EmitReplay
CHECK_DEADLOCK FALSE
