----------------------------- MODULE HookTrace -----------------------------
(***************************************************************************)
(* The repository's own tests, a stronger oracle (code -> spec).           *)
(*                                                                         *)
(* emit_batcher, emit_file and emit_otlp are built with the verification   *)
(* cfg and their UNMODIFIED test suites are run with                       *)
(* EMIT_BATCHER_VERIF_TRACE=<file>: every critical section of every        *)
(* channel those tests create appends one line with the lock-held          *)
(* snapshot.  This module checks that each channel's recorded state        *)
(* evolves exactly by the rules of Batcher.tla's lock-protected actions    *)
(* (Send, TrySend, WhenEmpty, WhenFlushed, RecvTake, the receiver's        *)
(* attempts) - whatever interleaving the OS produced in those tests.       *)
(***************************************************************************)
EXTENDS Naturals, Sequences, FiniteSets, TLC, Json, IOUtils

Rec == ndJsonDeserialize(IOEnv.TRACE)

VARIABLES l, ch      \* position; function channel key -> its state
vars == <<l, ch>>

E == Rec[l]
Key == <<E.pid, E.chan>>
Fresh == [pending |-> 0, open |-> TRUE, inb |-> FALSE, nf |-> 0, nt |-> 0,
          taken |-> 0, rem |-> 0, curNf |-> 0, phase |-> "idle", exited |-> FALSE, sd |-> FALSE, rd |-> FALSE]
St == IF Key \in DOMAIN ch THEN ch[Key] ELSE Fresh
Set(s) == ch' = (Key :> s) @@ ch
IsEv(k) == l <= Len(Rec) /\ E.kind = k /\ l' = l + 1
B(x) == x = 1

\* the open flag only ever goes from true to false
OpenOK == E.open => St.open

Send ==
    /\ IsEv("send")
    /\ LET p1 == IF B(E.a) THEN 0 ELSE St.pending IN
       /\ E.pending = p1 + E.b
       /\ B(E.a) => St.pending > 0            \* only a non-empty queue is truncated
       /\ B(E.b) <=> E.open                   \* pushed iff open
    /\ OpenOK /\ E.inb = St.inb /\ E.nf = St.nf /\ E.nt = St.nt
    /\ Set([St EXCEPT !.pending = E.pending, !.open = E.open])

TrySend ==
    /\ IsEv("try_send")
    /\ \/ E.a = 0 /\ E.open /\ E.pending = St.pending + 1
       \/ E.a = 1 /\ E.open /\ E.pending = St.pending /\ St.pending > 0
       \/ E.a = 2 /\ ~E.open /\ E.pending = St.pending
    /\ OpenOK /\ E.inb = St.inb /\ E.nf = St.nf /\ E.nt = St.nt
    /\ Set([St EXCEPT !.pending = E.pending, !.open = E.open])

WhenFlushed ==
    /\ IsEv("when_flushed")
    /\ B(E.a) <=> (~St.inb /\ (St.pending = 0 \/ ~E.open))
    /\ E.nf = St.nf + (IF B(E.a) THEN 0 ELSE 1)
    /\ OpenOK /\ E.pending = St.pending /\ E.inb = St.inb /\ E.nt = St.nt
    /\ Set([St EXCEPT !.nf = E.nf, !.open = E.open])

WhenEmpty ==
    /\ IsEv("when_empty")
    /\ B(E.a) <=> St.pending = 0
    /\ E.nt = St.nt + (IF B(E.a) THEN 0 ELSE 1)
    /\ OpenOK /\ E.pending = St.pending /\ E.inb = St.inb /\ E.nf = St.nf
    /\ Set([St EXCEPT !.nt = E.nt, !.open = E.open])

\* the snapshot is taken just before the swap
Take ==
    /\ IsEv("take")
    /\ St.phase = "idle" /\ ~St.exited
    /\ E.pending = St.pending /\ E.pending > 0 /\ E.inb
    /\ OpenOK /\ E.nf = St.nf /\ E.nt = St.nt
    /\ Set([St EXCEPT !.pending = 0, !.nf = 0, !.nt = 0, !.inb = TRUE, !.open = E.open,
                      !.taken = E.pending, !.curNf = E.nf, !.phase = "taken"])

TakeEmpty ==
    /\ IsEv("take_empty")
    /\ St.phase = "idle" /\ ~St.exited
    /\ E.pending = 0 /\ St.pending = 0 /\ ~E.inb
    /\ OpenOK /\ E.nf = St.nf /\ E.nt = St.nt
    /\ Set([St EXCEPT !.nf = 0, !.nt = 0, !.inb = FALSE, !.open = E.open])

Attempt ==
    /\ IsEv("attempt")
    /\ \/ St.phase = "taken" /\ E.a = St.taken
       \/ St.phase = "retry" /\ E.a = St.rem
    /\ Set([St EXCEPT !.phase = "inflight"])

AttemptEnd ==
    /\ l <= Len(Rec) /\ E.kind \in {"attempt_ok", "attempt_failed", "attempt_panicked"} /\ l' = l + 1
    /\ St.phase = "inflight"
    /\ Set([St EXCEPT !.phase = "attempted", !.rem = IF E.kind = "attempt_failed" /\ B(E.a) THEN E.b ELSE 0])

\* after a failed attempt either another attempt (with the remainder) or the end of the batch
Retry ==
    /\ IsEv("attempt") /\ St.phase = "attempted" /\ St.rem > 0 /\ E.a = St.rem
    /\ Set([St EXCEPT !.phase = "inflight"])

BatchEnd ==
    /\ IsEv("batch_end")
    /\ St.phase = "attempted"
    /\ E.a = St.curNf                  \* the watchers notified are those taken with the batch
    /\ Set([St EXCEPT !.phase = "idle", !.rem = 0])

ExecReturn ==
    /\ IsEv("exec_return")
    /\ St.phase = "idle" /\ ~St.open /\ St.pending = 0
    /\ Set([St EXCEPT !.exited = TRUE])

DropEnd ==
    /\ l <= Len(Rec) /\ E.kind \in {"drop_sender_end", "drop_receiver_end"} /\ l' = l + 1
    \* The channel key is the address of the shared state.  Once BOTH handles have finished dropping (a Sender is
    \* not Clone, the drop hooks fire before the Arc field is released) the allocation is freed and a later channel
    \* of the same process may get the same address: the key is retired, the next event under it starts afresh.
    \* (Seen as an intermittent false alarm: a try_send with pending = 1 "on" a channel that had already exited.)
    /\ LET s == [St EXCEPT !.open = FALSE, !.sd = @ \/ E.kind = "drop_sender_end", !.rd = @ \/ E.kind = "drop_receiver_end"]
       IN IF s.sd /\ s.rd THEN Set(Fresh) ELSE Set(s)

\* events that carry no state of a channel
Other ==
    /\ l <= Len(Rec) /\ E.kind \in {"drop_sender_begin", "drop_receiver_begin", "trigger_wait"} /\ l' = l + 1
    /\ UNCHANGED ch

Init == l = 1 /\ ch = <<>>
Next == Send \/ TrySend \/ WhenFlushed \/ WhenEmpty \/ Take \/ TakeEmpty \/ Attempt \/ AttemptEnd
        \/ Retry \/ BatchEnd \/ ExecReturn \/ DropEnd \/ Other
Spec == Init /\ [][Next]_vars

TraceAccepted ==
    LET n == TLCGet("stats").diameter IN
    IF n - 1 = Len(Rec) THEN TRUE
    ELSE /\ PrintT(<<"REJECTED", n, ToJson(Rec[n])>>)
         /\ FALSE
=============================================================================
