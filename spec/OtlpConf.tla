------------------------------ MODULE OtlpConf ------------------------------
(***************************************************************************)
(* C12, strict conformance at level B: is the request sequence a real      *)
(* emitter produced for one signal a behaviour of Otlp.tla?                *)
(*                                                                         *)
(* One line of the input per (scenario, signal):                           *)
(*   [sc, sig, sizes, limit, flushAt, refused,                             *)
(*    reqs: <<[known, ids, dec, reuse]>>]                                  *)
(* ids are the specification's event numbers.  Every line is an initial    *)
(* state; the recorded requests must be matched, in order, by WSend steps  *)
(* (same events, same decision, same connection as the previous request    *)
(* iff the specification keeps its connection); the steps of the emitting  *)
(* thread, batch taking, back-off and refused connects are not recorded    *)
(* and are searched by TLC.  A line conforms when the flush can return     *)
(* after its last request; TLC prints CONFORMS for it.  A recorded run     *)
(* that level A accepts but level B cannot produce is MODEL-DRIFT.         *)
(***************************************************************************)
EXTENDS Otlp, IOUtils

Rec == ndJsonDeserialize(IOEnv.TRACE)

VARIABLES seg, l
cvars == <<vars, seg, l>>

S == Rec[seg]

CInit ==
    /\ seg \in 1..Len(Rec)
    /\ l = 1
    /\ size = [e \in Ev |-> Rec[seg].sizes[e]]
    /\ limit = Rec[seg].limit
    /\ flushAt = {Rec[seg].flushAt[i] : i \in 1..Len(Rec[seg].flushAt)}
    /\ InitRest

Internal ==
    /\ \/ HEmit \/ HFlush \/ HReturn \/ WTake \/ WTakeEmpty \/ WBackoff
       \/ (S.refused > 0 /\ WConnectFail)
    /\ UNCHANGED <<seg, l>>

Logged ==
    /\ l <= Len(S.reqs)
    /\ LET r == S.reqs[l] IN
       /\ wpc = "send" /\ batch # <<>>
       /\ r.known => Elems(Last(batch)) = {r.ids[i] : i \in 1..Len(r.ids)}
       /\ (conn # 0) = r.reuse
       /\ WSend(r.dec)
    /\ l' = l + 1
    /\ seg' = seg

CDone ==
    /\ l = Len(S.reqs) + 1
    /\ hpc = "done"
    /\ PrintT(<<"CONFORMS", S.sc, S.sig>>)
    /\ l' = l + 1
    /\ UNCHANGED <<vars, seg>>

CNext == Internal \/ Logged \/ CDone
CSpec == CInit /\ [][CNext]_cvars
=============================================================================
