\* C11 thorough (b): max_files {1,2,3}, max size {1, 8, 1000}, reuse on/off; <= 3 submitted batches of <= 2 events,
\* <= 4 on_batch calls, 1 injected fault at any filesystem call (err / short write), no crash, 1 clean restart;
\* clock same / later / next period / back one period (retries: same / next); overflow-truncated batches; random
\* ids above or below.
SPECIFICATION Spec
CONSTANTS
    EvSize <- MC_EvSize
    MaxFilesSet = {1, 2, 3}
    MaxSizeSet = {1, 8, 1000}
    ReuseSet = {TRUE, FALSE}
    NumEvents = 4
    MaxEv = 2
    MaxBatches = 3
    MaxCalls = 4
    MaxFaults = 1
    MaxCrashes = 0
    MaxReopens = 1
    MaxFmtFail = 0
    FmtFails = {}
    SepForms = {"nl"}
    WriterEnds = {"sep"}
    Ticks = {"same", "later", "next", "back"}
    RetryTicks = {"same", "next"}
    Phantoms = {0, 3}
    RidDirs = {"up", "down"}
    MaxPeriod = 3
    MaxMs = 2
    Emit = TRUE
VIEW view
INVARIANTS Durable RecordsWellFormed RetryIsWhole AckOnlyAfterSync NoGarbage
    OneFilePerBatch RollOnlyWhen MustRoll NameIs NewestFirst Retained OldestFirst NoPanic OwnSetOnly
    EnvOk ActiveIsLastGood
ACTION_CONSTRAINT EmitReplay
CHECK_DEADLOCK FALSE
