\* C13 self test andunique (class of seed C13-5): And<A,B>::is_unique = left && right would let dedup() skip its
\* scan across the two sides; TLC must report UniqueClaimSound on the small event set.
SPECIFICATION Spec
CONSTANTS
    Events <- MC_Events
    FixF8 = TRUE
    FixF9 = TRUE
    AndClaimsUnique = TRUE
    CarveF17 = TRUE
    Emit = FALSE
    MaxExtras = 2
    Tier = "small"
INVARIANTS TypeOK UniqueClaimSound AttrKeysUnique EveryPropOnce FirstWins WellKnownLifted Total Refines
CHECK_DEADLOCK FALSE
