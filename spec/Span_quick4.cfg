\* C04 quick (no random source): 1 thread, <= 2 spans, <= 3 frames, 1 task; the runtime has no rng (Option::None): spans have no ids, nothing else may break; every transition replayed.
SPECIFICATION SSpec
CONSTANTS
    NThreads = 1
    StoreOf <- MC_Store1
    InstKind <- MC_Kind1
    NKeys = 3
    PropChoices <- MC_None
    DupChoices <- MC_NoDups
    Kinds <- MC_None
    Forms <- MC_None
    MaxFrames = 3
    MaxTasks = 1
    MaxDepth = 3
    Panics = TRUE
    Discards = FALSE
    MaxSpans = 2
    IncomingKinds <- MC_None
    WithLazy = TRUE
    HasRng = FALSE
    ExplicitKinds <- MC_ExNone
    PushLastWins = FALSE
    WithCancel = FALSE
    CancelOwnIds = FALSE
    CtxForms <- MC_FormsNoRng
    Emit = TRUE
VIEW sview
INVARIANTS InnermostWins NoTrace StackOK FrameIds AmbientIds OneTrace ParentIsEnclosing EventCarriesInnermost IdsDistinct
PROPERTIES Revert
ACTION_CONSTRAINT SEmitReplay
CHECK_DEADLOCK FALSE
