\* C09 carry-through to OTLP, design counterexample: a channel whose len() counts requests; PendingBounded must be violated.
SPECIFICATION Spec
CONSTANTS
    Capacity = 2
    Sizes = {1}
    Limits = {8}
    MaxOps = 4
    LenCountsRequests = TRUE
    Emit = FALSE
VIEW view
INVARIANTS TypeOK PendingBounded
CHECK_DEADLOCK FALSE
