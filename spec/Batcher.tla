------------------------------ MODULE Batcher ------------------------------
(***************************************************************************)
(* emit_batcher: the channel between a shared Sender and an exclusive      *)
(* Receiver (batcher/src/lib.rs, sync.rs).  Properties C06 - C09.          *)
(*                                                                         *)
(* Implementation-shaped: one action per critical section of the state     *)
(* lock (Send, TrySend, WhenEmpty, WhenFlushed, RecvTake, drops) and per   *)
(* receiver-local step between two points where the receiver can be        *)
(* pre-empted (AttemptEnd, RetryWake, IdleWake).  These are exactly the    *)
(* steps the scheduler hook (verif::point) lets the harness grant one at a *)
(* time, so every behaviour of this module can be forced on the real       *)
(* Sender / Receiver::exec.                                                *)
(***************************************************************************)
EXTENDS Naturals, Sequences, FiniteSets, TLC, Json

CONSTANTS
    SenderOps,    \* [sender -> sequence of ops]; op \in {"send", "sendS", "try", "block0", "blockInf", "blockTokio", "weCb", "weCbPanic"}
                  \* ("sendS": a plain send issued from INSIDE a metrics sampler, i.e. while `metric_source().sample_metrics(..)` of
                  \*  this very channel is handing its metrics to the caller's sampler - a reporter whose destination is the emitter it
                  \*  describes.  The sampler's own critical section only reads the queue length and is over before the sampler runs, so
                  \*  at this level the op is the ordinary Send; code that still holds the state lock there deadlocks on itself.)
                  \*  blockTokio: the async tokio::send without timeout (same steps as blockInf)
                  \*  weCb: a raw when_empty with an observed callback (at most one per sender)
    FlusherOps,   \* [flusher -> "flush0" | "flushInf" | "flushInfSame" | "flushTokio" | "cbPanic" | "cbPark"]
                  \*  flushTokio: the async tokio::flush (no timeout); cbPark: a raw when_flushed whose
                  \*  callback, when the receiver runs it, blocks until the environment lets it return
    Cap,          \* max_capacity (>= 1)
    MaxRetry,     \* Retry::max
    MaxFail,      \* budget of non-Ok processor outcomes in one behaviour
    AnyRemainder, \* TRUE: a retryable failure may return any sub-sequence; FALSE: suffixes
    AllowKill,    \* TRUE: the receiver future may be dropped at an await point
    NonEmptyRem,  \* TRUE: a retryable failure always returns a non-empty remainder
    OutcomeSet,   \* processor outcomes explored: subset of {"ok", "fail", "retry", "panic", "panicFut"}
    MaxIdleDelay, \* state constraint: do not follow idle spinning beyond this delay (ms)
    Emit          \* TRUE: print one REPLAY line per transition

Senders == DOMAIN SenderOps
Flushers == DOMAIN FlusherOps

\* an item is <<sender, position in its program>>
Items == UNION {{<<s, k>> : k \in 1..Len(SenderOps[s])} : s \in Senders}

VARIABLES
    (* the lock-protected State *)
    pending,      \* next_batch.channel        : sequence of items
    pendFlush,    \* next_batch.watchers.on_flush : sequence of flusher ids
    pendTake,     \* next_batch.watchers.on_take  : sequence of <<"tr", sender>> (a blocked sender's
                  \*                                 trigger) or <<"cb", sender>> (a raw callback)
    isOpen, isInBatch,
    (* the receiver's locals *)
    rpc,          \* "lock" | "inflight" | "retryWait" | "idle" | "inCb" | "done" | "dead"
    cur,          \* current_batch.channel
    curFlush,     \* current_batch.watchers.on_flush
    rem,          \* remainder waiting to be retried
    rcont,        \* where the receiver continues after the callback it is blocked in: "lock"|"idle"|"done"
    cbRest,       \* flush watchers still to be notified after that callback returns
    retries,      \* Retry::current
    retryDelay, idleDelay,   \* Delay::current, in abstract units (see DelayNext)
    (* sender / flusher threads *)
    spc,          \* [sender -> "op" | "whenEmpty" | "wait" | "done"]
    sidx,         \* [sender -> index of the current op]
    sretry,       \* [sender -> "no" | "held" | "lost"]: blocked sender; does it still hold its item
    sfired,       \* [sender -> its when_empty trigger fired]
    ecb,          \* [sender -> "no" | "reg" | "fired"]: its raw when_empty callback
    fpc,          \* [flusher -> "start" | "wait" | "done"]
    ffired,       \* [flusher -> "no" | "yes" | "yesDead"]  (fired while the receiver was gone)
    senderAlive,
    (* metrics: InternalMetrics *)
    mTrunc, mBlocked, mProcessed, mFailed, mPanicked, mRetry,
    (* history, part of the state: what the properties talk about *)
    accepted,     \* items in acceptance (lock) order
    status,       \* [item -> "none"|"pending"|"inflight"|"retrywait"|"done"|"trunc"|"refused"|"orphan"]
    taken,        \* concatenation of the batches swapped out, in order
    calls,        \* number of on_batch calls so far
    fsnap,        \* [flusher -> set of items accepted before its WhenFlushed]
    fret,         \* [flusher -> "none" | "true" | "false"]   blocking_flush result
    sres,         \* [sender -> sequence of results of its ops]
    fails,        \* faults used
    (* schedule history, hidden from the fingerprint by the VIEW *)
    hist

state == <<pending, pendFlush, pendTake, isOpen, isInBatch, rpc, cur, curFlush, rem, rcont, cbRest, retries,
           retryDelay, idleDelay, spc, sidx, sretry, sfired, ecb, fpc, ffired, senderAlive,
           mTrunc, mBlocked, mProcessed, mFailed, mPanicked, mRetry,
           accepted, status, taken, calls, fsnap, fret, sres, fails>>
vars == <<state, hist>>
view == state

-----------------------------------------------------------------------------
Item(s) == <<s, sidx[s]>>
Op(s) == SenderOps[s][sidx[s]]

SetStatus(st, S, v) == [i \in Items |-> IF i \in S THEN v ELSE st[i]]
SeqSet(q) == {q[i] : i \in 1..Len(q)}

\* Delay::next: current' = min(2 * current + step, max), in milliseconds
\* (bounded(): idle 1 ms .. 500 ms, retry 700 ms .. 10 s)
DelayStep(step, max, d) == IF 2 * d + step > max THEN max ELSE 2 * d + step
IdleNext(d) == DelayStep(1, 500, d)
RetryNext(d) == DelayStep(700, 10000, d)

\* the snapshot the hook reports while the lock is held
Snap(p, pf, pt, o, b) == [pl |-> Len(p), nf |-> Len(pf), nt |-> Len(pt), open |-> o, inb |-> b]

Log(actor, act, obs) == hist' = Append(hist, [who |-> actor, act |-> act, obs |-> obs])

Init ==
    /\ pending = <<>> /\ pendFlush = <<>> /\ pendTake = <<>>
    /\ isOpen = TRUE /\ isInBatch = FALSE
    /\ rpc = "lock" /\ cur = <<>> /\ curFlush = <<>> /\ rem = <<>> /\ retries = 0
    /\ rcont = "" /\ cbRest = <<>>
    /\ retryDelay = 0 /\ idleDelay = 0
    /\ spc = [s \in Senders |-> IF Len(SenderOps[s]) = 0 THEN "done" ELSE "op"]
    /\ sidx = [s \in Senders |-> 1]
    /\ sretry = [s \in Senders |-> "no"]
    /\ sfired = [s \in Senders |-> FALSE]
    /\ ecb = [s \in Senders |-> "no"]
    /\ fpc = [f \in Flushers |-> "start"]
    /\ ffired = [f \in Flushers |-> "no"]
    /\ senderAlive = TRUE
    /\ mTrunc = 0 /\ mBlocked = 0 /\ mProcessed = 0 /\ mFailed = 0 /\ mPanicked = 0 /\ mRetry = 0
    /\ accepted = <<>>
    /\ status = [i \in Items |-> "none"]
    /\ taken = <<>> /\ calls = 0
    /\ fsnap = [f \in Flushers |-> {}]
    /\ fret = [f \in Flushers |-> "none"]
    /\ sres = [s \in Senders |-> <<>>]
    /\ fails = 0
    /\ hist = <<>>

-----------------------------------------------------------------------------
(* Sender side *)

NextOp(s) ==
    IF sidx[s] < Len(SenderOps[s])
    THEN /\ sidx' = [sidx EXCEPT ![s] = @ + 1] /\ spc' = [spc EXCEPT ![s] = "op"]
    ELSE /\ sidx' = sidx /\ spc' = [spc EXCEPT ![s] = "done"]

\* Sender::send - one critical section.  In the code's order: truncate-and-count when the
\* queue is full, *then* the closed check, then push.
Send(s) ==
    /\ senderAlive /\ spc[s] = "op" /\ Op(s) \in {"send", "sendS"}
    /\ LET full == Len(pending) >= Cap
           p1 == IF full THEN <<>> ELSE pending
           st1 == IF full THEN SetStatus(status, SeqSet(pending), "trunc") ELSE status
       IN /\ mTrunc' = IF full THEN mTrunc + 1 ELSE mTrunc
          /\ IF isOpen
             THEN /\ pending' = Append(p1, Item(s))
                  /\ accepted' = Append(accepted, Item(s))
                  /\ status' = [st1 EXCEPT ![Item(s)] = "pending"]
             ELSE /\ pending' = p1
                  /\ accepted' = accepted
                  /\ status' = [st1 EXCEPT ![Item(s)] = "refused"]
          /\ sres' = [sres EXCEPT ![s] = Append(@, IF full THEN "sent-truncated" ELSE "sent")]
          /\ Log(s, "Send", [snap |-> Snap(pending', pendFlush, pendTake, isOpen, isInBatch),
                             trunc |-> mTrunc'])
    /\ NextOp(s)
    /\ UNCHANGED <<pendFlush, pendTake, isOpen, isInBatch, rpc, cur, curFlush, rem, rcont, cbRest, retries,
                   retryDelay, idleDelay, sretry, ecb, sfired, fpc, ffired, senderAlive, mBlocked,
                   mProcessed, mFailed, mPanicked, mRetry, taken, calls, fsnap, fret, fails>>

\* Sender::try_send, also the first and the repeated step of blocking_send (send_or_wait)
TrySend(s) ==
    /\ senderAlive /\ spc[s] = "op" /\ Op(s) \in {"try", "block0", "blockInf", "blockTokio"}
    /\ LET closed == ~isOpen
           ok == isOpen /\ Len(pending) < Cap
           first == sretry[s] = "no"      \* not a repeated attempt of a blocked sender
       IN /\ IF ok
             THEN /\ pending' = Append(pending, Item(s))
                  /\ accepted' = Append(accepted, Item(s))
                  /\ status' = [status EXCEPT ![Item(s)] = "pending"]
             ELSE /\ UNCHANGED <<pending, accepted>>
                  /\ status' = IF closed THEN [status EXCEPT ![Item(s)] = "refused"] ELSE status
          /\ IF ok \/ Op(s) = "try" \/ Op(s) = "block0"
             THEN \* the operation returns
                  /\ sres' = [sres EXCEPT ![s] = Append(@, IF ok THEN "ok"
                                                           ELSE IF closed THEN "err-closed"
                                                           ELSE "err-full-returned")]
                  /\ sretry' = [sretry EXCEPT ![s] = "no"]
                  /\ NextOp(s)
             ELSE \* blocking send without timeout and not sent: wait for the next hand-off, then
                  \* try again (a closed channel swallows the item: the next round reports it)
                  /\ sres' = sres
                  /\ sretry' = [sretry EXCEPT ![s] = IF closed THEN "lost" ELSE "held"]
                  /\ spc' = [spc EXCEPT ![s] = "whenEmpty"]
                  /\ sidx' = sidx
          \* queue_full_blocked counts the first failed try of a blocking send
          /\ mBlocked' = IF ~ok /\ first /\ Op(s) \in {"block0", "blockInf", "blockTokio"}
                         THEN mBlocked + 1 ELSE mBlocked
          /\ Log(s, "TrySend", [snap |-> Snap(pending', pendFlush, pendTake, isOpen, isInBatch),
                                ok |-> ok, closed |-> closed])
    /\ UNCHANGED <<pendFlush, pendTake, isOpen, isInBatch, rpc, cur, curFlush, rem, rcont, cbRest, retries,
                   retryDelay, idleDelay, sfired, fpc, ffired, senderAlive, mTrunc,
                   mProcessed, mFailed, mPanicked, mRetry, taken, calls, fsnap, fret, fails>>
    /\ UNCHANGED ecb

\* Sender::when_empty as used by blocking_send
WhenEmpty(s) ==
    /\ senderAlive /\ spc[s] = "whenEmpty"
    /\ IF pending = <<>>
       THEN /\ sfired' = [sfired EXCEPT ![s] = TRUE] /\ pendTake' = pendTake
       ELSE /\ pendTake' = Append(pendTake, <<"tr", s>>) /\ sfired' = sfired
    /\ spc' = [spc EXCEPT ![s] = "wait"]
    /\ Log(s, "WhenEmpty", [snap |-> Snap(pending, pendFlush, pendTake', isOpen, isInBatch),
                            immediate |-> pending = <<>>])
    /\ UNCHANGED <<pending, pendFlush, isOpen, isInBatch, rpc, cur, curFlush, rem, rcont, cbRest, retries,
                   retryDelay, idleDelay, sidx, sretry, ecb, fpc, ffired, senderAlive,
                   mTrunc, mBlocked, mProcessed, mFailed, mPanicked, mRetry,
                   accepted, status, taken, calls, fsnap, fret, sres, fails>>

\* a raw Sender::when_empty with an observed callback; the caller does not wait for it
WhenEmptyCb(s) ==
    /\ senderAlive /\ spc[s] = "op" /\ Op(s) \in {"weCb", "weCbPanic"}
    /\ IF pending = <<>>
       THEN /\ ecb' = [ecb EXCEPT ![s] = "fired"] /\ pendTake' = pendTake
       ELSE /\ pendTake' = Append(pendTake, <<"cb", s>>) /\ ecb' = [ecb EXCEPT ![s] = "reg"]
    /\ sres' = [sres EXCEPT ![s] = Append(@, "registered")]
    /\ NextOp(s)
    /\ Log(s, "WhenEmptyCb", [snap |-> Snap(pending, pendFlush, pendTake', isOpen, isInBatch),
                              immediate |-> pending = <<>>])
    /\ UNCHANGED <<pending, pendFlush, isOpen, isInBatch, rpc, cur, curFlush, rem, rcont, cbRest, retries,
                   retryDelay, idleDelay, sretry, sfired, fpc, ffired, senderAlive,
                   mTrunc, mBlocked, mProcessed, mFailed, mPanicked, mRetry,
                   accepted, status, taken, calls, fsnap, fret, fails>>

\* Trigger::wait_timeout returning because the trigger fired; a sender whose item was
\* swallowed by a closed channel reports the error now, the others try again
SendWake(s) ==
    /\ spc[s] = "wait" /\ sfired[s]
    /\ sfired' = [sfired EXCEPT ![s] = FALSE]
    /\ IF sretry[s] = "lost"
       THEN /\ sres' = [sres EXCEPT ![s] = Append(@, "err-closed")]
            /\ sretry' = [sretry EXCEPT ![s] = "no"]
            /\ NextOp(s)
       ELSE /\ spc' = [spc EXCEPT ![s] = "op"]
            /\ UNCHANGED <<sres, sretry, sidx>>
    /\ Log(s, "SendWake", [x |-> 0])
    /\ UNCHANGED <<pending, pendFlush, pendTake, isOpen, isInBatch, rpc, cur, curFlush, rem, rcont, cbRest,
                   retries, retryDelay, idleDelay, fpc, ffired, senderAlive,
                   mTrunc, mBlocked, mProcessed, mFailed, mPanicked, mRetry,
                   accepted, status, taken, calls, fsnap, fret, fails>>
    /\ UNCHANGED ecb

\* Sender::when_flushed
\* "flushInfSame" is a second blocking flush issued by the thread that ran the "flush0" flusher,
\* after that call returned (whatever a blocking flush keeps per thread is then reused)
SameThreadDone(f) ==
    FlusherOps[f] = "flushInfSame" =>
        \A p \in Flushers : FlusherOps[p] = "flush0" => fpc[p] = "done"
WhenFlushed(f) ==
    /\ senderAlive /\ fpc[f] = "start"
    /\ SameThreadDone(f)
    /\ LET imm == ~isInBatch /\ (pending = <<>> \/ ~isOpen)
       IN /\ IF imm
             THEN /\ ffired' = [ffired EXCEPT ![f] = IF rpc = "dead" THEN "yesDead" ELSE "yes"]
                  /\ pendFlush' = pendFlush
             ELSE /\ pendFlush' = Append(pendFlush, f) /\ ffired' = ffired
          /\ Log(f, "WhenFlushed", [snap |-> Snap(pending, pendFlush', pendTake, isOpen, isInBatch),
                                    immediate |-> imm])
    /\ fsnap' = [fsnap EXCEPT ![f] = SeqSet(accepted)]
    /\ fpc' = [fpc EXCEPT ![f] = IF FlusherOps[f] \in {"cbPanic", "cbPark"} THEN "done" ELSE "wait"]
    /\ UNCHANGED <<pending, pendTake, isOpen, isInBatch, rpc, cur, curFlush, rem, rcont, cbRest, retries,
                   retryDelay, idleDelay, spc, sidx, sretry, ecb, sfired, senderAlive,
                   mTrunc, mBlocked, mProcessed, mFailed, mPanicked, mRetry,
                   accepted, status, taken, calls, fret, sres, fails>>

\* blocking_flush returning: timeout 0 reports the flag as it is, no timeout waits for it
FlushRet(f) ==
    /\ fpc[f] = "wait"
    /\ FlusherOps[f] \in {"flushInf", "flushInfSame", "flushTokio"} => ffired[f] # "no"
    /\ fret' = [fret EXCEPT ![f] = IF ffired[f] # "no" THEN "true" ELSE "false"]
    /\ fpc' = [fpc EXCEPT ![f] = "done"]
    /\ Log(f, "FlushRet", [ret |-> ffired[f] # "no"])
    /\ UNCHANGED <<pending, pendFlush, pendTake, isOpen, isInBatch, rpc, cur, curFlush, rem, rcont, cbRest,
                   retries, retryDelay, idleDelay, spc, sidx, sretry, ecb, sfired, ffired,
                   senderAlive, mTrunc, mBlocked, mProcessed, mFailed, mPanicked, mRetry,
                   accepted, status, taken, calls, fsnap, sres, fails>>

\* the last Sender handle is dropped once every user of it has returned
DropSender ==
    /\ senderAlive
    /\ \A s \in Senders : spc[s] = "done"
    /\ \A f \in Flushers : fpc[f] = "done"
    /\ senderAlive' = FALSE /\ isOpen' = FALSE
    /\ Log("env", "DropSender", [snap |-> Snap(pending, pendFlush, pendTake, FALSE, isInBatch)])
    /\ UNCHANGED <<pending, pendFlush, pendTake, isInBatch, rpc, cur, curFlush, rem, rcont, cbRest, retries,
                   retryDelay, idleDelay, spc, sidx, sretry, ecb, sfired, fpc, ffired,
                   mTrunc, mBlocked, mProcessed, mFailed, mPanicked, mRetry,
                   accepted, status, taken, calls, fsnap, fret, sres, fails>>

-----------------------------------------------------------------------------
(* Receiver side: Receiver::exec *)

FireTake(sf, ws) == [s \in Senders |-> IF <<"tr", s>> \in SeqSet(ws) THEN TRUE ELSE sf[s]]
FireEcb(ec, ws) == [s \in Senders |-> IF <<"cb", s>> \in SeqSet(ws) THEN "fired" ELSE ec[s]]

\* notify_on_flush runs the watchers in registration order on the receiver's thread.  A
\* cbPark callback blocks there: the watchers up to and including it are notified, the rest
\* wait until it returns.
ParkAt(ws) == IF \E k \in 1..Len(ws) : FlusherOps[ws[k]] = "cbPark"
              THEN CHOOSE k \in 1..Len(ws) : /\ FlusherOps[ws[k]] = "cbPark"
                                              /\ \A j \in 1..(k - 1) : FlusherOps[ws[j]] # "cbPark"
              ELSE 0
Notified(ws) == IF ParkAt(ws) = 0 THEN ws ELSE SubSeq(ws, 1, ParkAt(ws))
NotYet(ws) == IF ParkAt(ws) = 0 THEN <<>> ELSE SubSeq(ws, ParkAt(ws) + 1, Len(ws))
FireFlush(ff, ws) == [f \in Flushers |-> IF f \in SeqSet(ws) /\ ff[f] = "no" THEN "yes" ELSE ff[f]]

\* what the receiver does once all watchers of a hand-off have been notified
\*   "lock": back to the top of the loop; "idle": sleep (wait is called now); "done": return
Continue(to) ==
    /\ rpc' = to
    /\ idleDelay' = IF to = "idle" THEN IdleNext(idleDelay) ELSE idleDelay

\* notify the watchers ws, then continue at `to` - or block inside a cbPark callback first
NotifyThen(ws, to) ==
    /\ ffired' = FireFlush(ffired, Notified(ws))
    /\ IF ParkAt(ws) = 0
       THEN /\ Continue(to) /\ rcont' = "" /\ cbRest' = <<>>
       ELSE /\ rpc' = "inCb" /\ rcont' = to /\ cbRest' = NotYet(ws) /\ idleDelay' = idleDelay

\* lock; swap the pending batch out (or take only the watchers); unlock; notify_on_take;
\* then either call on_batch, or (empty hand-off) notify_on_flush and sleep / return.
RecvTake ==
    /\ rpc = "lock"
    /\ sfired' = FireTake(sfired, pendTake)
    /\ ecb' = FireEcb(ecb, pendTake)
    /\ pending' = <<>> /\ pendFlush' = <<>> /\ pendTake' = <<>>
    /\ IF pending # <<>>
       THEN /\ isInBatch' = TRUE
            /\ cur' = pending /\ curFlush' = pendFlush
            /\ status' = SetStatus(status, SeqSet(pending), "inflight")
            /\ taken' = taken \o pending
            /\ retries' = 0 /\ retryDelay' = 0 /\ idleDelay' = 0
            /\ calls' = calls + 1
            /\ rpc' = "inflight"
            /\ UNCHANGED <<ffired, rcont, cbRest>>
            /\ Log("recv", "RecvTake", [snap |-> Snap(<<>>, <<>>, <<>>, isOpen, TRUE),
                                        batch |-> pending, wait |-> 0])
       ELSE /\ isInBatch' = FALSE
            /\ cur' = <<>> /\ curFlush' = <<>>
            /\ UNCHANGED <<status, taken, retries, retryDelay, calls>>
            /\ NotifyThen(pendFlush, IF isOpen THEN "idle" ELSE "done")
            /\ Log("recv", "RecvTake", [snap |-> Snap(<<>>, <<>>, <<>>, isOpen, FALSE),
                                        batch |-> <<>>,
                                        wait |-> IF rpc' = "idle" THEN idleDelay' ELSE 0])
    /\ UNCHANGED <<isOpen, rem, spc, sidx, sretry, fpc, senderAlive,
                   mTrunc, mBlocked, mProcessed, mFailed, mPanicked, mRetry,
                   accepted, fsnap, fret, sres, fails>>

\* the callback the receiver is blocked in returns: the remaining watchers are notified
CbReturn ==
    /\ rpc = "inCb"
    /\ NotifyThen(cbRest, rcont)
    /\ Log("recv", "CbReturn", [wait |-> IF rpc' = "idle" THEN idleDelay' ELSE 0])
    /\ UNCHANGED <<pending, pendFlush, pendTake, isOpen, isInBatch, cur, curFlush, rem, retries,
                   retryDelay, spc, sidx, sretry, ecb, sfired, fpc, senderAlive,
                   mTrunc, mBlocked, mProcessed, mFailed, mPanicked, mRetry,
                   accepted, status, taken, calls, fsnap, fret, sres, fails>>

IdleWake ==
    /\ rpc = "idle"
    /\ rpc' = "lock"
    /\ Log("recv", "IdleWake", [x |-> 0])
    /\ UNCHANGED <<pending, pendFlush, pendTake, isOpen, isInBatch, cur, curFlush, rem, rcont, cbRest,
                   retries, retryDelay, idleDelay, spc, sidx, sretry, ecb, sfired, fpc, ffired, senderAlive,
                   mTrunc, mBlocked, mProcessed, mFailed, mPanicked, mRetry,
                   accepted, status, taken, calls, fsnap, fret, sres, fails>>

\* sub-sequences of a sequence (order preserved)
RECURSIVE SubSeqs(_)
SubSeqs(q) == IF q = <<>> THEN {<<>>}
              ELSE LET r == SubSeqs(Tail(q)) IN r \cup {<<Head(q)>> \o x : x \in r}
SuffixesOf(q) == {SubSeq(q, k, Len(q)) : k \in 1..(Len(q) + 1)}
Remainders(q) == (IF AnyRemainder THEN SubSeqs(q) ELSE SuffixesOf(q)) \ (IF NonEmptyRem THEN {<<>>} ELSE {})

FinishBatch ==   \* final attempt returned: everything in the batch is done; notify_on_flush
    /\ status' = SetStatus(status, SeqSet(cur), "done")
    /\ NotifyThen(curFlush, "lock")
    /\ cur' = <<>> /\ curFlush' = <<>> /\ rem' = <<>>
    /\ UNCHANGED <<retryDelay>>

\* the future returned by on_batch resolves (or it, or the closure, panics)
AttemptEnd(outcome, r) ==
    /\ rpc = "inflight"
    /\ outcome # "ok" => fails < MaxFail
    /\ fails' = IF outcome = "ok" THEN fails ELSE fails + 1
    /\ \/ /\ outcome = "ok" /\ r = <<>>
          /\ mProcessed' = mProcessed + 1
          /\ FinishBatch
          /\ UNCHANGED <<mFailed, mPanicked, retries>>
       \/ /\ outcome \in {"panic", "panicFut"} /\ r = <<>>
          /\ mPanicked' = mPanicked + 1
          /\ FinishBatch
          /\ UNCHANGED <<mFailed, mProcessed, retries>>
       \/ /\ outcome = "fail" /\ r = <<>>            \* BatchError::no_retry
          /\ mFailed' = mFailed + 1
          /\ FinishBatch
          /\ UNCHANGED <<mProcessed, mPanicked, retries>>
       \/ /\ outcome = "retry" /\ r \in Remainders(cur)   \* BatchError::retry(_, r)
          /\ mFailed' = mFailed + 1
          /\ UNCHANGED <<mProcessed, mPanicked>>
          /\ IF r # <<>> /\ retries < MaxRetry
             THEN /\ retries' = retries + 1
                  /\ retryDelay' = RetryNext(retryDelay)
                  /\ rem' = r
                  /\ status' = [i \in Items |-> IF i \in SeqSet(r) THEN "retrywait"
                                                ELSE IF i \in SeqSet(cur) THEN "done"
                                                ELSE status[i]]
                  /\ rpc' = "retryWait"
                  /\ UNCHANGED <<cur, curFlush, ffired, rcont, cbRest, idleDelay>>
             ELSE /\ retries' = IF r # <<>> THEN retries + 1 ELSE retries
                  /\ FinishBatch
    /\ Log("recv", "AttemptEnd", [outcome |-> outcome, rem |-> r,
                                  wait |-> IF rpc' = "retryWait" THEN retryDelay' ELSE 0,
                                  m |-> <<mProcessed', mFailed', mPanicked'>>])
    /\ UNCHANGED <<pending, pendFlush, pendTake, isOpen, isInBatch, spc, sidx,
                   sretry, ecb, sfired, fpc, senderAlive, mTrunc, mBlocked, mRetry,
                   accepted, taken, calls, fsnap, fret, sres>>

\* the retry back-off elapsed: on_batch is called again with exactly the remainder
RetryWake ==
    /\ rpc = "retryWait"
    /\ cur' = rem /\ rem' = <<>>
    /\ status' = SetStatus(status, SeqSet(rem), "inflight")
    /\ mRetry' = mRetry + 1
    /\ calls' = calls + 1
    /\ rpc' = "inflight"
    /\ Log("recv", "RetryWake", [batch |-> rem])
    /\ UNCHANGED <<pending, pendFlush, pendTake, isOpen, isInBatch, curFlush, rcont, cbRest, retries,
                   retryDelay, idleDelay, spc, sidx, sretry, ecb, sfired, fpc, ffired, senderAlive,
                   mTrunc, mBlocked, mProcessed, mFailed, mPanicked,
                   accepted, taken, fsnap, fret, sres, fails>>

\* the runtime drops the receiver future at an await point (Receiver::drop closes the channel;
\* the batch in flight and its watchers are lost)
Kill ==
    /\ AllowKill /\ rpc \in {"inflight", "retryWait", "idle"}
    /\ rpc' = "dead" /\ isOpen' = FALSE
    /\ status' = SetStatus(status, SeqSet(cur) \cup SeqSet(rem), "orphan")
    /\ cur' = <<>> /\ rem' = <<>> /\ curFlush' = <<>>
    /\ Log("recv", "Kill", [snap |-> Snap(pending, pendFlush, pendTake, FALSE, isInBatch)])
    /\ UNCHANGED <<pending, pendFlush, pendTake, isInBatch, rcont, cbRest, retries, retryDelay, idleDelay,
                   spc, sidx, sretry, ecb, sfired, fpc, ffired, senderAlive,
                   mTrunc, mBlocked, mProcessed, mFailed, mPanicked, mRetry,
                   accepted, taken, calls, fsnap, fret, sres, fails>>

Outcomes == OutcomeSet

(* BatchError is an optional remainder; the receiver only ever looks at that option, so the
   processor may build the same abstract outcome through any of the type's combinators.  The
   harness rotates through ErrForms when it constructs the error for an AttemptEnd; the ASSUME
   (checked by TLC for the remainders of a small alphabet) says that they all denote the same
   option: retry(_, r) = Some(r), no_retry(_) = None, map_retryable(f) applies f to the option,
   try_into_retryable gives the remainder back or the error unchanged. *)
None_ == <<"none">>
Some_(r) == <<"some", r>>
BE_NoRetry == None_
BE_Retry(r) == Some_(r)
BE_MapRetryable(be, F(_)) == F(be)
BE_TryIntoRetryable(be) == IF be = None_ THEN <<"err", None_>> ELSE <<"ok", be[2]>>
ErrForms == {"direct", "mapNoneToSome", "mapSomeToSome", "mapSomeToNone", "mapIdentity", "tryIntoRoundTrip"}
ConstSome(r, be) == Some_(r)      \* |_| Some(r)
ConstNone(be) == None_            \* |_| None
Identity(be) == be
BE_Build(form, want) ==     \* want: None_ or Some_(r)
    CASE form = "direct" -> IF want = None_ THEN BE_NoRetry ELSE BE_Retry(want[2])
      [] form = "mapNoneToSome" -> IF want = None_ THEN BE_NoRetry
                                   ELSE BE_MapRetryable(BE_NoRetry, LAMBDA be : ConstSome(want[2], be))
      [] form = "mapSomeToSome" -> IF want = None_ THEN BE_NoRetry
                                   ELSE BE_MapRetryable(BE_Retry(<<>>), LAMBDA be : ConstSome(want[2], be))
      [] form = "mapSomeToNone" -> IF want = None_ THEN BE_MapRetryable(BE_Retry(<<>>), ConstNone)
                                   ELSE BE_Retry(want[2])
      [] form = "mapIdentity" -> BE_MapRetryable(IF want = None_ THEN BE_NoRetry ELSE BE_Retry(want[2]), Identity)
      [] form = "tryIntoRoundTrip" ->
            LET t == BE_TryIntoRetryable(IF want = None_ THEN BE_NoRetry ELSE BE_Retry(want[2]))
            IN IF t[1] = "ok" THEN BE_Retry(t[2]) ELSE t[2]
ASSUME \A form \in ErrForms : \A want \in {None_, Some_(<<>>), Some_(<<1>>), Some_(<<1, 2>>)} :
          BE_Build(form, want) = want

RecvNext ==
    \/ RecvTake \/ IdleWake \/ RetryWake \/ CbReturn
    \/ \E o \in Outcomes : \E r \in (IF o = "retry" THEN Remainders(cur) ELSE {<<>>}) :
          AttemptEnd(o, r)

Next ==
    \/ \E s \in Senders : Send(s) \/ TrySend(s) \/ WhenEmpty(s) \/ WhenEmptyCb(s) \/ SendWake(s)
    \/ \E f \in Flushers : WhenFlushed(f) \/ FlushRet(f)
    \/ DropSender
    \/ RecvNext
    \/ Kill

Spec == Init /\ [][Next]_vars
\* the receiver is a thread / task that is always eventually scheduled
FairSpec == Spec /\ WF_vars(RecvNext)
             /\ \A f \in Flushers : WF_vars(FlushRet(f))
             /\ \A s \in Senders : WF_vars(Send(s) \/ TrySend(s) \/ WhenEmpty(s) \/ WhenEmptyCb(s) \/ SendWake(s))
             /\ WF_vars(DropSender)

-----------------------------------------------------------------------------
(* Properties *)

TypeOK ==
    /\ rpc \in {"lock", "inflight", "retryWait", "idle", "inCb", "done", "dead"}
    /\ retries \in 0..(MaxRetry + 1)
    /\ \A i \in Items : status[i] \in {"none", "pending", "inflight", "retrywait", "done",
                                        "trunc", "refused", "orphan"}

\* idle spinning adds no behaviour: cut it (safety configs only)
IdleBound == idleDelay <= MaxIdleDelay

(* C09 *)
Bounded == Len(pending) <= Cap

(* C06: the swapped-out batches followed by what is still pending are exactly the accepted
   sequence minus the items cleared by a counted truncation: nothing lost, nothing twice,
   order kept. *)
NotTrunc(i) == status[i] # "trunc"
Partition == SelectSeq(accepted, NotTrunc) = taken \o pending
\* an item is in exactly one place
StatusConsistent ==
    /\ \A i \in SeqSet(pending) : status[i] = "pending"
    /\ \A i \in SeqSet(cur) : status[i] \in {"inflight", "retrywait", "done"}
    /\ \A i \in Items : status[i] = "pending" => i \in SeqSet(pending)
    /\ \A i \in Items : status[i] = "inflight" => i \in SeqSet(cur) /\ rpc = "inflight"
    /\ \A i \in Items : status[i] = "retrywait" => i \in SeqSet(rem) /\ rpc = "retryWait"
\* every truncation is counted: mTrunc truncations cleared at least that many... exact count
TruncCounted == (mTrunc = 0) <=> (\A i \in Items : status[i] # "trunc")

(* C07 *)
FlushMeansDone ==
    \A f \in Flushers : ffired[f] = "yes" =>
        \A i \in fsnap[f] : status[i] \in {"done", "trunc"}
FlushRetTruthful ==
    \A f \in Flushers : fret[f] = "true" => ffired[f] # "no"

(* C08 safety *)
RetryBounded == retries <= MaxRetry + 1 /\ (rpc = "retryWait" => retries <= MaxRetry)
BackoffBounded == retryDelay <= 10000 /\ idleDelay <= 500
\* a watcher sits in at most one list, and never after it fired
CallbackOnce ==
    /\ \A f \in Flushers :
          Cardinality({k \in 1..Len(pendFlush) : pendFlush[k] = f})
            + Cardinality({k \in 1..Len(curFlush) : curFlush[k] = f})
            + Cardinality({k \in 1..Len(cbRest) : cbRest[k] = f}) <= 1
    /\ \A f \in Flushers : ffired[f] # "no" =>
          f \notin SeqSet(pendFlush) \cup SeqSet(curFlush) \cup SeqSet(cbRest)
\* Send is never disabled by the receiver's state (C09: the caller is never made to wait)
SendNeverWaits ==
    \A s \in Senders : (senderAlive /\ spc[s] = "op" /\ Op(s) \in {"send", "sendS"}) => ENABLED Send(s)

(* C08 liveness, under FairSpec *)
Alive == rpc # "dead"
FlushLive == \A f \in Flushers : (fpc[f] = "wait") ~> (ffired[f] # "no" \/ ~Alive)
Drain == (~senderAlive) ~> (rpc \in {"done", "dead"})
DrainClean == [](rpc = "done" => /\ pending = <<>> /\ pendFlush = <<>> /\ pendTake = <<>>
                                 /\ cur = <<>> /\ curFlush = <<>> /\ cbRest = <<>>)
AllProcessed == \A i \in Items : (status[i] \in {"pending", "inflight", "retrywait"})
                                    ~> (status[i] \in {"done", "trunc", "orphan"})
EmptyLive == \A s \in Senders : (ecb[s] = "reg") ~> (ecb[s] = "fired" \/ ~Alive)
BlockedSenderWakes == \A s \in Senders : (spc[s] = "wait") ~> (spc[s] # "wait" \/ ~Alive)

-----------------------------------------------------------------------------
(* spec -> code: one REPLAY line per transition *)
ReplayLine ==
    PrintT(<<"REPLAY", ToJson([steps |-> hist',
        fin |-> [sres |-> sres', fret |-> fret', ffired |-> ffired', ecb |-> ecb',
                 terminal |-> (rpc' = "done" /\ ~senderAlive'),
                 metrics |-> [queue_full_truncated |-> mTrunc', queue_full_blocked |-> mBlocked',
                              queue_batch_processed |-> mProcessed', queue_batch_failed |-> mFailed',
                              queue_batch_panicked |-> mPanicked', queue_batch_retry |-> mRetry',
                              queue_length |-> Len(pending')]]])>>)
EmitReplay == Emit => ReplayLine
\* simulation mode: one line per behaviour, when it terminates or reaches the depth bound
SimDepth == 60
EmitAtEnd == (rpc' = "done" \/ Len(hist') >= SimDepth) => ReplayLine

ASSUME PrintT(<<"CONFIG", ToJson([senderOps |-> SenderOps, flusherOps |-> FlusherOps,
                                   cap |-> Cap, maxRetry |-> MaxRetry])>>)
=============================================================================
