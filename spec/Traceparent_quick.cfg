\* C18 quick (deep): TraceparentFilter with sampler; 1 thread, <= 3 spans (sampler decision free at every root), <= 3 frames, 1 task, nesting <= 3;
\* sync spans, new_span! entered later / in_future, async-fn spans, Frame::current, events everywhere; no headers; every transition replayed.
SPECIFICATION Spec
CONSTANTS
    NThreads = 1
    MaxSpans = 3
    MaxFrames = 3
    MaxTasks = 1
    MaxDepth = 3
    Headers <- MC_NoHeaders
    InSampled = FALSE
    SnapshotOnPush = TRUE
    WithLazy = TRUE
    WithCurrent = TRUE
    FrameKinds <- MC_NoKinds
    Sampler = TRUE
    CtxForms <- MC_Forms
    Panics = TRUE
    Emit = TRUE
VIEW tview
INVARIANTS SamplerOncePerTrace DecisionGoverns UnsampledSilent SampledConsistent NoTraceNoParent FrameCarries
PROPERTIES Restored
ACTION_CONSTRAINT EmitReplay
CHECK_DEADLOCK FALSE
