----------------------- MODULE MCFileEmitterTraceSep -----------------------
\* end-to-end scenarios with a multi-byte separator: every record is 8 bytes (harness/vh_file SEP_REC)
EXTENDS FileEmitterTrace
MC_EvSize == [e \in 1..30 |-> 8]
=============================================================================
