----------------------------- MODULE MCTraceCtx -----------------------------
EXTENDS TraceCtx
Hex(s) == s     \* (sequences of one-character strings)
MC_TidHex == << <<"4","b","f","9","2","f","3","5","7","7","b","3","4","d","a","6","a","3","c","e","9","2","9","d","0","e","0","e","4","7","3","6">>,
                <<"0","0","0","0","0","0","0","0","0","0","0","0","0","0","0","0","0","0","0","0","0","0","0","0","0","0","0","0","0","0","0","1">> >>
MC_SidHex == << <<"0","0","f","0","6","7","a","a","0","b","a","9","0","2","b","7">>,
                <<"f","f","f","f","f","f","f","f","f","f","f","f","f","f","f","f">> >>
MC_TsText == <<"vendorname1=opaqueValue1", "v2=b,vendorname1=c">>

P(tr, sp, fl) == [tr |-> tr, sp |-> sp, fl |-> fl]
\* sampled; same trace other span, unsampled; other trace, other flag bits set; no span id; no ids at all but unsampled
TPsAll == {P(1, 1, 1), P(1, 2, 0), P(2, 1, 3), P(1, 0, 1), P(0, 0, 254)}
TPsSmall == {P(1, 1, 1), P(1, 2, 0), P(0, 0, 254)}
PairsAll == {<<P(1, 1, 1), 1>>, <<P(2, 1, 3), 2>>, <<P(1, 2, 0), 0>>}
PairsSmall == {<<P(2, 1, 3), 2>>, <<P(1, 2, 0), 0>>}

ASSUME PrintT(<<"TABLE", ToJson([tps |-> {[tp |-> p, tid |-> IF p.tr = 0 THEN <<>> ELSE MC_TidHex[p.tr],
                                               sid |-> IF p.sp = 0 THEN <<>> ELSE MC_SidHex[p.sp],
                                               text |-> T!FormatTp(IF p.tr = 0 THEN [i \in 1..32 |-> "0"] ELSE MC_TidHex[p.tr],
                                                                   IF p.sp = 0 THEN [i \in 1..16 |-> "0"] ELSE MC_SidHex[p.sp], p.fl)]
                                              : p \in TPsAll \cup {[tr |-> 0, sp |-> 0, fl |-> 1]}},
                                      tss |-> MC_TsText])>>)
=============================================================================
